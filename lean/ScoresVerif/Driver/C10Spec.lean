/- driver ops for C10 that evaluate ONLY the hand-written Spec (no translated code): the property oracle -/
import ScoresVerif.Driver.Proto
import ScoresVerif.Spec.ThresholdWeighted

namespace SV.Driver.C10Spec
open Lean SV SV.Proto SV.Spec.TW

/-- weight function and its finite kinks from a shape name and (possibly infinite) end points.
    rect: ends = [a, b];  trap: ends = [a, b, c, d] (positive on (a,d), one on [b,c));  one: weight 1 -/
def weightOf (shape : String) (ends : List Fl) : R ((Rat → Rat) × List Rat) :=
  match shape, ends with
  | "rect", [a, b] => pure (wRectE a b, finKinks [a, b])
  | "trap", [a, b, c, d] => pure (wTrapE a b c d, finKinks [a, b, c, d])
  | "one", _ => pure (wOne, [])
  | _, _ => throw s!"bad weight {shape}"

/-- the five threshold-weighted scores of one forecast case as integrals of weight × elementary score -/
def opSpec : Op := fun j => do
  let shape ← fStr j "shape"; let ends ← fFlList j "ends"
  let x ← fRat j "x"; let y ← fRat j "y"; let alpha ← fRat j "alpha"; let h ← fRat j "huber"
  let (w, ks) ← weightOf shape ends
  pure <| outObj [
    ("tw_squared_error", outRat (twSquaredError w ks x y)),
    ("tw_absolute_error", outRat (twAbsoluteError w ks x y)),
    ("tw_quantile_score", outRat (twQuantile w ks alpha x y)),
    ("tw_expectile_score", outRat (twExpectile w ks alpha x y)),
    ("tw_huber_loss", outRat (twHuber w ks h x y))]

/-- the unweighted scoring functions -/
def opStd : Op := fun j => do
  let x ← fRat j "x"; let y ← fRat j "y"; let alpha ← fRat j "alpha"; let h ← fRat j "huber"
  pure <| outObj [
    ("tw_squared_error", outRat (squaredError x y)),
    ("tw_absolute_error", outRat (absoluteError x y)),
    ("tw_quantile_score", outRat (pinball alpha x y)),
    ("tw_expectile_score", outRat (asymSquared alpha x y)),
    ("tw_huber_loss", outRat (huberLoss h x y))]

/-- weight and elementary scores at given thresholds (the oracle multiplies the weights with the values of the
    real `murphy_score`) and the quadrature grid -/
def opWeight : Op := fun j => do
  let shape ← fStr j "shape"; let ends ← fFlList j "ends"
  let thetas ← getList getRat (← field j "thetas")
  let (w, _) ← weightOf shape ends
  pure <| Json.arr (thetas.map fun t => outRat (w t)).toArray

def opGrid : Op := fun j => do
  let shape ← fStr j "shape"; let ends ← fFlList j "ends"
  let x ← fRat j "x"; let y ← fRat j "y"
  let extra ← getList getRat (← field j "extra")
  let (_, ks) ← weightOf shape ends
  pure <| Json.arr ((Spec.Quad.grid (lo x y) (hi x y) (ks ++ extra)).map outRat).toArray

def ops : OpTable := [("c10.spec", opSpec), ("c10.std", opStd), ("c10.weight", opWeight), ("c10.grid", opGrid)]

end SV.Driver.C10Spec
