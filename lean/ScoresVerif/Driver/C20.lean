/- driver ops for C20: the regenerated guards (model) -/
import ScoresVerif.Driver.Proto
import ScoresVerif.Gen.Guards

namespace SV.Driver.C20
open Lean SV SV.Proto

def getOpt (j : Json) : R (Option Fl) :=
  match j with
  | Json.null => pure none
  | _ => do pure (some (← getFl j))

/-- {"name": guard, "args": [number | null, …]} ↦ true (raises) / false; unknown guard or arity ⇒ failure -/
def opGuard : Op := fun j => do
  let name ← fStr j "name"
  let args ← getList getOpt (← field j "args")
  let strs ← match fieldOpt j "strs" with
    | some v => getList getStr v
    | none => pure []
  match SV.Gen.Guards.table.lookup name with
  | some f => match f args with
    | some b => pure (outBool b)
    | none => throw s!"arity mismatch for {name}"
  | none => match SV.Gen.Guards.tableS.lookup name with   -- guards with a string parameter
    | none => throw s!"no translated guard {name}"
    | some f => match f strs args with
      | some b => pure (outBool b)
      | none => throw s!"arity mismatch for {name}"

def opNames : Op := fun _ => pure (outStrList (SV.Gen.Guards.table.map (·.1) ++ SV.Gen.Guards.tableS.map (·.1)))
def opExceptions : Op := fun _ =>
  pure (outObj (SV.Gen.Guards.exceptions.map fun (n, e) => (n, outStr e)))

def ops : OpTable := [("c20.guard", opGuard), ("c20.names", opNames), ("c20.exceptions", opExceptions)]
end SV.Driver.C20
