/- driver ops for the C05 ORACLE: only the hand-written textbook Spec (no generated code), so it still builds and runs
   when the regenerated kernels do not -/
import ScoresVerif.Driver.Proto
import ScoresVerif.Spec.PointScores

namespace SV.Driver.C05Spec
open Lean SV SV.Proto
namespace S
export SV.Spec.PointScores (mse mae additiveBias multiplicativeBias pbias quantileScore angDiff qisWidth qisOver qisUnder
  qisTotal intervalTotal meanList rmax meanF meanO varF varO covFO mseP biasP)
end S

def getRCase (j : Json) : R (Rat × Rat × Rat) := do
  let a ← getArr j
  if a.size < 3 then throw "rcase needs [f,o,w]"
  pure (← getRat a[0]!, ← getRat a[1]!, ← getRat a[2]!)

def getR4 (j : Json) : R (Rat × Rat × Rat × Rat) := do
  let a ← getArr j
  if a.size < 4 then throw "needs [l,u,y,w]"
  pure (← getRat a[0]!, ← getRat a[1]!, ← getRat a[2]!, ← getRat a[3]!)

def getRPair (j : Json) : R (Rat × Rat) := do
  let a ← getArr j
  if a.size < 2 then throw "pair needs [f,o]"
  pure (← getRat a[0]!, ← getRat a[1]!)

/-! ### Spec ops (the oracle): valid cases only, exact rationals -/

def opSpecMean : Op := fun j => do
  let score ← fStr j "score"
  let cs ← getList getRCase (← field j "cases")
  let ang := (fieldOpt j "ang").map (fun b => b == Json.bool true) |>.getD false
  match score with
  | "mse" => pure <| outFl (S.mse ang cs)
  | "mae" => pure <| outFl (S.mae ang cs)
  | "additive_bias" => pure <| outFl (S.additiveBias cs)
  | "quantile" => do pure <| outFl (S.quantileScore (← fRat j "alpha") cs)
  | "multiplicative_bias" => pure <| outFl (S.multiplicativeBias cs)
  | "pbias" => pure <| outFl (S.pbias cs)
  | s => throw s!"unknown score {s}"

def opSpecInterval : Op := fun j => do
  let kind ← fStr j "kind"
  let component ← fStr j "component"
  -- the VALID cases of this component: every operand the component's formula mentions is present
  let fibres ← getList (getList getR4) (← field j "fibres")
  let comp := fun (k : Rat → Rat → Rat → Rat) =>
    outFlList (fibres.map fun cs => S.meanList (cs.map fun c => c.2.2.2 * k c.1 c.2.1 c.2.2.1))
  match kind, component with
  | "qis", "interval_width_penalty" => pure <| comp fun l u _ => S.qisWidth l u
  | "qis", "overprediction_penalty" => do let a ← fRat j "lower_level"; pure <| comp fun l _ y => S.qisOver l y a
  | "qis", "underprediction_penalty" => do let b ← fRat j "upper_level"; pure <| comp fun _ u y => S.qisUnder u y b
  | "qis", "total" => do
      let a ← fRat j "lower_level"; let b ← fRat j "upper_level"
      pure <| comp fun l u y => S.qisTotal l u y a b
  | "interval", "interval_width_penalty" => pure <| comp fun l u _ => S.qisWidth l u
  | "interval", "overprediction_penalty" => do
      let r ← fRat j "interval_range"; pure <| comp fun l _ y => 2 / (1 - r) * S.rmax 0 (l - y)
  | "interval", "underprediction_penalty" => do
      let r ← fRat j "interval_range"; pure <| comp fun _ u y => 2 / (1 - r) * S.rmax 0 (y - u)
  | "interval", "total" => do let r ← fRat j "interval_range"; pure <| comp fun l u y => S.intervalTotal l u y r
  | s, c => throw s!"unknown kind/component {s}/{c}"

def opSpecMoments : Op := fun j => do
  let ps ← getList getRPair (← field j "pairs")
  if ps.isEmpty then pure (outObj [("n", outNat 0)]) else
  pure <| outObj [("n", outNat ps.length), ("muF", outRat (S.meanF ps)), ("muO", outRat (S.meanO ps)),
                  ("varF", outRat (S.varF ps)), ("varO", outRat (S.varO ps)), ("cov", outRat (S.covFO ps)),
                  ("mse", outRat (S.mseP ps)), ("bias", outRat (S.biasP ps))]

def opSpecAngular : Op := fun j => do
  let ps ← getList getRPair (← field j "pairs")
  pure <| Json.arr (ps.map fun p => outRat (S.angDiff p.1 p.2)).toArray

def ops : OpTable := [("c05.spec.mean", opSpecMean), ("c05.spec.interval", opSpecInterval),
  ("c05.spec.moments", opSpecMoments), ("c05.spec.angular", opSpecAngular)]

end SV.Driver.C05Spec
