/- driver ops for C12 (FIRM, risk matrix score, weight matrices): translated kernels inside the hand model; Spec -/
import ScoresVerif.Driver.Proto
import ScoresVerif.Model.Firm
import ScoresVerif.Spec.Firm

namespace SV.Driver.C12
open Lean SV SV.Proto

def getPair (j : Json) : R (Fl × Fl) := do
  match ← getFlList j with
  | [a, b] => pure (a, b)
  | _ => throw "expected a pair"

def getFirmCase (j : Json) : R (Fl × Fl × List (Fl × Fl)) := do
  let f ← fFl j "f"; let o ← fFl j "o"
  let tw ← getList getPair (← field j "tw")
  pure (f, o, tw)

def out3 (a b c : Fl) : Json := Json.arr #[outFl a, outFl b, outFl c]

def opFirm : Op := fun j => do
  let alpha ← fFl j "alpha"; let d ← fFl j "d"; let mode ← fStr j "mode"
  let cases ← getList getFirmCase (← field j "cases")
  let per := cases.map fun c =>
    let r := Model.Firm.firmCaseAll c.1 c.2.1 alpha d mode c.2.2
    out3 r.firm r.over r.under
  let m := Model.Firm.firmMean alpha d mode cases
  pure <| outObj [("cases", Json.arr per.toArray), ("mean", out3 m.firm m.over m.under)]

def opFirmSpec : Op := fun j => do
  let alpha ← fRat j "alpha"; let d ← fFl j "d"; let mode ← fStr j "mode"
  let cases ← getList getFirmCase (← field j "cases")
  let rs := cases.map fun c => Spec.Firm.firmCase (mode == "lower") d alpha c.1 c.2.1 c.2.2
  let per := rs.map fun r => out3 r.1 r.2.1 r.2.2
  pure <| outObj [("cases", Json.arr per.toArray),
    ("mean", out3 (nanmean (rs.map (·.1))) (nanmean (rs.map (·.2.1))) (nanmean (rs.map (·.2.2))))]

def opFirmCheck : Op := fun j => do
  let nt ← fNat j "nt"; let nw ← fNat j "nw"
  let alpha ← fFl j "alpha"; let ws ← fFlList j "weights"; let d ← fFl j "d"; let mode ← fStr j "mode"
  pure <| outBool (Model.Firm.firmRaises nt nw alpha ws d mode)

/-- the documented domain of `firm`'s parameters (Spec): `true` = inside, must not raise -/
def opFirmDomain : Op := fun j => do
  let nt ← fNat j "nt"; let nw ← fNat j "nw"
  let alpha ← fFl j "alpha"; let ws ← fFlList j "weights"; let d ← fFl j "d"; let mode ← fStr j "mode"
  pure <| outBool (Spec.Firm.firmDomain nt nw alpha ws d mode)

def getRow (j : Json) : R (Fl × List Fl) := do
  let a ← getArr j
  match a.toList with
  | [p, ws] => pure (← getFl p, ← getFlList ws)
  | _ => throw "expected [p, weights]"

def opRm : Op := fun j => do
  let mode ← fStr j "mode"
  let W ← getList getRow (← field j "W")
  let cases ← getList (getList getPair) (← field j "cases")
  pure <| outObj [
    ("model", outFlList (cases.map fun fo => Model.Firm.rmCase mode fo W)),
    ("spec", outFlList (cases.map fun fo => Spec.Firm.rmCase (mode == "lower") fo W))]

def opRmCheck : Op := fun j => do
  pure <| outBool (Model.Firm.rmRaises (← fFlList j "fcst") (← fFlList j "obs") (← fFlList j "probs") (← fStr j "mode"))

def opRmDomain : Op := fun j => do
  pure <| outBool (Spec.Firm.rmDomain (← fFlList j "fcst") (← fFlList j "obs") (← fFlList j "probs") (← fStr j "mode"))

def opMw : Op := fun j => do
  let M ← fFlMat j "M"
  let sev ← fStrList j "sev"
  let probs ← getList getRat (← field j "probs")
  match Model.Firm.matrixWeightsToArray M sev probs with
  | none => pure (outErr "ValueError")
  | some wa =>
    -- the labelled content: for every supplied probability / severity label the weight stored under it
    let cells := probs.map fun p => Json.arr (sev.map fun s =>
      match wa.lookup p s with
      | some v => outFl v
      | none => Json.null).toArray
    pure <| outObj [("prob", Json.arr (wa.probCoords.map outRat).toArray), ("sev", outStrList wa.sevCoords),
      ("data", outFlMat wa.data), ("lookup", Json.arr cells.toArray)]

def opScaling : Op := fun j => do
  let S ← getList (getList getNat) (← field j "S")
  let w ← fFlList j "w"
  pure <| outFlMat (Model.Firm.scalingToWeightMatrix S w)

def opScalingCheck : Op := fun j => do
  let S ← getList (getList getInt) (← field j "S")
  let w ← fFlList j "w"
  pure <| outBool (Model.Firm.scalingRaises S w (← fNat j "nprob") (← fNat j "nsev") (← fFlList j "probs"))

/-- the labelled array of a WeightArray: coordinates, data, and for every supplied (probability, severity label) the weight
    stored under that pair of labels -/
def outWeightArray (wa : Model.Firm.WeightArray) (sev : List String) (probs : List Rat) : Json :=
  let cells := probs.map fun p => Json.arr (sev.map fun s =>
    match wa.lookup p s with
    | some v => outFl v
    | none => Json.null).toArray
  outObj [("prob", Json.arr (wa.probCoords.map outRat).toArray), ("sev", outStrList wa.sevCoords),
    ("data", outFlMat wa.data), ("lookup", Json.arr cells.toArray)]

/-- model of `weights_from_warning_scaling` (after the checks) WITH its labels -/
def opWfs : Op := fun j => do
  let S ← getList (getList getNat) (← field j "S")
  let w ← fFlList j "w"
  let sev ← fStrList j "sev"
  let probs ← getList getRat (← field j "probs")
  match Model.Firm.weightsFromWarningScaling S w sev probs with
  | none => pure (outErr "ValueError")
  | some wa => pure (outWeightArray wa sev probs)

def outRatMat (M : List (List Rat)) : Json := Json.arr (M.map fun r => Json.arr (r.map outRat).toArray).toArray

/-- Spec: the level-set (staircase-corner) weights, the two domains, and what the loop returns on the documented domain -/
def opScalingSpec : Op := fun j => do
  let S ← getList (getList getNat) (← field j "S")
  let w ← getList getRat (← field j "w")
  pure <| outObj [("domain", outBool (decide (Spec.Firm.scalingDomain S w.length))),
    ("doc_domain", outBool (decide (Spec.Firm.scalingDocDomain S w.length))),
    ("spec", outRatMat (Spec.Firm.scalingWeights S w)), ("cut", outRatMat (Spec.Firm.scalingWeightsCut S w)),
    ("corners", Json.arr ((List.range w.length).map fun l0 => outRatMat (Spec.Firm.cornerMatrix S (l0 + 1))).toArray)]

/-- the FIRM Spec on the extended reals (±inf forecasts / observations / thresholds): "cases" / "mean" = the stated product
    w·(1−α)·scale·1[false alarm] + w·α·scale·1[miss] in `Fl` arithmetic (0·inf = nan), "dec" = the decision form
    (if false alarm then … else 0), which differs only where the product is inf·0 -/
def opFirmX : Op := fun j => do
  let alpha ← fRat j "alpha"; let d ← fFl j "d"; let mode ← fStr j "mode"
  let cases ← getList getFirmCase (← field j "cases")
  let rs := cases.map fun c => Spec.Firm.firmCaseX true (mode == "lower") d alpha c.1 c.2.1 c.2.2
  let ds := cases.map fun c => Spec.Firm.firmCaseX false (mode == "lower") d alpha c.1 c.2.1 c.2.2
  pure <| outObj [("cases", Json.arr (rs.map fun r => out3 r.1 r.2.1 r.2.2).toArray),
    ("dec", Json.arr (ds.map fun r => out3 r.1 r.2.1 r.2.2).toArray),
    ("mean", out3 (nanmean (rs.map (·.1))) (nanmean (rs.map (·.2.1))) (nanmean (rs.map (·.2.2))))]

def ops : OpTable := [("c12.firm", opFirm), ("c12.firm_spec", opFirmSpec), ("c12.firm_x", opFirmX), ("c12.firm_check", opFirmCheck),
  ("c12.rm", opRm), ("c12.rm_check", opRmCheck), ("c12.mw", opMw), ("c12.scaling", opScaling),
  ("c12.scaling_check", opScalingCheck), ("c12.firm_domain", opFirmDomain), ("c12.rm_domain", opRmDomain),
  ("c12.wfs", opWfs), ("c12.scaling_spec", opScalingSpec)]

end SV.Driver.C12
