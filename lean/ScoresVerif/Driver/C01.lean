/- driver ops shared by C01–C04: gather_dimensions model / spec, labelled-array reductions -/
import ScoresVerif.Driver.Proto
import ScoresVerif.Model.Dims
import ScoresVerif.Model.Arr

namespace SV.Driver.C01
open Lean SV SV.Proto SV.Dims

def getSpec (j : Json) : R DimSpec :=
  match j with
  | Json.null => pure DimSpec.none
  | Json.str "all" => pure DimSpec.all
  | Json.str s => pure (DimSpec.str s)
  | Json.arr a => do pure (DimSpec.list (← a.toList.mapM getStr))
  | _ => throw "bad dim spec"

def fSpec (j : Json) (k : String) : R DimSpec :=
  match j.getObjVal? k with
  | .ok v => getSpec v
  | .error _ => pure DimSpec.none

def outOutcome : Except Err (List String) → Json
  | Except.ok l => outObj [("ok", outStrList l)]
  | Except.error Err.both => outErr "ValueError:both"
  | Except.error Err.absent => outErr "ValueError:absent"
  | Except.error Err.specific => outErr "ValueError:specific"

def getArr' (j : Json) : R Arr := do
  let dims ← fStrList j "dims"
  let shape ← fNatList j "shape"
  let data ← fFlList j "data"
  pure { dims := dims, shape := shape, data := data.toArray }

def outArr (a : Arr) : Json :=
  outObj [("dims", outStrList a.dims), ("shape", Json.arr (a.shape.map outNat).toArray), ("data", outFlList a.data.toList)]

def weightsDims (j : Json) : R (Option (List String)) :=
  match fieldOpt j "weights" with
  | some v => do pure (some (← getList getStr v))
  | none => pure none

/-- model of gather_dimensions and the spec rule, side by side -/
def opGather : Op := fun j => do
  let fcst ← fStrList j "fcst"; let obs ← fStrList j "obs"
  let w ← weightsDims j
  let r ← fSpec j "reduce"; let p ← fSpec j "preserve"; let s ← fSpec j "specific"
  pure <| outObj [("model", outOutcome (gather fcst obs w r p s)), ("spec", outOutcome (Spec.resolve fcst obs w r p s))]

/-- NaN-skipping mean over `R` of (pointwise × weights) -/
def opScoreEval : Op := fun j => do
  let p ← getArr' (← field j "p")
  let w ← match fieldOpt j "w" with
    | some v => do pure (some (← getArr' v))
    | none => pure none
  let R ← fStrList j "R"
  pure (outArr (scoreEval p w R))

def opNanmean : Op := fun j => do pure (outFl (nanmean (← fFlList j "xs")))
def opNansum : Op := fun j => do pure (outFl (nansum (← fFlList j "xs")))

def ops : OpTable := [("c01.gather", opGather), ("c01.scoreEval", opScoreEval), ("c01.nanmean", opNanmean),
  ("c01.nansum", opNansum)]

end SV.Driver.C01
