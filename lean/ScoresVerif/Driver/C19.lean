/- driver ops for C19 (Diebold–Mariano: HLN rational core, CI algebra, direct autocovariances, FFT length) -/
import ScoresVerif.Driver.Proto
import ScoresVerif.Model.DieboldMariano
import ScoresVerif.Spec.DieboldMariano

namespace SV.Driver.C19
open Lean SV SV.Proto SV.Model.DM

def outRatList (xs : List Rat) : Json := Json.arr (xs.map outRat).toArray

/-- one series through the HLN model: NaNs removed, mean, length, V̂, correction, statistic² and sign -/
def opHln : Op := fun j => do
  let xs ← fFlList j "series"; let h ← fNat j "h"
  let d := clean xs
  pure <| outObj [("mean", outRat (mean d)), ("len", outNat (tsLen xs)), ("vhat", outFl (vHat d h)),
    ("corr", outRat (correction d.length h)), ("all_zero", outBool (allZero d)),
    ("stat_sq", outFl (statSq d h)), ("sign", outInt (statSign d)), ("vhat_rat", outRat (vHatRat d h)),
    ("gamma0", outRat (gammaHatK d (mean d) 0))]

/-- the published estimators (Spec) on the cleaned series: mean, V̂, factor, autocovariances at every lag -/
def opSpec : Op := fun j => do
  let xs ← fFlList j "series"; let h ← fNat j "h"
  let d := clean xs
  pure <| outObj [("mean", outRat (SV.Spec.DM.mean d)), ("vhat", outRat (SV.Spec.DM.vHat d h)),
    ("factor", outRat (SV.Spec.DM.hlnFactor d.length h)), ("len", outNat d.length),
    ("acov", outRatList ((List.range d.length).map (SV.Spec.DM.gammaHat d)))]

def opCi : Op := fun j => do
  let m ← fFl j "mean"; let s ← fFl j "stat"; let q ← fFl j "q"
  pure <| outObj [("upper", outFl (ciUpper m s q)), ("lower", outFl (ciLower m s q))]

def opAcovf : Op := fun j => do
  let xs ← fFlList j "series"
  pure (outRatList (acovfAll (clean xs)))

/-- `_next_regular` for every target in [lo, hi] -/
def opNextRegular : Op := fun j => do
  let lo ← fNat j "lo"; let hi ← fNat j "hi"
  pure (Json.arr (((List.range (hi + 1 - lo)).map fun i => outNat (nextRegular (lo + i))).toArray))

/-- the HG statistic GIVEN the fitted parameters (Spec): σ (exact), ρ = exp(−3/θ) (computed by the harness, exact as passed),
    optional `lags` (default: the length of the cleaned series = all lags) -/
def opHg : Op := fun j => do
  let xs ← fFlList j "series"; let sg ← fRat j "sigma"; let rho ← fRat j "rho"
  let d := clean xs
  pure <| outObj [("mean", outRat (SV.Spec.DM.mean d)), ("len", outNat d.length),
    ("density", outRat (SV.Spec.DM.hgDensity (sg * sg) rho d.length)),
    ("stat_sq", outRat (SV.Spec.DM.hgStatSq d (sg * sg) rho))]

def ops : OpTable := [("c19.hln", opHln), ("c19.spec", opSpec), ("c19.ci", opCi), ("c19.acovf", opAcovf), ("c19.next_regular", opNextRegular),
  ("c19.hg", opHg)]

end SV.Driver.C19
