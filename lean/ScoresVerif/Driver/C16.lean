/- driver ops for C16 (FSS: hand model of the summed-area-table pipeline + regenerated scalar tails; direct-count spec) -/
import ScoresVerif.Driver.Proto
import ScoresVerif.Model.Fss
import ScoresVerif.Spec.Fss

namespace SV.Driver.C16
open Lean SV SV.Proto
open SV.Model.Fss

def opOf (s : String) : R ThrOp :=
  match s with
  | "gt" => pure ThrOp.gt | "ge" => pure ThrOp.ge | "lt" => pure ThrOp.lt | "le" => pure ThrOp.le
  | "left_identity" => pure ThrOp.leftId
  | _ => throw s!"unknown operator {s}"

def cmpOf (s : String) : R SV.Spec.Fss.Cmp :=
  match s with
  | "gt" => pure .gt | "ge" => pure .ge | "lt" => pure .lt | "le" => pure .le
  | _ => throw s!"unknown comparison {s}"

def getPair (j : Json) : R (List (List Fl) × List (List Fl)) := do
  let a ← getArr j
  match a.toList with
  | [f, o] => pure (← getFlMat f, ← getFlMat o)
  | _ => throw "expected [fcst, obs]"

def outIntList (xs : List Int) : Json := Json.arr (xs.map outInt).toArray
def outTriple (c : Fl × Fl × Fl) : Json := outFlList [c.1, c.2.1, c.2.2]

/-- the model: per-field components and scores, the aggregate over all fields given, optionally the two images of the
    first field.  args: fields [[fcst, obs], …], H, W, h, w, pad, op, thr, scalar (aggregation of a single np.void) -/
def opModel : Op := fun j => do
  let fields ← getList getPair (← field j "fields")
  let H ← fNat j "H"; let W ← fNat j "W"; let h ← fNat j "h"; let w ← fNat j "w"
  let pad ← fBool j "pad"; let op ← opOf (← fStr j "op"); let thr ← fFl j "thr"
  let scalar := match fieldOpt j "scalar" with | some (Json.bool b) => b | _ => false
  let wantImg := match fieldOpt j "img" with | some (Json.bool b) => b | _ => false
  if !validWindow H W h w then pure (outErr "ValueError") else
  let cs := fields.map fun p => decomposed op thr pad p.1 p.2 H W h w
  let agg := match scalar, cs with
    | true, [c] => aggregateScalar c
    | _, _ => aggregateArr cs
  let base := [("comps", Json.arr (cs.map outTriple).toArray), ("single", outFlList (cs.map scoreOf)), ("agg", outFl agg)]
  let imgs := match wantImg, fields with
    | true, p :: _ => [("img_f", outIntList (imageOf pad (pop op thr p.1 H W) H W h w)),
                       ("img_o", outIntList (imageOf pad (pop op thr p.2 H W) H W h w))]
    | _, _ => []
  pure (outObj (base ++ imgs))

/-- the spec (direct window counting).  ext = "none" | "sym" (⌊h/2⌋ on each side: the property) |
    "code" (⌊h/2⌋ before, h − ⌊h/2⌋ after: what the pinned code does, finding F5) -/
def opSpec : Op := fun j => do
  let fields ← getList getPair (← field j "fields")
  let H ← fNat j "H"; let W ← fNat j "W"; let h ← fNat j "h"; let w ← fNat j "w"
  let c ← cmpOf (← fStr j "op"); let thr ← fFl j "thr"
  let ext ← fStr j "ext"
  let (pt, pb, pl, pr) ← match ext with
    | "none" => pure (0, 0, 0, 0)
    | "sym" => pure (h / 2, h / 2, w / 2, w / 2)
    | "code" => pure (h / 2, h - h / 2, w / 2, w - w / 2)
    | _ => throw s!"unknown extension {ext}"
  let tabs := fields.map fun p =>
    (SV.Model.Fss.get (mkTab (fun i j => SV.Spec.Fss.isEvent c (getFl p.1 i j) thr) H W),
     SV.Model.Fss.get (mkTab (fun i j => SV.Spec.Fss.isEvent c (getFl p.2 i j) thr) H W))
  let ss := tabs.map fun p => SV.Spec.Fss.fieldSums p.1 p.2 H W pt pb pl pr h w
  pure <| outObj [("sums", Json.arr (ss.map fun s => outIntList [s.1, s.2.1, s.2.2]).toArray),
                  ("single", Json.arr (ss.map fun s => outRat (SV.Spec.Fss.score s)).toArray),
                  ("agg", outRat (SV.Spec.Fss.fssAgg tabs H W pt pb pl pr h w)),
                  ("npos", outNat ((pt + H + pb + 1 - h) * (pl + W + pr + 1 - w)))]

def ops : OpTable := [("c16.model", opModel), ("c16.spec", opSpec)]

end SV.Driver.C16
