/- driver ops for C18 (flip-flop index: hand model + regenerated pointwise pieces; exact-rational spec) -/
import ScoresVerif.Driver.Proto
import ScoresVerif.Model.FlipFlop
import ScoresVerif.Spec.FlipFlop
import ScoresVerif.Spec.FlipFlopC18Inf

namespace SV.Driver.C18
open Lean SV SV.Proto

def getRatList (j : Json) (k : String) : R (List Rat) := do getList getRat (← field j k)
def getIntList (j : Json) (k : String) : R (List Int) := do getList getInt (← field j k)

def outOptFl (o : Option Fl) : Json := match o with | some v => outFl v | none => outErr "KeyError"

/-- model: ffi of a sequence (optionally a selection by coordinate values) -/
def opFfi : Op := fun j => do
  let xs ← fFlList j "xs"; let ang ← fBool j "angular"
  match fieldOpt j "sel" with
  | none => pure (outFl (SV.Model.FlipFlop.ffi ang xs))
  | some _ =>
    let coords ← getIntList j "coords"; let sel ← getIntList j "sel"
    pure (outOptFl (SV.Model.FlipFlop.ffiSelection ang coords xs sel))

def opSector : Op := fun j => do
  let xs ← fFlList j "xs"; let sk ← fBool j "skipna"
  pure (outFl (SV.Model.FlipFlop.sectorNp sk xs))

def opProp : Op := fun j => do
  let vs ← fFlList j "ffis"; let ts ← fFlList j "thresholds"
  pure (outFlList (ts.map (SV.Model.FlipFlop.proportionExceeding vs)))

/-- spec on finite sequences: linear / directional index, both sector definitions -/
def opSpec : Op := fun j => do
  let xs ← getRatList j "xs"
  pure <| outObj [("ffi", outRat (SV.Spec.FlipFlop.ffi xs)), ("ffi_ang", outRat (SV.Spec.FlipFlop.ffiAng xs)),
                  ("sector", outRat (SV.Spec.FlipFlop.sector xs)), ("sector_gap", outRat (SV.Spec.FlipFlop.sectorGap xs)),
                  ("tv", outRat (SV.Spec.FlipFlop.tv xs)), ("tv_ang", outRat (SV.Spec.FlipFlop.tvAng xs))]

/-- spec: proportion of valid indices ≥ t; entries are rationals or "nan".  A threshold is a rational (`Spec.proportion`)
    or one of the open-ended bounds "-inf" / "inf" (`Spec.proportionExt`); a NaN threshold compares with nothing. -/
def opSpecProp : Op := fun j => do
  let vs ← fFlList j "ffis"; let ts ← fFlList j "thresholds"
  let ov := vs.map fun v => match v with | Fl.fin q => some q | _ => none
  let outO : Option Rat → Json := fun o => match o with | some q => outRat q | none => Json.str "nan"
  pure <| Json.arr ((ts.map fun t => match t with
    | Fl.fin q => outO (SV.Spec.FlipFlop.proportion ov q)
    | Fl.ninf => outO (SV.Spec.FlipFlop.proportionExt ov SV.Spec.FlipFlop.Thr.ninf)
    | Fl.pinf => outO (SV.Spec.FlipFlop.proportionExt ov SV.Spec.FlipFlop.Thr.pinf)
    | Fl.nan => Json.str "nan").toArray)

def ops : OpTable := [("c18.ffi", opFfi), ("c18.sector", opSector), ("c18.prop", opProp), ("c18.spec", opSpec),
                      ("c18.specprop", opSpecProp)]

end SV.Driver.C18
