/- driver ops for C05 (point / interval scores): regenerated kernels + hand reduction model, and the textbook Spec -/
import ScoresVerif.Driver.Proto
import ScoresVerif.Gen.Point
import ScoresVerif.Model.PointScores

namespace SV.Driver.C05
open Lean SV SV.Proto
open SV.Model.PointScores
namespace G
export SV.Gen.Point (angular_difference apply_weights mse_kernel mae_kernel additive_bias_kernel rmse_of_mse
  multiplicative_bias_ratio pbias_ratio pbias_error kge_alpha kge_beta kge_value quantile_kernel quantile_score_guard
  qis_interval_width_penalty qis_overprediction_penalty qis_underprediction_penalty qis_total qis_level_guard
  qis_order_guard interval_score_guard interval_interval_width_penalty interval_overprediction_penalty
  interval_underprediction_penalty interval_total interval_lower_level interval_upper_level)
end G

def getOptFl (j : Json) : R (Option Fl) :=
  match j with
  | Json.null => pure none
  | _ => do pure (some (← getFl j))

def getCase (j : Json) : R Case := do
  let a ← getArr j
  if a.size < 3 then throw "case needs [f,o,w]"
  pure { f := ← getFl a[0]!, o := ← getFl a[1]!, w := ← getOptFl a[2]! }

def getICase (j : Json) : R ICase := do
  let a ← getArr j
  if a.size < 4 then throw "icase needs [l,u,y,w]"
  pure { l := ← getFl a[0]!, u := ← getFl a[1]!, y := ← getFl a[2]!, w := ← getOptFl a[3]! }

def getPair (j : Json) : R (Fl × Fl) := do
  let a ← getArr j
  if a.size < 2 then throw "pair needs [f,o]"
  pure (← getFl a[0]!, ← getFl a[1]!)

/-- model of the mean-type scores: regenerated kernel, hand reduction.  `alpha` out of domain ⇒ ValueError -/
def opMean : Op := fun j => do
  let score ← fStr j "score"
  let cs ← getList getCase (← field j "cases")
  let ang := (fieldOpt j "ang").map (fun b => b == Json.bool true) |>.getD false
  match score with
  | "mse" => pure <| outFl (meanScore (G.mse_kernel ang) cs)
  | "mae" => pure <| outFl (meanScore (G.mae_kernel ang) cs)
  | "additive_bias" => pure <| outFl (meanScore G.additive_bias_kernel cs)
  | "quantile" => do
      let a ← fFl j "alpha"
      if G.quantile_score_guard a then pure (outErr "ValueError")
      else pure <| outFl (meanScore (G.quantile_kernel a) cs)
  | "multiplicative_bias" => pure <| outFl (multiplicativeBias G.multiplicative_bias_ratio cs)
  | "pbias" => pure <| outFl (pbias G.pbias_error G.pbias_ratio cs)
  | s => throw s!"unknown score {s}"

/-- quantile_interval_score / interval_score: guards first (on the whole input), then the four means -/
def opInterval : Op := fun j => do
  let kind ← fStr j "kind"
  let all ← getList getICase (← field j "all")       -- every element of the input (for the `.any()` guard)
  let fibres ← getList (getList getICase) (← field j "fibres")
  let comp := fun (k : Fl → Fl → Fl → Fl) => outFlList (fibres.map (meanIScore k))
  match kind with
  | "qis" => do
      let a ← fFl j "lower_level"; let b ← fFl j "upper_level"
      if G.qis_level_guard a b then pure (outErr "ValueError")
      else if anyGuard G.qis_order_guard all then pure (outErr "ValueError")
      else pure <| outObj [
        ("interval_width_penalty", comp fun l u y => G.qis_interval_width_penalty l u y a b),
        ("overprediction_penalty", comp fun l u y => G.qis_overprediction_penalty l u y a b),
        ("underprediction_penalty", comp fun l u y => G.qis_underprediction_penalty l u y a b),
        ("total", comp fun l u y => G.qis_total l u y a b)]
  | "interval" => do
      let r ← fFl j "interval_range"
      if G.interval_score_guard r then pure (outErr "ValueError")
      else if G.qis_level_guard (G.interval_lower_level r) (G.interval_upper_level r) then pure (outErr "ValueError")
      else if anyGuard G.qis_order_guard all then pure (outErr "ValueError")
      else pure <| outObj [
        ("interval_width_penalty", comp fun l u y => G.interval_interval_width_penalty l u y r),
        ("overprediction_penalty", comp fun l u y => G.interval_overprediction_penalty l u y r),
        ("underprediction_penalty", comp fun l u y => G.interval_underprediction_penalty l u y r),
        ("total", comp fun l u y => G.interval_total l u y r)]
  | s => throw s!"unknown kind {s}"

def opMoments : Op := fun j => do
  let ps ← getList getPair (← field j "pairs")
  let m := moments ps
  pure <| outObj [("n", outNat m.n), ("muF", outFl m.muF), ("muO", outFl m.muO), ("varF", outFl m.varF),
                  ("varO", outFl m.varO), ("cov", outFl m.cov)]

/-- the translated KGE tail with `sqrt` left uninterpreted (identity): `value` is `1 − radicand` -/
def opKgeTail : Op := fun j => do
  let rho ← fFl j "rho"; let sf ← fFl j "sigma_fcst"; let so ← fFl j "sigma_obs"
  let mf ← fFl j "mu_fcst"; let mo ← fFl j "mu_obs"
  let s1 ← fFl j "s_rho"; let s2 ← fFl j "s_alpha"; let s3 ← fFl j "s_beta"
  pure <| outObj [("value_sqrt_id", outFl (G.kge_value id rho sf so mf mo s1 s2 s3)),
                  ("alpha", outFl (G.kge_alpha id rho sf so mf mo s1 s2 s3)),
                  ("beta", outFl (G.kge_beta id rho sf so mf mo s1 s2 s3))]

def opAngular : Op := fun j => do
  let ps ← getList getPair (← field j "pairs")
  pure <| outFlList (ps.map fun p => G.angular_difference p.1 p.2)

def ops : OpTable := [("c05.mean", opMean), ("c05.interval", opInterval), ("c05.moments", opMoments),
  ("c05.kge_tail", opKgeTail), ("c05.angular", opAngular)]

end SV.Driver.C05
