/- driver ops for C06 (ensemble CRPS: hand model of crps_impl.py / brier per-case formula, integral spec) -/
import ScoresVerif.Driver.Proto
import ScoresVerif.Model.CrpsEns
import ScoresVerif.Spec.CrpsEns

namespace SV.Driver.C06
open Lean SV SV.Proto
open SV.Model.CrpsEns

def getMethod (j : Json) : R Method := do
  match ← fStr j "method" with
  | "ecdf" => pure Method.ecdf
  | "fair" => pure Method.fair
  | s => throw s!"bad method {s}"

def outComp (c : Components) : Json :=
  outObj [("total", outFl c.total), ("under", outFl c.under), ("over", outFl c.over), ("spread", outFl c.spread)]

/-- one case: members `xs`, obs `y`, optional per-case thresholds `t` (tails) / `a`,`b` (interval) -/
def caseComp (kind : String) (m : Method) (c : Json) : R Components := do
  let xs ← fFlList c "xs"; let y ← fFl c "y"
  match kind with
  | "plain" => pure (components m xs y)
  | "upper" => do let t ← fFl c "t"; pure (tailUpper t m xs y)
  | "lower" => do let t ← fFl c "t"; pure (tailLower t m xs y)
  | "interval" => do let a ← fFl c "a"; let b ← fFl c "b"; pure (interval a b m xs y)
  | s => throw s!"bad kind {s}"

/-- a whole call: list of cases, optional per-case weights; returns the per-case (weighted) components and
    their mean over the cases; `{"err": "ValueError"}` when the interval guard raises -/
def opRun : Op := fun j => do
  let kind ← fStr j "kind"
  let m ← getMethod j
  let cases ← getArr (← field j "cases")
  let w ← match fieldOpt j "weights" with
    | none => pure none
    | some wj => do pure (some (← getFlList wj))
  if kind == "interval" then
    let bounds ← cases.toList.mapM fun c => do pure ((← fFl c "a"), (← fFl c "b"))
    if intervalGuardRaises bounds then return outErr "ValueError"
  let comps ← cases.toList.mapM (caseComp kind m)
  let col := fun (f : Components → Fl) => applyWeights (comps.map f) w
  let S := fun (n : String) (f : Components → Fl) =>
    (n, outObj [("cases", outFlList (col f)), ("mean", outFl (nanmean (col f)))])
  pure <| outObj [S "total" (·.total), S "under" (·.under), S "over" (·.over), S "spread" (·.spread)]

/-- the property's own mathematics: exact integrals -/
def opSpec : Op := fun j => do
  let xs ← fFlList j "xs"; let y ← fFl j "y"
  let fx := Spec.CrpsEns.finVals xs
  let base := [("ecdf", outFl (Spec.CrpsEns.crpsEcdfFl xs y)), ("fair", outFl (Spec.CrpsEns.crpsFairFl xs y))]
  match y with
  | Fl.fin q =>
    if fx.isEmpty then pure (outObj base) else
    let a? ← match fieldOpt j "a" with | none => pure none | some v => do pure (some (← getRat v))
    let b? ← match fieldOpt j "b" with | none => pure none | some v => do pure (some (← getRat v))
    pure <| outObj (base ++ [
      ("tw", outRat (Spec.CrpsEns.twIntegral a? b? fx q)),
      ("brier_int", outRat (Spec.CrpsEns.brierIntegral false fx q)),
      ("brier_int_fair", outRat (Spec.CrpsEns.brierIntegral true fx q)),
      ("grid", Json.arr ((Spec.CrpsEns.grid (q :: fx)).map outRat).toArray)])
  | _ => pure (outObj base)

def opBrier : Op := fun j => do
  let xs ← fFlList j "xs"; let y ← fFl j "y"; let θ ← fFl j "theta"; let fair ← fBool j "fair"
  pure (outFl (brierEns fair xs y θ))

/-- Brier score of one case at a list of thresholds: the documented formula (Spec) and the model of the code -/
def opBrierAt : Op := fun j => do
  let xs ← fFlList j "xs"; let y ← fFl j "y"; let ts ← getList getRat (← field j "thetas"); let fair ← fBool j "fair"
  let fx := Spec.CrpsEns.finVals xs
  let spec : List Fl := match y with
    | Fl.fin q => if fx.isEmpty then ts.map fun _ => Fl.nan else
        ts.map fun θ => Fl.fin (Spec.CrpsEns.brier fx q θ - (if fair then Spec.CrpsEns.brierFairCorr fx θ else 0))
    | _ => ts.map fun _ => Fl.nan
  pure <| outObj [("spec", outFlList spec), ("model", outFlList (ts.map fun θ => brierEns fair xs y (Fl.fin θ)))]

def ops : OpTable := [("c06.run", opRun), ("c06.spec", opSpec), ("c06.brier", opBrier), ("c06.brier_at", opBrierAt)]

end SV.Driver.C06
