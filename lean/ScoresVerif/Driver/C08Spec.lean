/- driver ops for the C08 oracle: ONLY the hand-written Spec (no translated code), so the oracle stays
   available when a change of the source breaks the translated model -/
import ScoresVerif.Driver.Proto
import ScoresVerif.Spec.Discretise

namespace SV.Driver.C08Spec
open Lean SV SV.Proto

def getOp (j : Json) (k : String) : R PyOp := do
  match PyOp.ofName? (← fStr j k) with
  | some o => pure o
  | none => throw "unknown operator"

def zipPairs (f o : List Fl) : R (List (Fl × Fl)) :=
  if f.length = o.length then pure (f.zip o) else throw "fcst / obs length differ"

/-- the property's definition of the discretised value; null = outside its domain -/
def opSpec : Op := fun j => do
  let data ← fFlList j "data"; let cs ← fFlList j "comparison"
  let t ← fRat j "tol"
  match Spec.Discretise.Rel.ofName? (← fStr j "rel") with
  | none => throw "unknown relation"
  | some r =>
    pure <| Json.arr (data.map fun x => Json.arr (cs.map fun c =>
      match Spec.Discretise.disc r x c t with
      | some v => outFl v
      | none => Json.null).toArray).toArray

/-- the same on the extended reals (`Spec.discX`): infinite data / thresholds are valid, comparable values;
    null only for `==` / `!=` between equal infinities -/
def opSpecX : Op := fun j => do
  let data ← fFlList j "data"; let cs ← fFlList j "comparison"
  let t ← fRat j "tol"
  match Spec.Discretise.Rel.ofName? (← fStr j "rel") with
  | none => throw "unknown relation"
  | some r =>
    pure <| Json.arr (data.map fun x => Json.arr (cs.map fun c =>
      match Spec.Discretise.discX r x c t with
      | some v => outFl v
      | none => Json.null).toArray).toArray

def outCounts (c : Spec.Discretise.Counts) : List (String × Json) :=
  [("tp", outNat c.tp), ("tn", outNat c.tn), ("fp", outNat c.fp), ("fn", outNat c.fn), ("total", outNat c.total)]

/-- direct counting with `op x thr` for the SUPPLIED threshold -/
def opCountSpec : Op := fun j => do
  let ps ← zipPairs (← fFlList j "fcst") (← fFlList j "obs")
  let thr ← fFl j "thr"; let op ← getOp j "op"
  pure <| outObj (outCounts (Spec.Discretise.countSpec op thr ps) ++
    [("fcst_events", outFlList (ps.map fun p => Spec.Discretise.event op thr p.1)),
     ("obs_events", outFlList (ps.map fun p => Spec.Discretise.event op thr p.2))])

def opCountEvents : Op := fun j => do
  let es ← zipPairs (← fFlList j "fcst") (← fFlList j "obs")
  pure <| outObj (outCounts (Spec.Discretise.countEvents es))

def ops : OpTable := [("c08.spec", opSpec), ("c08.specx", opSpecX), ("c08.countspec", opCountSpec), ("c08.countevents", opCountEvents)]

end SV.Driver.C08Spec
