/- driver ops for C17 (CDF repair tools, adjust_fcst_for_crps): executable model and spec -/
import ScoresVerif.Driver.Proto
import ScoresVerif.Model.Cdf
import ScoresVerif.Model.CrpsCdf
import ScoresVerif.Spec.Cdf

namespace SV.Driver.C17
open Lean SV SV.Proto

def fRatList (j : Json) (k : String) : R (List Rat) := do getList getRat (← field j k)
def fFlListOpt (j : Json) (k : String) : R (Option (List Fl)) :=
  match fieldOpt j k with
  | none => pure none
  | some v => do pure (some (← getFlList v))

/-- an `Except String` model result: errors become `{"err": kind}` -/
def outE (r : SV.Model.Cdf.E α) (f : α → Json) : Json :=
  match r with
  | .ok v => f v
  | .error e => outErr e

def outRatList (xs : List Rat) : Json := Json.arr (xs.map outRat).toArray
def outBoolList (xs : List Bool) : Json := Json.arr (xs.map outBool).toArray

def opRound : Op := fun j => do
  let xs ← fFlList j "xs"; let p ← fRat j "prec"; let d ← fNat j "decpl"
  pure <| outE (SV.Model.Cdf.roundValues xs p d) outFlList

def opRoundSpec : Op := fun j => do
  let q ← fRat j "q"; let p ← fRat j "prec"; let r ← fRat j "r"
  -- is r = n * p with n the nearest integer multiple (ties to even)?
  let n := (r / p).floor
  pure <| outBool (decide ((n : Rat) * p = r) && SV.Spec.Cdf.isNearestMultiple q p n)

def opPropagate : Op := fun j => do
  let rows ← fFlMat j "rows"
  pure <| outFlMat (rows.map SV.Model.Cdf.propagateNan)

def opObserved : Op := fun j => do
  let obs ← fFlList j "obs"; let tv ← fFlListOpt j "tv"; let inc ← fBool j "include"; let p ← fRat j "prec"
  pure <| outE (SV.Model.Cdf.observedCdf obs tv inc p) fun (g, rows) =>
    outObj [("grid", outRatList g), ("rows", outFlMat rows)]

def opIntegrate : Op := fun j => do
  let thr ← fRatList j "thr"; let rows ← fFlMat j "rows"
  match fieldOpt j "pw" with
  | none => pure <| outFlList (rows.map (SV.Model.Cdf.integrateSq thr))
  | some p => do
    let pw ← getFlMat p
    pure <| outFlList (List.zipWith (SV.Model.Cdf.integrateSqW thr) rows pw)

def opFill : Op := fun j => do
  let thr ← fRatList j "thr"; let rows ← fFlMat j "rows"; let m ← fStr j "method"; let k ← fInt j "min_nonnan"
  pure <| outE (SV.Model.Cdf.fillCdf thr rows m k) outFlMat

def opAdd : Op := fun j => do
  let thr ← fRatList j "thr"; let rows ← fFlMat j "rows"; let new ← fFlList j "new"
  let m ← fStr j "method"; let k ← fInt j "min_nonnan"
  pure <| outE (SV.Model.Cdf.addThresholds thr rows new m k) fun (g, rows) =>
    outObj [("grid", outRatList g), ("rows", outFlMat rows)]

def opDecreasing : Op := fun j => do
  let thr ← fRatList j "thr"; let rows ← fFlMat j "rows"; let tol ← fRat j "tol"
  pure <| outE (SV.Model.Cdf.decreasingCdfs thr rows tol) outBoolList

def opEnvelope : Op := fun j => do
  let thr ← fRatList j "thr"; let rows ← fFlMat j "rows"
  let (g, env) := SV.Model.Cdf.cdfEnvelope thr rows
  pure <| outObj [("grid", outRatList g), ("original", outFlMat (env.map (·.1))),
                  ("upper", outFlMat (env.map (·.2.1))), ("lower", outFlMat (env.map (·.2.2)))]

def opAdjust : Op := fun j => do
  let thr ← fRatList j "thr"; let rows ← fFlMat j "rows"; let obs ← fFlList j "obs"; let tol ← fRat j "tol"
  let add ← fFlList j "additional"; let fillF ← fStr j "fill"; let integ ← fStr j "integ"
  -- detail for the harness' tie handling: candidates and their CRPS per row (recomputed from the same model pieces)
  let prop := rows.map SV.Model.Cdf.propagateNan
  let (_, env) := SV.Model.Cdf.cdfEnvelope thr prop
  let cfg : SV.Model.CrpsCdf.Cfg := { propagate := true, fillF := fillF, fillW := "forward", integ := integ }
  let tot := fun (sel : List Fl × List Fl × List Fl → List Fl) =>
    match SV.Model.CrpsCdf.crpsCdf thr (env.map sel) obs none add cfg with
    | .ok ps => ps.map SV.Model.CrpsCdf.Parts.total
    | .error _ => env.map (fun _ => Fl.nan)
  let t0 := tot (·.1); let t1 := tot (·.2.1); let t2 := tot (·.2.2)
  let crps := (List.range env.length).map fun i => outFlList [t0.getD i Fl.nan, t1.getD i Fl.nan, t2.getD i Fl.nan]
  pure <| outE (SV.Model.CrpsCdf.adjustFcst thr rows obs tol add fillF integ) fun r =>
    outObj [("rows", outFlMat r), ("crps", Json.arr crps.toArray),
            ("cands", Json.arr (env.map fun e => outFlMat [e.1, e.2.1, e.2.2]).toArray)]

/-- Spec side: envelopes by position-wise prefix max / suffix min, fill by the knot functions,
    decreasing by the total decrease -/
def opSpec : Op := fun j => do
  let thr ← fRatList j "thr"; let rows ← fFlMat j "rows"; let tol ← fRat j "tol"
  let new ← fRatList j "new"; let k ← fInt j "min_nonnan"
  let sorted := (thr.zip (List.range thr.length)).mergeSort (fun a b => decide (a.1 ≤ b.1))
  let srows := rows.map fun r => sorted.map fun p => r.getD p.2 Fl.nan
  let fills := ["linear", "step", "forward", "backward"].map fun m =>
    (m, outFlMat (rows.map fun r => SV.Spec.Cdf.addRow thr r new m k))
  pure <| outObj ([("upper", outFlMat (srows.map SV.Spec.Cdf.upper)), ("lower", outFlMat (srows.map SV.Spec.Cdf.lower)),
                  ("mono_upper", outBoolList (srows.map fun r => SV.Spec.Cdf.monoQ (SV.Spec.Cdf.fins (SV.Spec.Cdf.upper r)))),
                  ("mono_lower", outBoolList (srows.map fun r => SV.Spec.Cdf.monoQ (SV.Spec.Cdf.fins (SV.Spec.Cdf.lower r)))),
                  ("decreasing", outBoolList (rows.map fun r => SV.Spec.Cdf.decreasing r tol)),
                  ("grid", outRatList (SV.Spec.Cdf.union thr new))] ++ fills)

def ops : OpTable := [("c17.round", opRound), ("c17.roundspec", opRoundSpec), ("c17.propagate", opPropagate),
  ("c17.observed", opObserved), ("c17.integrate", opIntegrate), ("c17.fill", opFill), ("c17.add", opAdd),
  ("c17.decreasing", opDecreasing), ("c17.envelope", opEnvelope), ("c17.adjust", opAdjust), ("c17.spec", opSpec)]

end SV.Driver.C17
