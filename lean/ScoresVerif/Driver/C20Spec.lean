/- driver ops for the C20 ORACLE: the documented domains only (no generated code) -/
import ScoresVerif.Driver.Proto
import ScoresVerif.Spec.Guards

namespace SV.Driver.C20Spec
open Lean SV SV.Proto

def getOpt (j : Json) : R (Option Fl) :=
  match j with
  | Json.null => pure none
  | _ => do pure (some (← getFl j))

/-- {"name", "args" [, "strs"]} ↦ true iff the parameters lie inside the documented domain -/
def opDomain : Op := fun j => do
  let name ← fStr j "name"
  let args ← getList getOpt (← field j "args")
  let strs ← match fieldOpt j "strs" with
    | some v => getList getStr v
    | none => pure []
  match SV.Spec.Guards.domains.lookup name with
  | some f => match f args with
    | some b => pure (outBool b)
    | none => throw s!"arguments outside the oracle's scope for {name}"
  | none => match SV.Spec.Guards.domainsS.lookup name with   -- domains with an enumerated (string) parameter
    | none => throw s!"no documented domain {name}"
    | some f => match f strs args with
      | some b => pure (outBool b)
      | none => throw s!"arguments outside the oracle's scope for {name}"

def ops : OpTable := [("c20.domain", opDomain)]
end SV.Driver.C20Spec
