/- driver op running the REGENERATED HLN core (Gen/DieboldMariano.lean) — apart from Driver/C19.lean so that the hand-model driver
   does not depend on a regenerated module -/
import ScoresVerif.Driver.Proto
import ScoresVerif.Gen.DieboldMariano

namespace SV.Driver.C19Gen
open Lean SV SV.Proto

/-- series (finite values), h: γ̂_k for k = 0..h-1 (as the source computes them), V̂, and the ingredients of the HLN statistic -/
def opGenHln : Op := fun j => do
  let xs ← fFlList j "series"
  let h ← fNat j "h"
  let d := xs.filterMap fun | Fl.fin a => some a | _ => none
  let dbar := d.sum / ((d.length : Nat) : Rat)
  let gam := (List.range h).map fun k => SV.Gen.DM.gen_gamma_hat_k d dbar d.length k
  -- `sqrtF` is uninterpreted: instantiate it with the identity and with a marker to read both arguments of the two roots
  let stat_id := SV.Gen.DM.gen_hln_stat (fun x => x) d h
  pure <| outObj [("gamma", Json.arr (gam.map outRat).toArray), ("v_hat", outFl (SV.Gen.DM.gen_v_hat d dbar d.length h)),
                  ("stat_with_identity_sqrt", outFl stat_id)]

def ops : OpTable := [("c19.gen_hln", opGenHln)]

end SV.Driver.C19Gen
