/- spec-only driver ops for C09: the documented formulas, with NO dependency on a regenerated module, so that the failing-input
   search (property oracle) still runs when Gen/Contingency.lean no longer builds after a source change -/
import ScoresVerif.Driver.Proto
import ScoresVerif.Spec.Contingency

namespace SV.Driver.C09Spec
open Lean SV SV.Proto

/-- the documented formulas (Spec), keyed by the public method name -/
def opSpec : Op := fun j => do
  let tp ← fFl j "tp"; let tn ← fFl j "tn"; let fp ← fFl j "fp"; let fn ← fFl j "fn"
  let total ← fFl j "total"
  let S := fun (n : String) (v : Fl) => (n, outFl v)
  pure <| outObj [
    S "accuracy" (Spec.Contingency.accuracy tp tn total),
    S "base_rate" (Spec.Contingency.baseRate tp fn total),
    S "forecast_rate" (Spec.Contingency.forecastRate tp fp total),
    S "frequency_bias" (Spec.Contingency.frequencyBias tp fp fn),
    S "probability_of_detection" (Spec.Contingency.pod tp fn),
    S "false_alarm_ratio" (Spec.Contingency.falseAlarmRatio tp fp),
    S "false_alarm_rate" (Spec.Contingency.pofd tn fp),
    S "success_ratio" (Spec.Contingency.successRatio tp fp),
    S "threat_score" (Spec.Contingency.threatScore tp fp fn),
    S "peirce_skill_score" (Spec.Contingency.peirce tp tn fp fn),
    S "specificity" (Spec.Contingency.specificity tn fp),
    S "negative_predictive_value" (Spec.Contingency.npv tn fn),
    S "f1_score" (Spec.Contingency.f1 tp fp fn),
    S "equitable_threat_score" (Spec.Contingency.ets tp fp fn total),
    S "heidke_skill_score" (Spec.Contingency.hss tp tn fp fn total),
    S "odds_ratio" (Spec.Contingency.oddsRatio tp tn fp fn),
    S "odds_ratio_skill_score" (Spec.Contingency.orss tp tn fp fn)]

def ops : OpTable := [("c09.spec", opSpec)]

end SV.Driver.C09Spec
