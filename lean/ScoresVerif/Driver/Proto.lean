/-
  Line protocol helpers: JSON <-> model values.
  Numbers travel as strings "p/q" | "p" | "nan" | "inf" | "-inf" (exact rationals).
-/
import Lean.Data.Json
import ScoresVerif.Model.Fl

namespace SV.Proto
open Lean SV

abbrev R := Except String

def parseInt? (s : String) : Option Int :=
  if s.startsWith "-" then (s.drop 1).toNat?.map (fun n => -(n : Int))
  else if s.startsWith "+" then (s.drop 1).toNat?.map (fun n => (n : Int))
  else s.toNat?.map (fun n => (n : Int))

def parseFl (s : String) : R Fl :=
  match s with
  | "nan" => pure Fl.nan
  | "inf" => pure Fl.pinf
  | "-inf" => pure Fl.ninf
  | _ =>
    match s.splitOn "/" with
    | [n] => match parseInt? n with
      | some i => pure (Fl.fin (i : Rat))
      | none => throw s!"bad number {s}"
    | [n, d] => match parseInt? n, d.toNat? with
      | some i, some k => if k = 0 then throw s!"zero denominator {s}" else pure (Fl.fin (mkRat i k))
      | _, _ => throw s!"bad number {s}"
    | _ => throw s!"bad number {s}"

def getFl (j : Json) : R Fl := do
  match j with
  | Json.str s => parseFl s
  | Json.num n => -- integers only
    if n.exponent = 0 then pure (Fl.fin (n.mantissa : Rat)) else throw s!"non-integer json number {j}"
  | _ => throw s!"expected number string, got {j}"

def getRat (j : Json) : R Rat := do
  match ← getFl j with
  | Fl.fin q => pure q
  | _ => throw s!"expected finite rational, got {j}"

def getArr (j : Json) : R (Array Json) :=
  match j with
  | Json.arr a => pure a
  | _ => throw s!"expected array, got {j}"

def getList (f : Json → R α) (j : Json) : R (List α) := do
  let a ← getArr j
  a.toList.mapM f

def getFlList := getList getFl
def getFlMat := getList getFlList

def getNat (j : Json) : R Nat :=
  match j.getNat? with
  | .ok n => pure n
  | .error e => throw e

def getInt (j : Json) : R Int :=
  match j.getInt? with
  | .ok n => pure n
  | .error e => throw e

def getStr (j : Json) : R String :=
  match j.getStr? with
  | .ok n => pure n
  | .error e => throw e

def getBool (j : Json) : R Bool :=
  match j.getBool? with
  | .ok n => pure n
  | .error e => throw e

def field (j : Json) (k : String) : R Json :=
  match j.getObjVal? k with
  | .ok v => pure v
  | .error e => throw e

def fieldOpt (j : Json) (k : String) : Option Json :=
  match j.getObjVal? k with
  | .ok Json.null => none
  | .ok v => some v
  | .error _ => none

def fFl (j : Json) (k : String) : R Fl := do getFl (← field j k)
def fRat (j : Json) (k : String) : R Rat := do getRat (← field j k)
def fNat (j : Json) (k : String) : R Nat := do getNat (← field j k)
def fInt (j : Json) (k : String) : R Int := do getInt (← field j k)
def fStr (j : Json) (k : String) : R String := do getStr (← field j k)
def fBool (j : Json) (k : String) : R Bool := do getBool (← field j k)
def fFlList (j : Json) (k : String) : R (List Fl) := do getFlList (← field j k)
def fFlMat (j : Json) (k : String) : R (List (List Fl)) := do getFlMat (← field j k)
def fStrList (j : Json) (k : String) : R (List String) := do getList getStr (← field j k)
def fNatList (j : Json) (k : String) : R (List Nat) := do getList getNat (← field j k)

def outFl (x : Fl) : Json := Json.str x.toStr
def outRat (q : Rat) : Json := Json.str (Fl.ratToString q)
def outFlList (xs : List Fl) : Json := Json.arr (xs.map outFl).toArray
def outFlMat (xs : List (List Fl)) : Json := Json.arr (xs.map outFlList).toArray
def outBool (b : Bool) : Json := Json.bool b
def outNat (n : Nat) : Json := Json.num (n : Int)
def outInt (n : Int) : Json := Json.num n
def outStr (s : String) : Json := Json.str s
def outStrList (xs : List String) : Json := Json.arr (xs.map Json.str).toArray
def outObj (kvs : List (String × Json)) : Json := Json.mkObj kvs
/-- the model says the implementation must raise: `kind` is the folded exception class -/
def outErr (kind : String) : Json := Json.mkObj [("err", Json.str kind)]

/-- one operation of the driver: JSON args in, JSON result out -/
abbrev Op := Json → R Json
abbrev OpTable := List (String × Op)

end SV.Proto
