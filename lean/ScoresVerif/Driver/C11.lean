/- driver ops for C11 (Murphy scores: translated kernels + hand model of the frame and of murphy_thetas; Spec) -/
import ScoresVerif.Driver.Proto
import ScoresVerif.Model.Murphy
import ScoresVerif.Spec.Murphy

namespace SV.Driver.C11
open Lean SV SV.Proto

def getFn (s : String) : R Model.Murphy.Functional :=
  match Model.Murphy.Functional.ofString? s with
  | some f => pure f
  | none => throw s!"unknown functional {s}"

def specFn : Model.Murphy.Functional → Spec.Murphy.Fn
  | .quantile => .quantile
  | .huber => .huber
  | .expectile => .expectile

def getPair (j : Json) : R (Fl × Fl) := do
  match ← getFlList j with
  | [a, b] => pure (a, b)
  | _ => throw "expected a pair"

def outCell (c : Model.Murphy.Cell) : Json := Json.arr #[outFl c.total, outFl c.under, outFl c.over]

/-- model (translated kernels inside the hand-written frame): per-theta per-case cells and per-theta means -/
def opModel : Op := fun j => do
  let fn ← getFn (← fStr j "fn")
  let alpha ← fFl j "alpha"; let a ← fFl j "a"
  let cases ← getList getPair (← field j "cases")
  let thetas ← fFlList j "thetas"
  let cells := thetas.map fun th => Json.arr (cases.map fun c => outCell (Model.Murphy.cell fn alpha a c.1 c.2 th)).toArray
  let means := thetas.map fun th => outCell (Model.Murphy.meanCell fn alpha a cases th)
  pure <| outObj [("cells", Json.arr cells.toArray), ("mean", Json.arr means.toArray)]

/-- spec: Ehm et al. / Taggart elementary scores over exact rationals, mean over the valid cases -/
def opSpec : Op := fun j => do
  let fn := specFn (← getFn (← fStr j "fn"))
  let alpha ← fRat j "alpha"
  let a ← (do match fieldOpt j "a" with
    | some v => (do match ← getFl v with
      | Fl.fin q => pure q
      | _ => pure (0 : Rat))
    | none => pure (0 : Rat))
  let cases ← getList getPair (← field j "cases")
  let thetas ← fFlList j "thetas"
  let one := fun (c : Fl × Fl) (th : Fl) =>
    let r := Spec.Murphy.meanScore fn alpha a [c] th
    Json.arr #[outFl r.1, outFl r.2.1, outFl r.2.2]
  let cells := thetas.map fun th => Json.arr (cases.map fun c => one c th).toArray
  let means := thetas.map fun th =>
    let r := Spec.Murphy.meanScore fn alpha a cases th
    Json.arr #[outFl r.1, outFl r.2.1, outFl r.2.2]
  -- ∫ S_θ dθ must equal the mean loss over the valid cases
  let vc := Spec.Murphy.validCases cases
  let lossMean := Spec.Murphy.meanOf (vc.map fun c => Spec.Murphy.loss fn alpha a c.1 c.2)
  pure <| outObj [("cells", Json.arr cells.toArray), ("mean", Json.arr means.toArray), ("loss", outFl lossMean)]

def opThetas : Op := fun j => do
  let fn ← getFn (← fStr j "fn")
  let fcsts ← fFlMat j "forecasts"
  let obs ← fFlList j "obs"
  let a ← fFl j "a"
  let d ← (do match fieldOpt j "delta" with
    | some v => (do pure (some (← getFl v)))
    | none => pure none)
  pure <| outFlList (Model.Murphy.thetas fn fcsts obs a d)

def optFl (j : Json) (k : String) : R (Option Fl) := do
  match fieldOpt j k with
  | some v => pure (some (← getFl v))
  | none => pure none

def opCheck : Op := fun j => do
  let alpha ← optFl j "alpha"; let a ← optFl j "a"; let d ← optFl j "delta"
  let fn ← (do match fieldOpt j "fn" with
    | some v => (do pure (some (← getStr v)))
    | none => pure none)
  pure <| outBool (Model.Murphy.checkRaises alpha fn a d)

def ops : OpTable := [("c11.model", opModel), ("c11.spec", opSpec), ("c11.thetas", opThetas), ("c11.check", opCheck)]

end SV.Driver.C11
