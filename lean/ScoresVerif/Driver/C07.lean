/- driver ops for C07 (crps_cdf pipeline, Brier decomposition, step weights): executable model and spec -/
import ScoresVerif.Driver.Proto
import ScoresVerif.Model.CrpsCdf
import ScoresVerif.Spec.CrpsCdf

namespace SV.Driver.C07
open Lean SV SV.Proto

def fRatList (j : Json) (k : String) : R (List Rat) := do getList getRat (← field j k)

def outE (r : SV.Model.Cdf.E α) (f : α → Json) : Json :=
  match r with
  | .ok v => f v
  | .error e => outErr e

def outRatList (xs : List Rat) : Json := Json.arr (xs.map outRat).toArray

def getWeight (j : Json) : R (Option SV.Model.CrpsCdf.Weight) :=
  match fieldOpt j "w" with
  | none => pure none
  | some w => do
    let thr ← fRatList w "thr"; let rows ← fFlMat w "rows"
    pure (some { thr := thr, rows := rows })

def outParts (p : SV.Model.CrpsCdf.Parts) : Json :=
  outObj [("total", outFl p.total), ("under", outFl p.under), ("over", outFl p.over)]

/-- model of crps_cdf per row -/
def opCrps : Op := fun j => do
  let thr ← fRatList j "thr"; let rows ← fFlMat j "rows"; let obs ← fFlList j "obs"
  let w ← getWeight j
  let add ← fFlList j "additional"
  let propagate ← fBool j "propagate"; let fillF ← fStr j "fillF"; let fillW ← fStr j "fillW"; let integ ← fStr j "integ"
  let cfg : SV.Model.CrpsCdf.Cfg := { propagate := propagate, fillF := fillF, fillW := fillW, integ := integ }
  pure <| outE (SV.Model.CrpsCdf.crpsCdf thr rows obs w add cfg) fun ps => Json.arr (ps.map outParts).toArray

/-- model of crps_cdf_brier_decomposition per row and threshold -/
def opBrier : Op := fun j => do
  let thr ← fRatList j "thr"; let rows ← fFlMat j "rows"; let obs ← fFlList j "obs"
  let add ← fFlList j "additional"; let fillF ← fStr j "fillF"
  pure <| outE (SV.Model.CrpsCdf.brierDecomposition thr rows obs add fillF) fun (g, rs) =>
    outObj [("grid", outRatList g),
            ("total", outFlMat (rs.map (·.1))), ("under", outFlMat (rs.map (·.2.1))), ("over", outFlMat (rs.map (·.2.2))),
            ("mean_total", outFlList (SV.Model.CrpsCdf.colMeans (rs.map (·.1)))),
            ("mean_under", outFlList (SV.Model.CrpsCdf.colMeans (rs.map (·.2.1)))),
            ("mean_over", outFlList (SV.Model.CrpsCdf.colMeans (rs.map (·.2.2))))]

def opStepWeight : Op := fun j => do
  let pts ← fFlList j "points"
  let tv ← match fieldOpt j "tv" with
    | none => pure none
    | some v => do pure (some (← getFlList v))
  let inc ← fBool j "include"; let p ← fRat j "prec"; let up ← fBool j "upper"
  pure <| outE (SV.Model.CrpsCdf.stepWeight pts tv inc p up) fun (g, rows) =>
    outObj [("grid", outRatList g), ("rows", outFlMat rows)]

def finOnly (xs : List Fl) : List Rat := SV.Model.Cdf.finVals xs

/-- the property's own statement (Spec): exact cell-wise integral / trapezoid sums, per row -/
def opSpec : Op := fun j => do
  let thr ← fRatList j "thr"; let rows ← fFlMat j "rows"; let obs ← fFlList j "obs"
  let w ← getWeight j
  let add ← fFlList j "additional"
  let propagate ← fBool j "propagate"; let fillF ← fStr j "fillF"; let fillW ← fStr j "fillW"; let integ ← fStr j "integ"
  let others := finOnly obs
  let res := (List.range rows.length).map fun i =>
    let wt := w.map fun w => (w.thr, w.rows.getD i [])
    let r := SV.Spec.CrpsCdf.crps thr (rows.getD i []) (obs.getD i Fl.nan) others wt (finOnly add) propagate fillF fillW integ
    let parts := match r.parts with
      | some p => outObj [("total", outRat p.total), ("under", outRat p.under), ("over", outRat p.over)]
      | none => Json.str "nan"
    outObj [("grid", outRatList r.grid), ("f", outFlList r.f), ("w", outFlList r.w), ("parts", parts)]
  pure (Json.arr res.toArray)

/-- the Spec's observation CDF `H(x) = 1{obs ≤ x}` on the union grid of `thr` (and, with `include`, the finite
    observations), one row per observation (NaN observation: NaN row).  `H` is read off the Spec's own integrand:
    `brierAt obs x 0 1 = 1·(0 − H(x))² = H(x)` — exact rationals at any magnitude, no tolerance. -/
def opHeaviside : Op := fun j => do
  let thr ← fRatList j "thr"; let obs ← fFlList j "obs"; let incl ← fBool j "include"
  let grid := SV.Spec.Cdf.union thr (if incl then finOnly obs else [])
  let rows := obs.map fun o => match o with
    | Fl.fin q => grid.map fun x => Fl.fin (SV.Spec.CrpsCdf.brierAt q x 0 1)
    | _ => grid.map fun _ => Fl.nan
  pure <| outObj [("grid", outRatList grid), ("rows", outFlMat rows)]

def ops : OpTable := [("c07.crps", opCrps), ("c07.brier", opBrier), ("c07.stepweight", opStepWeight), ("c07.spec", opSpec),
  ("c07.heaviside", opHeaviside)]

end SV.Driver.C07
