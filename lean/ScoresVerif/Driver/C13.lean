/- driver ops for C13 (Brier scores: translated per-case formula + hand array level; hand-written spec) -/
import ScoresVerif.Driver.Proto
import ScoresVerif.Gen.Brier
import ScoresVerif.Model.C13

namespace SV.Driver.C13
open Lean SV SV.Proto

def getMode (j : Json) (k : String) : R PyMode := do
  match PyOp.ofName? (← fStr j k) with
  | some o => pure (PyMode.op o)
  | none => pure PyMode.other

def optFlList (j : Json) (k : String) : R (Option (List Fl)) :=
  match fieldOpt j k with
  | none => pure none
  | some v => do pure (some (← getFlList v))

def outExc (r : Except String Json) : Json :=
  match r with
  | .ok v => outObj [("ok", v)]
  | .error e => outErr e

/-- translated per-case formula on explicit i, m, y -/
def opCase : Op := fun j => do
  let i ← fFl j "i"; let m ← fFl j "m"; let y ← fFl j "y"; let fair ← fBool j "fair"
  pure <| outFl (Gen.Brier.brier_case i m y fair)

def opEns : Op := fun j => do
  let fcst ← fFlMat j "fcst"; let obs ← fFlList j "obs"; let thr ← fFlList j "thresholds"
  let op ← getMode j "op"; let fair ← fBool j "fair"; let w ← optFlList j "weights"
  pure <| outExc ((Model.C13.ensScore fcst obs thr op fair w).map fun (pc, mean) =>
    outObj [("cases", outFlMat pc), ("mean", outFlList mean)])

def opBrier : Op := fun j => do
  let fs ← fFlList j "fcst"; let os ← fFlList j "obs"; let w ← optFlList j "weights"; let chk ← fBool j "check"
  pure <| outExc ((Model.C13.brierScore fs os w chk).map outFl)

def ops : OpTable := [("c13.case", opCase), ("c13.ens", opEns), ("c13.brier", opBrier)]

end SV.Driver.C13
