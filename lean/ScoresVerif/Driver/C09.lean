/- driver ops for C09 (contingency metrics: regenerated definitions and hand-written spec) -/
import ScoresVerif.Driver.Proto
import ScoresVerif.Gen.Contingency
import ScoresVerif.Spec.Contingency
import ScoresVerif.Driver.C09Spec

namespace SV.Driver.C09
open Lean SV SV.Proto

/-- all metrics of one table as translated from the source; `logF` is instantiated by the identity —
    the harness recomputes SEDI from POD / POFD with libm's log (log is uninterpreted, DESIGN §3.1) -/
def opMetrics : Op := fun j => do
  let tp ← fFl j "tp"; let tn ← fFl j "tn"; let fp ← fFl j "fp"; let fn ← fFl j "fn"
  let total ← fFl j "total"
  pure <| outObj (SV.Gen.Contingency.methodTable.map fun (n, f) => (n, outFl (f id tp tn fp fn total)))

def opMaps : Op := fun j => do
  let f ← fFl j "fcst"; let o ← fFl j "obs"
  pure <| outObj [("tp", outFl (SV.Gen.Contingency.map_tp f o)), ("tn", outFl (SV.Gen.Contingency.map_tn f o)),
                  ("fp", outFl (SV.Gen.Contingency.map_fp f o)), ("fn", outFl (SV.Gen.Contingency.map_fn f o))]

def ops : OpTable := [("c09.metrics", opMetrics), ("c09.spec", SV.Driver.C09Spec.opSpec), ("c09.maps", opMaps)]

end SV.Driver.C09
