/- driver ops for C09 (contingency metrics: regenerated definitions and hand-written spec) -/
import ScoresVerif.Driver.Proto
import ScoresVerif.Gen.Contingency
import ScoresVerif.Spec.Contingency

namespace SV.Driver.C09
open Lean SV SV.Proto

/-- all metrics of one table as translated from the source; `logF` is instantiated by the identity —
    the harness recomputes SEDI from POD / POFD with libm's log (log is uninterpreted, DESIGN §3.1) -/
def opMetrics : Op := fun j => do
  let tp ← fFl j "tp"; let tn ← fFl j "tn"; let fp ← fFl j "fp"; let fn ← fFl j "fn"
  let total ← fFl j "total"
  pure <| outObj (SV.Gen.Contingency.methodTable.map fun (n, f) => (n, outFl (f id tp tn fp fn total)))

/-- the documented formulas (Spec), keyed by the public method name -/
def opSpec : Op := fun j => do
  let tp ← fFl j "tp"; let tn ← fFl j "tn"; let fp ← fFl j "fp"; let fn ← fFl j "fn"
  let total ← fFl j "total"
  let S := fun (n : String) (v : Fl) => (n, outFl v)
  pure <| outObj [
    S "accuracy" (Spec.Contingency.accuracy tp tn total),
    S "base_rate" (Spec.Contingency.baseRate tp fn total),
    S "forecast_rate" (Spec.Contingency.forecastRate tp fp total),
    S "frequency_bias" (Spec.Contingency.frequencyBias tp fp fn),
    S "probability_of_detection" (Spec.Contingency.pod tp fn),
    S "false_alarm_ratio" (Spec.Contingency.falseAlarmRatio tp fp),
    S "false_alarm_rate" (Spec.Contingency.pofd tn fp),
    S "success_ratio" (Spec.Contingency.successRatio tp fp),
    S "threat_score" (Spec.Contingency.threatScore tp fp fn),
    S "peirce_skill_score" (Spec.Contingency.peirce tp tn fp fn),
    S "specificity" (Spec.Contingency.specificity tn fp),
    S "negative_predictive_value" (Spec.Contingency.npv tn fn),
    S "f1_score" (Spec.Contingency.f1 tp fp fn),
    S "equitable_threat_score" (Spec.Contingency.ets tp fp fn total),
    S "heidke_skill_score" (Spec.Contingency.hss tp tn fp fn total),
    S "odds_ratio" (Spec.Contingency.oddsRatio tp tn fp fn),
    S "odds_ratio_skill_score" (Spec.Contingency.orss tp tn fp fn)]

def opMaps : Op := fun j => do
  let f ← fFl j "fcst"; let o ← fFl j "obs"
  pure <| outObj [("tp", outFl (SV.Gen.Contingency.map_tp f o)), ("tn", outFl (SV.Gen.Contingency.map_tn f o)),
                  ("fp", outFl (SV.Gen.Contingency.map_fp f o)), ("fn", outFl (SV.Gen.Contingency.map_fn f o))]

def ops : OpTable := [("c09.metrics", opMetrics), ("c09.spec", opSpec), ("c09.maps", opMaps)]

end SV.Driver.C09
