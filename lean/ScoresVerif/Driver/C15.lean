/- driver ops for C15 (isotonic regression: hand model of isoreg_impl.py and the max-min spec) -/
import ScoresVerif.Driver.Proto
import ScoresVerif.Model.Isotonic
import ScoresVerif.Spec.Isotonic

namespace SV.Driver.C15
open Lean SV SV.Proto
open SV.Model.Isotonic

def getRatList (j : Json) (k : String) : R (List Rat) := do getList getRat (← field j k)

/-- weights: `null` (the code's `weight=None`) is modelled by unit weights -/
def getWeights (j : Json) (n : Nat) : R (List Fl) :=
  match fieldOpt j "weight" with
  | none => pure (List.replicate n (Fl.fin 1))
  | some w => getFlList w

def solverOf (j : Json) : R Solver := do
  let s ← fStr j "solver"
  match s with
  | "mean" => pure wmean
  | "quantile" => do pure (quantileSolver (← fRat j "q"))
  | other => pure (namedSolver other)

def outRatList (xs : List Rat) : Json := Json.arr (xs.map outRat).toArray

/-- the model of `isotonic_fit` (no bootstrap) -/
def opFit : Op := fun j => do
  let f ← fFlList j "fcst"; let o ← fFlList j "obs"
  let w ← getWeights j f.length
  let solve ← solverOf j
  match isotonicFit solve f o w with
  | none => pure (outErr "ValueError")
  | some r => pure <| outObj [("fcst_sorted", outRatList r.fcstSorted), ("fcst_counts", Json.arr (r.counts.map outNat).toArray),
      ("regression_values", outRatList r.values), ("obs_tidied", outRatList r.obsTidied), ("y_out", outRatList r.yOut)]

/-- the max-min formula over the distinct forecasts (Spec), NaN pairs dropped -/
def opSpec : Op := fun j => do
  let f ← fFlList j "fcst"; let o ← fFlList j "obs"
  let w ← getWeights j f.length
  let ps := validPairs f o w
  let r := SV.Spec.Isotonic.isoFit ps
  pure <| outObj [("fcst_sorted", outRatList (r.map (·.1))), ("fcst_counts", Json.arr (r.map (outNat ·.2.1)).toArray),
    ("regression_values", outRatList (r.map (·.2.2)))]

def opInterp : Op := fun j => do
  let xs ← getRatList j "xs"; let ys ← getRatList j "ys"; let q ← fFlList j "at"
  let n ← fNat j "n"
  pure (outFlList (q.map fun x => interp xs ys x (n == 1)))

def opBand : Op := fun j => do
  let rows ← fFlMat j "rows"; let ncol ← fNat j "ncol"; let c ← fRat j "confidence"; let m ← fNat j "min_non_nan"
  let (lo, hi) := band rows ncol c m
  pure <| outObj [("lower", outFlList lo), ("upper", outFlList hi)]

def ops : OpTable := [("c15.fit", opFit), ("c15.spec", opSpec), ("c15.interp", opInterp), ("c15.band", opBand)]

end SV.Driver.C15
