-- Root of the `ScoresVerif` library: everything that `lake build` must check.
import ScoresVerif.Model.Fl
import ScoresVerif.Driver.Proto
import ScoresVerif.Lemmas.FlBasic
import ScoresVerif.Gen.Contingency
import ScoresVerif.Spec.Contingency
import ScoresVerif.Driver.Loop
import ScoresVerif.Driver.C09
import ScoresVerif.Props.C09
