import ScoresVerif.Driver.Loop
import ScoresVerif.Driver.C08
def main : IO Unit := SV.Driver.run SV.Driver.C08.ops
