import ScoresVerif.Driver.Loop
import ScoresVerif.Driver.C15
def main : IO Unit := SV.Driver.run SV.Driver.C15.ops
