import ScoresVerif.Driver.Loop
import ScoresVerif.Driver.C05
def main : IO Unit := SV.Driver.run SV.Driver.C05.ops
