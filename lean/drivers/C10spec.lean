import ScoresVerif.Driver.Loop
import ScoresVerif.Driver.C10Spec
def main : IO Unit := SV.Driver.run SV.Driver.C10Spec.ops
