import ScoresVerif.Driver.Loop
import ScoresVerif.Driver.C18
def main : IO Unit := SV.Driver.run SV.Driver.C18.ops
