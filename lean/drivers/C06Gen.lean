import ScoresVerif.Driver.Loop
import ScoresVerif.Driver.C06Gen
def main : IO Unit := SV.Driver.run SV.Driver.C06Gen.ops
