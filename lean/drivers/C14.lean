import ScoresVerif.Driver.Loop
import ScoresVerif.Driver.C14
def main : IO Unit := SV.Driver.run SV.Driver.C14.ops
