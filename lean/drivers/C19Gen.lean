import ScoresVerif.Driver.Loop
import ScoresVerif.Driver.C19Gen
def main : IO Unit := SV.Driver.run SV.Driver.C19Gen.ops
