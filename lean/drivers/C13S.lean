import ScoresVerif.Driver.Loop
import ScoresVerif.Driver.C13Spec
def main : IO Unit := SV.Driver.run SV.Driver.C13Spec.ops
