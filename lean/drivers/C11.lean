import ScoresVerif.Driver.Loop
import ScoresVerif.Driver.C11
def main : IO Unit := SV.Driver.run SV.Driver.C11.ops
