import ScoresVerif.Driver.Loop
import ScoresVerif.Driver.C05Spec
def main : IO Unit := SV.Driver.run SV.Driver.C05Spec.ops
