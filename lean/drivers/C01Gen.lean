import ScoresVerif.Driver.Loop
import ScoresVerif.Driver.C01Gen
def main : IO Unit := SV.Driver.run SV.Driver.C01Gen.ops
