import ScoresVerif.Driver.Loop
import ScoresVerif.Driver.C16
def main : IO Unit := SV.Driver.run SV.Driver.C16.ops
