import ScoresVerif.Driver.Loop
import ScoresVerif.Driver.C13
def main : IO Unit := SV.Driver.run SV.Driver.C13.ops
