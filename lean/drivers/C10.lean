import ScoresVerif.Driver.Loop
import ScoresVerif.Driver.C10
def main : IO Unit := SV.Driver.run SV.Driver.C10.ops
