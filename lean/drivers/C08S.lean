import ScoresVerif.Driver.Loop
import ScoresVerif.Driver.C08Spec
def main : IO Unit := SV.Driver.run SV.Driver.C08Spec.ops
