import ScoresVerif.Driver.Loop
import ScoresVerif.Driver.C17
def main : IO Unit := SV.Driver.run SV.Driver.C17.ops
