import ScoresVerif.Driver.Loop
import ScoresVerif.Driver.C20
def main : IO Unit := SV.Driver.run SV.Driver.C20.ops
