import ScoresVerif.Driver.Loop
import ScoresVerif.Driver.C12
def main : IO Unit := SV.Driver.run SV.Driver.C12.ops
