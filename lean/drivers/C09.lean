import ScoresVerif.Driver.Loop
import ScoresVerif.Driver.C09
def main : IO Unit := SV.Driver.run SV.Driver.C09.ops
