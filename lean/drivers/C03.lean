import ScoresVerif.Driver.Loop
import ScoresVerif.Driver.C01
def main : IO Unit := SV.Driver.run SV.Driver.C01.ops
