import ScoresVerif.Driver.Loop
import ScoresVerif.Driver.C09Spec
def main : IO Unit := SV.Driver.run SV.Driver.C09Spec.ops
