import ScoresVerif.Driver.Loop
import ScoresVerif.Driver.C06
def main : IO Unit := SV.Driver.run SV.Driver.C06.ops
