import ScoresVerif.Driver.Loop
import ScoresVerif.Driver.C19
def main : IO Unit := SV.Driver.run SV.Driver.C19.ops
