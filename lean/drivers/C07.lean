import ScoresVerif.Driver.Loop
import ScoresVerif.Driver.C07
def main : IO Unit := SV.Driver.run SV.Driver.C07.ops
