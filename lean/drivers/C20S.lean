import ScoresVerif.Driver.Loop
import ScoresVerif.Driver.C20Spec
def main : IO Unit := SV.Driver.run SV.Driver.C20Spec.ops
