"""Reproductions of the pinned-tree defects F1..F15 against the real code (run: /venv/bin/python notes/repro/defects.py)."""
import warnings; warnings.filterwarnings("ignore")
import numpy as np, xarray as xr
import scores
from scores.continuous import quantile_score, quantile_interval_score, interval_score, consistent_quantile_score, tw_quantile_score, mse
from scores.probability import crps_cdf, crps_cdf_brier_decomposition, crps_for_ensemble, roc_curve_data
from scores.categorical import ThresholdEventOperator
from scores.emerging import risk_matrix_score

def run(name, f):
    try:
        r = f()
        print(f"{name}: OK -> {r}")
    except Exception as e:
        print(f"{name}: {type(e).__name__}: {str(e)[:90]}")

f = xr.DataArray([[1., 2, 3], [4, 5, 7]], dims=["a", "b"], coords={"a": [0, 1], "b": [0, 1, 2]})
o = xr.DataArray([[1., 3, 2], [4, 4, 9]], dims=["a", "b"], coords={"a": [0, 1], "b": [0, 1, 2]})
run("F1 quantile_score reduce_dims='all'", lambda: float(quantile_score(f, o, 0.3, reduce_dims="all")))
run("F1 quantile_score preserve_dims='a'", lambda: quantile_score(f, o, 0.3, preserve_dims="a").values)
run("F1 qis reduce_dims='b'", lambda: quantile_interval_score(f, f + 1, o, 0.1, 0.9, reduce_dims="b")["total"].values)
run("F1 interval_score preserve_dims='all'", lambda: interval_score(f, f + 1, o, 0.5, preserve_dims="all")["total"].values)
cf = xr.DataArray([[0., .5, 1], [0, .25, 1]], dims=["a", "threshold"], coords={"a": [0, 1], "threshold": [0., 1, 2]})
co = xr.DataArray([0.5, 1.5], dims=["a"], coords={"a": [0, 1]})
run("F2 crps_cdf reduce_dims=['a']", lambda: crps_cdf(cf, co, reduce_dims=["a"])["total"].values)
run("F2 crps_cdf preserve_dims='all'", lambda: crps_cdf(cf, co, preserve_dims="all")["total"].values)
run("F2 brier decomposition reduce_dims='a'", lambda: crps_cdf_brier_decomposition(cf, co, reduce_dims="a")["total_penalty"].values)
w = xr.DataArray([.5, .5, .5], dims=["threshold"], coords={"threshold": [0., 1, 2]})
run("F3 crps_cdf exact weight .5", lambda: (crps_cdf(cf, co, threshold_weight=w, preserve_dims=["a"])["total"].values, crps_cdf(cf, co, preserve_dims=["a"])["total"].values))
ff = xr.DataArray([-1., 0, 1]); oo = xr.DataArray([-1., 0., 1.])
run("F4 event_threshold=0 (>=): fcst events", lambda: ThresholdEventOperator(default_event_threshold=0.001).make_event_tables(ff, oo, event_threshold=0)[0].values)
sev = "".join(["s", "ev"]); pt = "".join(["p", "t"])
rf = xr.DataArray([[.1, .5], [.7, .2]], dims=["x", "sev"], coords={"sev": [1, 2]})
ro = xr.DataArray([[0., 1], [1, 0]], dims=["x", "sev"], coords={"sev": [1, 2]})
dw = xr.DataArray([[1., 2], [3, 4]], dims=["pt", "sev"], coords={"pt": [.3, .6], "sev": [1, 2]})
run("F10 risk_matrix non-interned severity_dim", lambda: float(risk_matrix_score(rf, ro, dw, sev, pt)))
o2 = o.isel(b=[2, 0, 1])
run("F11 consistent_quantile_score shuffled obs coords", lambda: float(consistent_quantile_score(f, o2, 0.3, g=lambda x: x)))
run("F11 tw_quantile_score shuffled obs coords", lambda: float(tw_quantile_score(f, o2, 0.3, (0, 5))))
ens = xr.DataArray(np.arange(12.).reshape(2, 3, 2), dims=["a", "b", "m"], coords={"a": [0, 1], "b": [0, 1, 2]})
run("F12 crps_for_ensemble components shuffled obs", lambda: crps_for_ensemble(ens, o2, "m", include_components=True).values.ravel()[:3])
pf = xr.DataArray([.1, .6, .9, .4], dims=["k"]); po = xr.DataArray([0., 1, 1, 0], dims=["k"])
run("F14 roc dask check_args", lambda: float(roc_curve_data(pf.chunk(), po, [0, .5, 1])["AUC"].compute()))
wx = xr.DataArray([[1., 2], [3, 4]], dims=["a", "z"])
run("F9 mse weights extra dim: default vs 'all'", lambda: (mse(f, o, weights=wx).dims, mse(f, o, weights=wx, reduce_dims="all").dims))
