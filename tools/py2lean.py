"""
py2lean — translate the *pointwise xarray expression subset* of Python into Lean 4
definitions over the `SV.Fl` number model (tie T of DESIGN.md §4.1).

The translator is deliberately small and literal: every supported Python construct has
exactly one Lean image, temporaries become `let`s in source order, Python truthiness is
kept (`not x` on a number is `x == 0`, on an optional is `x is None or x == 0`).  Anything
outside the subset raises `Unsupported` — the caller records the function as
"translator inapplicable" (tie X then carries it alone).

Types tracked for expressions:
  'fl'    a float-valued array element / python float           -> SV.Fl
  'bool'  a boolean array element / python bool                 -> Bool
  'str'   a python string parameter                             -> String
  'optfl' Optional[float] parameter                             -> Option SV.Fl
"""
from __future__ import annotations

import ast
from dataclasses import dataclass, field
from fractions import Fraction
from decimal import Decimal


class Unsupported(Exception):
    pass


def rat_lit(v) -> str:
    """exact Lean literal of a python int/float constant (decimal reading of the literal)"""
    if isinstance(v, bool):
        raise Unsupported("bool literal as number")
    if isinstance(v, int):
        fr = Fraction(v)
    else:
        fr = Fraction(Decimal(repr(v)))
    if fr.denominator == 1:
        n = fr.numerator
        return f"(SV.Fl.fin ({n} : Rat))" if n >= 0 else f"(SV.Fl.fin (-{-n} : Rat))"
    n, d = fr.numerator, fr.denominator
    if n >= 0:
        return f"(SV.Fl.fin (({n} : Rat) / {d}))"
    return f"(SV.Fl.fin (-(({-n} : Rat) / {d})))"


@dataclass
class Env:
    types: dict = field(default_factory=dict)        # python name -> type
    lean: dict = field(default_factory=dict)         # python name -> lean identifier
    dict_alias: set = field(default_factory=set)     # names bound to the counts dictionary
    sub_map: dict = field(default_factory=dict)      # subscript key -> (lean name, type)
    self_methods: dict = field(default_factory=dict) # method name -> lean call string producing fl
    funcs: dict = field(default_factory=dict)        # free function name -> (lean name, [arg types], ret type)
    fresh: int = 0

    def copy(self):
        e = Env(dict(self.types), dict(self.lean), set(self.dict_alias), self.sub_map,
                self.self_methods, self.funcs, self.fresh)
        return e


CMP = {ast.Lt: "SV.Fl.lt", ast.LtE: "SV.Fl.le", ast.Gt: "SV.Fl.gt", ast.GtE: "SV.Fl.ge",
       ast.Eq: "SV.Fl.beq", ast.NotEq: "SV.Fl.bne"}
BIN = {ast.Add: "SV.Fl.add", ast.Sub: "SV.Fl.sub", ast.Mult: "SV.Fl.mul", ast.Div: "SV.Fl.div"}


class Tx:
    def __init__(self, env: Env):
        self.env = env

    # ----- helpers
    def as_fl(self, s, t):
        if t == "fl":
            return s
        if t == "bool":
            return f"(SV.Fl.ofBool {s})"
        raise Unsupported(f"cannot coerce {t} to fl")

    def as_bool(self, s, t):
        """python truthiness"""
        if t == "bool":
            return s
        if t == "fl":
            return f"(SV.Fl.truthy {s})"
        if t == "optfl":
            return f"(SV.Fl.truthyOpt {s})"
        raise Unsupported(f"truthiness of {t}")

    def attr_chain(self, node):
        parts = []
        while isinstance(node, ast.Attribute):
            parts.append(node.attr)
            node = node.value
        if isinstance(node, ast.Name):
            parts.append(node.id)
            return list(reversed(parts))
        return None

    # ----- expressions
    def expr(self, n) -> tuple[str, str]:
        e = self.env
        if isinstance(n, ast.Constant):
            if isinstance(n.value, bool):
                return ("true" if n.value else "false", "bool")
            if isinstance(n.value, (int, float)):
                return (rat_lit(n.value), "fl")
            if isinstance(n.value, str):
                return ('"' + n.value + '"', "str")
            if n.value is None:
                return ("none", "none")
            raise Unsupported(f"constant {n.value!r}")
        if isinstance(n, ast.Name):
            if n.id in e.types:
                return (e.lean[n.id], e.types[n.id])
            raise Unsupported(f"unknown name {n.id}")
        if isinstance(n, ast.Attribute):
            ch = self.attr_chain(n)
            if ch == ["np", "nan"] or ch == ["numpy", "nan"]:
                return ("SV.Fl.nan", "fl")
            if ch == ["np", "inf"]:
                return ("SV.Fl.pinf", "fl")
            key = ".".join(ch) if ch else None
            if key and key in e.types:
                return (e.lean[key], e.types[key])
            raise Unsupported(f"attribute {ast.unparse(n)}")
        if isinstance(n, ast.Subscript):
            if isinstance(n.value, ast.Name) and n.value.id in e.dict_alias and isinstance(n.slice, ast.Constant):
                k = n.slice.value
                if k in e.sub_map:
                    return e.sub_map[k]
            ch = self.attr_chain(n.value)
            if ch == ["self", "counts"] and isinstance(n.slice, ast.Constant) and n.slice.value in e.sub_map:
                return e.sub_map[n.slice.value]
            raise Unsupported(f"subscript {ast.unparse(n)}")
        if isinstance(n, ast.UnaryOp):
            s, t = self.expr(n.operand)
            if isinstance(n.op, ast.USub):
                return (f"(SV.Fl.neg {self.as_fl(s, t)})", "fl")
            if isinstance(n.op, ast.UAdd):
                return (self.as_fl(s, t), "fl")
            if isinstance(n.op, ast.Invert):
                if t != "bool":
                    raise Unsupported("~ on non-bool")
                return (f"(!{s})", "bool")
            if isinstance(n.op, ast.Not):
                return (f"(!{self.as_bool(s, t)})", "bool")
        if isinstance(n, ast.BinOp):
            ls, lt = self.expr(n.left)
            rs, rt = self.expr(n.right)
            if type(n.op) in BIN:
                return (f"({BIN[type(n.op)]} {self.as_fl(ls, lt)} {self.as_fl(rs, rt)})", "fl")
            if isinstance(n.op, ast.Pow):
                if isinstance(n.right, ast.Constant) and isinstance(n.right.value, int) and n.right.value >= 0:
                    return (f"(SV.Fl.powNat {self.as_fl(ls, lt)} {n.right.value})", "fl")
                raise Unsupported("non-constant power")
            if isinstance(n.op, ast.Mod):
                if isinstance(n.right, ast.Constant) and isinstance(n.right.value, (int, float)):
                    fr = Fraction(Decimal(repr(n.right.value)))
                    return (f"(SV.Fl.mod {self.as_fl(ls, lt)} (({fr.numerator} : Rat) / {fr.denominator}))", "fl")
                raise Unsupported("non-constant modulus")
            if isinstance(n.op, ast.BitAnd) and lt == rt == "bool":
                return (f"({ls} && {rs})", "bool")
            if isinstance(n.op, ast.BitOr) and lt == rt == "bool":
                return (f"({ls} || {rs})", "bool")
            raise Unsupported(f"binop {ast.unparse(n)}")
        if isinstance(n, ast.BoolOp):
            parts = [self.expr(v) for v in n.values]
            bs = [self.as_bool(s, t) for s, t in parts]
            op = " && " if isinstance(n.op, ast.And) else " || "
            return ("(" + op.join(bs) + ")", "bool")
        if isinstance(n, ast.Compare):
            items = [n.left] + list(n.comparators)
            outs = []
            for a, op, b in zip(items, n.ops, items[1:]):
                as_, at = self.expr(a)
                bs_, bt = self.expr(b)
                if isinstance(op, (ast.Is, ast.IsNot)):
                    if bt == "none" and at == "optfl":
                        outs.append(f"({as_}).isNone" if isinstance(op, ast.Is) else f"({as_}).isSome")
                        continue
                    raise Unsupported("is / is not")
                if at == "str" and bt == "str":
                    if isinstance(op, ast.Eq):
                        outs.append(f"(decide ({as_} = {bs_}))")
                        continue
                    if isinstance(op, ast.NotEq):
                        outs.append(f"(!decide ({as_} = {bs_}))")
                        continue
                    raise Unsupported("string comparison")
                if type(op) not in CMP:
                    raise Unsupported(f"comparison {type(op).__name__}")
                outs.append(f"({CMP[type(op)]} {self.as_fl(as_, at)} {self.as_fl(bs_, bt)})")
            return (outs[0] if len(outs) == 1 else "(" + " && ".join(outs) + ")", "bool")
        if isinstance(n, ast.IfExp):
            c = self.as_bool(*self.expr(n.test))
            a, at = self.expr(n.body)
            b, bt = self.expr(n.orelse)
            if at == bt:
                return (f"(if {c} then {a} else {b})", at)
            return (f"(if {c} then {self.as_fl(a, at)} else {self.as_fl(b, bt)})", "fl")
        if isinstance(n, ast.Call):
            return self.call(n)
        raise Unsupported(f"expression {type(n).__name__}: {ast.unparse(n)}")

    def call(self, n: ast.Call):
        e = self.env
        f = n.func
        args = n.args
        kw = {k.arg: k.value for k in n.keywords}
        ch = self.attr_chain(f) if isinstance(f, ast.Attribute) else None
        # numpy / builtins
        if isinstance(f, ast.Name) and f.id == "float" and len(args) == 1 and not kw:
            # `float(x)` of a number: a change of representation, the value is unchanged (Fl has no storage dtypes)
            s, t = self.expr(args[0])
            return (self.as_fl(s, t), "fl")
        if (isinstance(f, ast.Name) and f.id == "abs") or ch in (["np", "abs"], ["np", "absolute"]):
            s, t = self.expr(args[0])
            return (f"(SV.Fl.abs {self.as_fl(s, t)})", "fl")
        if ch in (["np", "minimum"], ["np", "maximum"], ["np", "fmax"], ["np", "fmin"]):
            a = self.as_fl(*self.expr(args[0]))
            b = self.as_fl(*self.expr(args[1]))
            nm = {"minimum": "min", "maximum": "max", "fmax": "fmax", "fmin": "fmin"}[ch[1]]
            return (f"(SV.Fl.{nm} {a} {b})", "fl")
        if ch == ["np", "isnan"]:
            s, t = self.expr(args[0])
            if t == "bool":
                return ("false", "bool")
            return (f"(SV.Fl.isNan {s})", "bool")
        if ch == ["np", "log"]:
            s = self.as_fl(*self.expr(args[0]))
            return (f"(logF {s})", "fl")
        if ch == ["np", "sqrt"]:
            s = self.as_fl(*self.expr(args[0]))
            return (f"(sqrtF {s})", "fl")
        if ch == ["xr", "where"] or ch == ["np", "where"]:
            c = self.expr(args[0])
            if c[1] != "bool":
                raise Unsupported("where on non-bool condition")
            a, at = self.expr(args[1])
            b, bt = self.expr(args[2])
            return (f"(if {c[0]} then {self.as_fl(a, at)} else {self.as_fl(b, bt)})", "fl")
        if isinstance(f, ast.Name) and f.id in e.funcs:
            lean, argtypes, ret = e.funcs[f.id]
            outs = []
            for a, ty in zip(args, argtypes):
                s, t = self.expr(a)
                outs.append(self.as_fl(s, t) if ty == "fl" else s)
            for k, v in kw.items():
                s, t = self.expr(v)
                outs.append(self.as_fl(s, t))
            return ("(" + " ".join([lean] + outs) + ")", ret)
        # methods
        if isinstance(f, ast.Attribute):
            # self.method()
            if isinstance(f.value, ast.Name) and f.value.id == "self" and f.attr in e.self_methods and not args:
                return (e.self_methods[f.attr], "fl")
            m = f.attr
            recv = f.value
            if m == "where":
                x, xt = self.expr(recv)
                c, ct = self.expr(args[0])
                if ct != "bool":
                    raise Unsupported("where: non-bool condition")
                if len(args) > 1 or "other" in kw:
                    o = args[1] if len(args) > 1 else kw["other"]
                    os_, ot = self.expr(o)
                    return (f"(SV.Fl.whereB {self.as_fl(x, xt)} {c} {self.as_fl(os_, ot)})", "fl")
                return (f"(SV.Fl.whereB {self.as_fl(x, xt)} {c})", "fl")
            if m == "fillna":
                x, xt = self.expr(recv)
                v, vt = self.expr(args[0])
                return (f"(SV.Fl.fillna {self.as_fl(x, xt)} {self.as_fl(v, vt)})", "fl")
            if m == "combine_first":
                x, xt = self.expr(recv)
                v, vt = self.expr(args[0])
                return (f"(SV.Fl.combineFirst {self.as_fl(x, xt)} {self.as_fl(v, vt)})", "fl")
            if m == "notnull":
                x, xt = self.expr(recv)
                return ("true", "bool") if xt == "bool" else (f"(SV.Fl.notNan {x})", "bool")
            if m == "isnull":
                x, xt = self.expr(recv)
                return ("false", "bool") if xt == "bool" else (f"(SV.Fl.isNan {x})", "bool")
            if m == "clip":
                x = self.as_fl(*self.expr(recv))
                lo = kw.get("min", args[0] if args else None)
                hi = kw.get("max", args[1] if len(args) > 1 else None)
                if lo is not None:
                    x = f"(SV.Fl.max {x} {self.as_fl(*self.expr(lo))})"
                if hi is not None:
                    x = f"(SV.Fl.min {x} {self.as_fl(*self.expr(hi))})"
                return (x, "fl")
            if m == "astype" or m == "copy" or m == "compute":
                x, xt = self.expr(recv)
                return (self.as_fl(x, xt), "fl") if m == "astype" else (x, xt)
        raise Unsupported(f"call {ast.unparse(n)}")

    # ----- statements: returns lean text producing the value of the final `return`
    def fresh(self, base):
        self.env.fresh += 1
        safe = "".join(c if c.isalnum() or c == "_" else "_" for c in base)
        return f"{safe}_{self.env.fresh}"

    def block(self, stmts, indent="  ") -> str:
        """translate a straight-line block ending in `return`; nested if/else allowed when
        every branch returns or when branches only assign (merged by tuple-if)."""
        out = []
        e = self.env
        for i, s in enumerate(stmts):
            if isinstance(s, ast.Expr) and isinstance(s.value, ast.Constant):
                continue  # docstring
            if isinstance(s, ast.Assign) or isinstance(s, ast.AnnAssign):
                tgt = s.targets[0] if isinstance(s, ast.Assign) else s.target
                val = s.value
                ch = self.attr_chain(val) if isinstance(val, ast.Attribute) else None
                if ch == ["self", "counts"] and isinstance(tgt, ast.Name):
                    e.dict_alias.add(tgt.id)
                    continue
                if isinstance(tgt, ast.Name):
                    key = tgt.id
                elif isinstance(tgt, ast.Attribute) and self.attr_chain(tgt):
                    key = ".".join(self.attr_chain(tgt))
                else:
                    raise Unsupported(f"assignment target {ast.unparse(tgt)}")
                vs, vt = self.expr(val)
                ln = self.fresh(key)
                out.append(f"{indent}let {ln} := {vs}")
                e.types[key] = vt
                e.lean[key] = ln
                continue
            if isinstance(s, ast.Return):
                vs, vt = self.expr(s.value)
                out.append(f"{indent}{self.as_fl(vs, vt) if vt in ('bool',) and self.ret == 'fl' else vs}")
                return "\n".join(out)
            if isinstance(s, ast.If):
                c = self.as_bool(*self.expr(s.test))
                rest = stmts[i + 1:]
                then_returns = any(isinstance(x, ast.Return) for x in s.body)
                if then_returns:
                    # if c: ...return A ; <rest>  ==> if c then A else <rest/orelse>
                    sub = Tx(e.copy()); sub.ret = self.ret
                    a = sub.block(s.body, indent + "  ")
                    sub2 = Tx(e.copy()); sub2.ret = self.ret
                    b = sub2.block(list(s.orelse) + rest, indent + "  ")
                    out.append(f"{indent}if {c} then\n{a}\n{indent}else\n{b}")
                    return "\n".join(out)
                if all(isinstance(x, ast.Raise) for x in s.body) and not s.orelse:
                    continue  # guards are extracted separately (see guards())
                # assignment-only branches: merge
                names = []
                for br in (s.body, s.orelse):
                    for x in br:
                        if isinstance(x, ast.Assign) and isinstance(x.targets[0], ast.Name):
                            if x.targets[0].id not in names:
                                names.append(x.targets[0].id)
                        elif isinstance(x, ast.Raise) or (isinstance(x, ast.Expr) and isinstance(x.value, ast.Constant)):
                            pass
                        else:
                            raise Unsupported(f"statement in if-branch: {ast.unparse(x)}")
                for nm in names:
                    vals = []
                    tys = []
                    for br in (s.body, s.orelse):
                        sub = Tx(e.copy())
                        lets = []
                        for x in br:
                            if isinstance(x, ast.Assign):
                                vs, vt = sub.expr(x.value)
                                k = x.targets[0].id
                                ln = sub.fresh(k)
                                lets.append(f"let {ln} := {vs}; ")
                                sub.env.types[k] = vt
                                sub.env.lean[k] = ln
                        self.env.fresh = max(self.env.fresh, sub.env.fresh)
                        if nm in sub.env.types:
                            vals.append("(" + "".join(lets) + sub.env.lean[nm] + ")")
                            tys.append(sub.env.types[nm])
                        else:
                            raise Unsupported(f"{nm} not assigned on every path")
                    ty = tys[0] if tys[0] == tys[1] else "fl"
                    if tys[0] != tys[1]:
                        vals = [Tx(e).as_fl(v, t) for v, t in zip(vals, tys)]
                    ln = self.fresh(nm)
                    out.append(f"{indent}let {ln} := if {c} then {vals[0]} else {vals[1]}")
                    e.types[nm] = ty
                    e.lean[nm] = ln
                continue
            if isinstance(s, ast.Raise):
                out.append(f"{indent}SV.Fl.nan")
                return "\n".join(out)
            raise Unsupported(f"statement {type(s).__name__}: {ast.unparse(s)[:80]}")
        raise Unsupported("block without return")

    ret = "fl"


def find_def(tree: ast.Module, path: str):
    cur = tree.body
    node = None
    for part in path.split("."):
        node = None
        for s in cur:
            if isinstance(s, (ast.FunctionDef, ast.ClassDef)) and s.name == part:
                node = s
                break
        if node is None:
            raise KeyError(path)
        cur = node.body
    return node


def guards(fn: ast.FunctionDef, env: Env, exc_names=("ValueError", "TypeError", "DimensionError")):
    """top-level `if <cond>: raise X(...)` statements, in order, as Lean Bool expressions.
    Returns list of (lean_cond, exception_name, source_text)."""
    out = []
    tx = Tx(env)
    for s in fn.body:
        if isinstance(s, ast.If) and len(s.body) == 1 and isinstance(s.body[0], ast.Raise) and not s.orelse:
            r = s.body[0]
            exc = None
            if isinstance(r.exc, ast.Call):
                if isinstance(r.exc.func, ast.Name):
                    exc = r.exc.func.id
                elif isinstance(r.exc.func, ast.Attribute):
                    exc = r.exc.func.attr
            try:
                c = tx.as_bool(*tx.expr(s.test))
            except Unsupported as u:
                out.append((None, exc, ast.unparse(s.test) + f"   -- unsupported: {u}"))
                continue
            out.append((c, exc, ast.unparse(s.test)))
    return out


def translate_function(fn: ast.FunctionDef, env: Env, ret="fl") -> str:
    tx = Tx(env)
    tx.ret = ret
    return tx.block(fn.body)
