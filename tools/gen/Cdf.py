"""Gen/Cdf.lean — the pointwise kernels of the CDF tools and of the CDF-CRPS (C17, C07):
piece formula of integrate_square_piecewise_linear, clipped decrease and flag of decreasing_cdfs,
trapezoid integrands of crps_cdf_trapz, per-threshold Brier score of crps_cdf_brier_decomposition.
Array-level calls (`.shift`, `.sum`, `.integrate`, `.mean`) are cut off: their receiver / result becomes a
parameter of the generated definition."""
import ast

from py2lean import Env, Tx, Unsupported, find_def
from translate import HEADER, parse, write_if_changed


def _assigns(fn, name):
    return [s for s in ast.walk(fn) if isinstance(s, ast.Assign) and isinstance(s.targets[0], ast.Name)
            and s.targets[0].id == name]


def _env(names):
    e = Env()
    for n in names:
        e.types[n] = "fl"
        e.lean[n] = n
    return e


def _receiver(expr, method):
    """the receiver X of the outermost `X.method(...)` call found walking down the left spine of `expr`"""
    for n in ast.walk(expr):
        if isinstance(n, ast.Call) and isinstance(n.func, ast.Attribute) and n.func.attr == method:
            return n
    raise Unsupported(f"no .{method}() call")


def generate():
    out = []
    status = {}

    def emit(name, params, build):
        try:
            body = build()
            out.append(f"def {name} {params} : {'Bool' if name.endswith('_flag') else 'Fl'} :=\n  {body}\n")
            status[name] = "ok"
        except (Unsupported, KeyError, IndexError, StopIteration) as u:
            status[name] = f"inapplicable: {type(u).__name__}: {u}"

    rel = "src/scores/processing/cdf/cdf_functions.py"
    tree = parse(rel)
    head = HEADER.format(src=rel + " and src/scores/probability/crps_impl.py", ns="Cdf")

    fn = find_def(tree, "integrate_square_piecewise_linear")

    def m_values():
        s = _assigns(fn, "m_values")[0]
        return Tx(_env(["diff_ys", "diff_xs"])).expr(s.value)[0]
    emit("m_values", "(diff_ys diff_xs : Fl)", m_values)

    def piece():
        s = _assigns(fn, "piece_integral")[0]
        return Tx(_env(["m_values", "b_values", "diff_xs"])).expr(s.value)[0]
    emit("piece_integral", "(m_values b_values diff_xs : Fl)", piece)

    def piece_w():
        ss = _assigns(fn, "piece_integral")
        if len(ss) < 2:
            raise Unsupported("no piece_weight statement")
        return Tx(_env(["piece_integral", "piece_weight"])).expr(ss[1].value)[0]
    emit("piece_integral_weighted", "(piece_integral piece_weight : Fl)", piece_w)

    fn = find_def(tree, "decreasing_cdfs")

    def clipped():
        s = _assigns(fn, "result")[0]
        call = _receiver(s.value, "sum")
        return Tx(_env(["diff"])).expr(call.func.value)[0]
    emit("decrease_clipped", "(diff : Fl)", clipped)

    def flag():
        s = _assigns(fn, "result")[0]
        call = _receiver(s.value, "sum")
        cmp_ = s.value
        if not (isinstance(cmp_, ast.Compare) and cmp_.left is call):
            raise Unsupported("result is not `<sum> < ...`")
        new = ast.Compare(left=ast.Name(id="total", ctx=ast.Load()), ops=cmp_.ops, comparators=cmp_.comparators)
        return Tx(_env(["total", "tolerance"])).expr(new)[0]
    emit("decreasing_flag", "(total tolerance : Fl)", flag)

    rel2 = "src/scores/probability/crps_impl.py"
    tree2 = parse(rel2)
    fn = find_def(tree2, "crps_cdf_trapz")
    names = ["threshold_weight", "cdf_fcst", "cdf_obs"]

    def integrand(var):
        def f():
            s = _assigns(fn, var)[0]
            call = _receiver(s.value, "integrate")
            return Tx(_env(names)).expr(call.func.value)[0]
        return f
    emit("trapz_total_integrand", "(threshold_weight cdf_fcst cdf_obs : Fl)", integrand("total"))
    emit("trapz_over_integrand", "(threshold_weight cdf_fcst cdf_obs : Fl)", integrand("over"))

    def under():
        s = _assigns(fn, "under")[0]
        return Tx(_env(["total", "over"])).expr(s.value)[0]
    emit("trapz_under", "(total over : Fl)", under)

    fn = find_def(tree2, "crps_cdf_brier_decomposition")

    def bscore():
        s = _assigns(fn, "bscore")[0]
        return Tx(_env(["fcst", "obs"])).expr(s.value)[0]
    emit("brier_score", "(fcst obs : Fl)", bscore)

    fn = find_def(tree2, "crps_cdf_exact")

    def total_exact():
        s = _assigns(fn, "total")[0]
        return Tx(_env(["over", "under"])).expr(s.value)[0]
    emit("exact_total", "(over under : Fl)", total_exact)

    text = head + "\n" + "\n".join(out) + "\nend SV.Gen.Cdf\n"
    st = write_if_changed("Cdf", text)
    return {"status": st, "functions": status}
