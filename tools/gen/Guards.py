"""Gen/Guards.lean — the parameter guards (`if <cond>: raise`) of the public functions of C20, each as a Boolean
function of its scalar parameters (tie T).

Table-driven: one row per guard = (lean name, source file, function, the set of names the test mentions AFTER the
row's substitutions, ordinal among the guards of that function with the same name set, parameter types, substitutions).
Substitutions replace a sub-expression (matched by its exact source text) by a scalar parameter, e.g.
`fcst.max().values.item()` -> `fcst_max`, `len(diffs)` -> `n`, `thresholds_np[1:]` -> `thr_next`.
Quantifier wrappers are stripped: `(X).any()`, `np.any(X)`, `any(X)` and, under the enclosing `not`, `(X).all()` /
`np.all(X)` become the pointwise X — the function raises iff the pointwise guard holds for SOME element
(the harness and Props/C20 lift it that way).  Guard shapes outside the subset are reported as inapplicable and
are then covered by probing only.
"""
import ast
import copy
import json

from py2lean import Env, Tx, Unsupported, find_def
from translate import HEADER, parse, write_if_changed

MODULE_NAMES = {"np", "xr", "operator", "pd", "numpy", "xarray"}


class TxG(Tx):
    """additive extension of the translator for guard expressions"""

    def as_fl(self, s, t):
        if t == "optfl":   # only reached behind `x is not None and …` / `x is None or …` (short-circuit keeps Python away from None)
            return f"(({s}).getD SV.Fl.nan)"
        return super().as_fl(s, t)

    def expr(self, n):
        if isinstance(n, ast.Compare) and len(n.ops) == 1 and isinstance(n.ops[0], (ast.In, ast.NotIn)):
            ls, lt = self.expr(n.left)
            r = n.comparators[0]
            if lt == "str" and isinstance(r, (ast.List, ast.Tuple)) and all(isinstance(x, ast.Constant) and isinstance(x.value, str) for x in r.elts):
                lst = "[" + ", ".join(json.dumps(x.value) for x in r.elts) + "]"
                c = f"(({lst} : List String).contains {ls})"
                return (c if isinstance(n.ops[0], ast.In) else f"(!{c})", "bool")
            raise Unsupported("membership test " + ast.unparse(n))
        return super().expr(n)

    def call(self, n):
        ch = self.attr_chain(n.func) if isinstance(n.func, ast.Attribute) else None
        if ch == ["np", "isinf"]:
            s = self.as_fl(*self.expr(n.args[0]))
            return (f"(isInf {s})", "bool")
        return super().call(n)


class Strip(ast.NodeTransformer):
    """remove quantifier / unboxing wrappers (see module docstring).  Only EXISTENTIAL guards are lifted pointwise:
    `any(X)` in positive position and `all(X)` under one `not`; a universal guard (`all(X)`, `not any(X)`) is refused."""

    def __init__(self):
        self.neg = False
        self.found = []

    def visit_UnaryOp(self, n):
        if isinstance(n.op, ast.Not):
            self.neg = not self.neg
            self.generic_visit(n)
            self.neg = not self.neg
            return n
        self.generic_visit(n)
        return n

    def quant(self, kind):
        if (kind == "any") == self.neg:
            raise Unsupported(f"universal guard ({'not ' if self.neg else ''}{kind}): raises only if EVERY element offends")
        self.found.append(("not " if self.neg else "") + kind)

    def visit_Call(self, n):
        f = n.func
        kind = None
        if isinstance(f, ast.Attribute) and f.attr in ("any", "all") and not n.args:
            kind, inner = f.attr, f.value
        elif isinstance(f, ast.Attribute) and isinstance(f.value, ast.Name) and f.value.id == "np" and f.attr in ("any", "all") and len(n.args) == 1:
            kind, inner = f.attr, n.args[0]
        elif isinstance(f, ast.Name) and f.id in ("any", "all") and len(n.args) == 1:
            kind, inner = f.id, n.args[0]
        if kind:
            self.quant(kind)
            return self.visit(inner)
        self.generic_visit(n)
        if isinstance(f, ast.Attribute) and f.attr == "item" and not n.args:
            return n.func.value
        return n

    def visit_Attribute(self, n):
        self.generic_visit(n)
        if n.attr == "values":
            return n.value
        return n


class Subst(ast.NodeTransformer):
    def __init__(self, table):
        self.table = table

    def visit(self, n):
        if isinstance(n, ast.expr):
            try:
                src = ast.unparse(n)
            except Exception:  # noqa: BLE001
                src = None
            if src in self.table:
                return ast.copy_location(ast.Name(id=self.table[src], ctx=ast.Load()), n)
        return super().visit(n)


def guard_ifs(fn):
    """every `if …: raise` of a function in source order, including nested blocks, loops and elif chains"""
    out = []

    def walk(stmts):
        for s in stmts:
            if isinstance(s, ast.If):
                if any(isinstance(x, ast.Raise) for x in s.body):
                    out.append(s)
                else:
                    walk(s.body)
                walk(s.orelse)
            elif isinstance(s, (ast.For, ast.While, ast.With, ast.Try)):
                walk(s.body)
                walk(getattr(s, "orelse", []))
            elif isinstance(s, (ast.FunctionDef, ast.ClassDef)):
                continue
    walk(fn.body)
    return out


def names_of(test):
    return frozenset(x.id for x in ast.walk(test) if isinstance(x, ast.Name)) - MODULE_NAMES


P = "src/scores/"
# (lean name, file, function, names, ordinal, {param: type}, {source text: param})
TABLE = [
    ("check_alpha", P + "continuous/consistent_impl.py", "check_alpha", ["alpha"], 0, {"alpha": "fl"}, {}),
    ("check_huber_param", P + "continuous/consistent_impl.py", "check_huber_param", ["huber_param"], 0, {"huber_param": "fl"}, {}),
    ("quantile_score_alpha", P + "continuous/quantile_loss_impl.py", "quantile_score", ["alpha"], 0, {"alpha": "fl"}, {}),
    ("qis_levels", P + "continuous/interval_impl.py", "quantile_interval_score", ["lower_qtile_level", "upper_qtile_level"], 0,
     {"lower_qtile_level": "fl", "upper_qtile_level": "fl"}, {}),
    ("qis_order", P + "continuous/interval_impl.py", "quantile_interval_score", ["fcst_lower_qtile", "fcst_upper_qtile"], 0,
     {"fcst_lower_qtile": "fl", "fcst_upper_qtile": "fl"}, {}),
    ("interval_range", P + "continuous/interval_impl.py", "interval_score", ["interval_range"], 0, {"interval_range": "fl"}, {}),
    ("murphy_alpha", P + "continuous/murphy_impl.py", "_check_murphy_inputs", ["alpha"], 0, {"alpha": "optfl"}, {}),
    ("murphy_huber_a", P + "continuous/murphy_impl.py", "_check_murphy_inputs", ["is_huber", "huber_a"], 0,
     {"is_huber": "bool", "huber_a": "optfl"}, {"functional == HUBER": "is_huber"}),
    ("murphy_left_limit_delta", P + "continuous/murphy_impl.py", "_check_murphy_inputs", ["left_limit_delta"], 0,
     {"left_limit_delta": "optfl"}, {}),
    ("tw_rect_order", P + "continuous/threshold_weighted_impl.py", "_auxiliary_funcs", ["a", "b"], 0, {"a": "fl", "b": "fl"}, {}),
    ("tw_trap_one_order", P + "continuous/threshold_weighted_impl.py", "_auxiliary_funcs", ["b", "c"], 0, {"b": "fl", "c": "fl"}, {}),
    ("tw_trap_inf_rule", P + "continuous/threshold_weighted_impl.py", "_auxiliary_funcs", ["a", "b", "c", "d"], 0,
     {"a": "fl", "b": "fl", "c": "fl", "d": "fl"}, {}),
    ("tw_trap_left", P + "continuous/threshold_weighted_impl.py", "_auxiliary_funcs", ["a", "b"], 1, {"a": "fl", "b": "fl"}, {}),
    ("tw_trap_right", P + "continuous/threshold_weighted_impl.py", "_auxiliary_funcs", ["c", "d"], 0, {"c": "fl", "d": "fl"}, {}),
    ("firm_risk_parameter", P + "categorical/multicategorical_impl.py", "_check_firm_inputs", ["risk_parameter"], 0,
     {"risk_parameter": "fl"}, {}),
    ("firm_weight_array", P + "categorical/multicategorical_impl.py", "_check_firm_inputs", ["weight"], 0, {"weight": "fl"}, {}),
    ("firm_weight_scalar", P + "categorical/multicategorical_impl.py", "_check_firm_inputs", ["weight"], 1, {"weight": "fl"}, {}),
    ("firm_discount_distance", P + "categorical/multicategorical_impl.py", "_check_firm_inputs", ["discount_distance"], 0,
     {"discount_distance": "fl"}, {}),
    ("firm_threshold_assignment", P + "categorical/multicategorical_impl.py", "_check_firm_inputs", ["threshold_assignment"], 0,
     {"threshold_assignment": "str"}, {}),
    ("crps_adjust_tolerance", P + "probability/crps_impl.py", "adjust_fcst_for_crps", ["decreasing_tolerance"], 0,
     {"decreasing_tolerance": "fl"}, {}),
    ("crps_cdf_weight_negative", P + "probability/crps_impl.py", "check_crps_cdf_inputs", ["threshold_weight"], 0,
     {"threshold_weight": "optfl"}, {}),
    ("crps_interval_tw_array", P + "probability/crps_impl.py", "interval_tw_crps_for_ensemble", ["lower_threshold", "upper_threshold"], 0,
     {"lower_threshold": "fl", "upper_threshold": "fl"}, {}),
    ("crps_interval_tw_scalar", P + "probability/crps_impl.py", "interval_tw_crps_for_ensemble", ["lower_threshold", "upper_threshold"], 1,
     {"lower_threshold": "fl", "upper_threshold": "fl"}, {}),
    ("brier_fcst_range", P + "probability/brier_impl.py", "brier_score", ["fcst_max", "fcst_min"], 0, {"fcst_max": "fl", "fcst_min": "fl"},
     {"fcst.max().values.item()": "fcst_max", "fcst.min().values.item()": "fcst_min"}),
    ("roc_fcst_range", P + "probability/roc_impl.py", "roc_curve_data", ["fcst_max", "fcst_min"], 0, {"fcst_max": "fl", "fcst_min": "fl"},
     {"fcst.max().values.item()": "fcst_max", "fcst.min().values.item()": "fcst_min"}),
    ("roc_thresholds_range", P + "probability/roc_impl.py", "roc_curve_data", ["thr_max", "thr_min"], 0, {"thr_max": "fl", "thr_min": "fl"},
     {"np.max(thresholds)": "thr_max", "np.min(thresholds)": "thr_min"}),
    ("roc_thresholds_monotonic", P + "probability/roc_impl.py", "roc_curve_data", ["thr_next", "thr_prev"], 0,
     {"thr_prev": "fl", "thr_next": "fl"}, {"np.array(thresholds)[1:]": "thr_next", "np.array(thresholds)[:-1]": "thr_prev"}),
    ("discretise_abs_tolerance", P + "processing/discretise.py", "comparative_discretise", ["abs_tolerance"], 0, {"abs_tolerance": "fl"}, {}),
    ("binary_discretise_monotonic", P + "processing/discretise.py", "binary_discretise", ["thr_next", "thr_prev"], 0,
     {"thr_prev": "fl", "thr_next": "fl"}, {"thresholds_np[1:]": "thr_next", "thresholds_np[:-1]": "thr_prev"}),
    ("cdf_round_precision", P + "processing/cdf/cdf_functions.py", "round_values", ["rounding_precision"], 0, {"rounding_precision": "fl"}, {}),
    ("cdf_observed_precision", P + "processing/cdf/cdf_functions.py", "observed_cdf", ["precision"], 0, {"precision": "fl"}, {}),
    ("iso_quantile_level", P + "processing/isoreg_impl.py", "_iso_arg_checks", ["is_quantile", "quantile_level"], 0,
     {"is_quantile": "bool", "quantile_level": "fl"}, {"functional == 'quantile'": "is_quantile"}),
    ("iso_weight_positive", P + "processing/isoreg_impl.py", "_iso_arg_checks", ["weight"], 1, {"weight": "fl"}, {}),
    ("iso_bootstraps", P + "processing/isoreg_impl.py", "_iso_arg_checks", ["bootstraps", "bootstraps_is_int"], 0,
     {"bootstraps_is_int": "bool", "bootstraps": "fl"}, {"isinstance(bootstraps, int)": "bootstraps_is_int"}),
    ("iso_confidence_level", P + "processing/isoreg_impl.py", "_iso_arg_checks", ["confidence_level"], 0, {"confidence_level": "fl"}, {}),
    ("fss_window", P + "fast/fss/backend.py", "FssBackend._check_dims", ["w0", "w1", "n0", "n1"], 0,
     {"w0": "fl", "w1": "fl", "n0": "fl", "n1": "fl"},
     {"self.window_size[0]": "w0", "self.window_size[1]": "w1", "self.fcst.shape[0]": "n0", "self.fcst.shape[1]": "n1"}),
    ("dm_confidence_level", P + "stats/statistical_tests/diebold_mariano_impl.py", "diebold_mariano", ["confidence_level"], 0,
     {"confidence_level": "fl"}, {}),
    ("dm_h_integer", P + "stats/statistical_tests/diebold_mariano_impl.py", "diebold_mariano", ["h"], 0, {"h": "fl"},
     {"da_timeseries[h_coord].values": "h", "da_timeseries[h_coord]": "h"}),
    ("dm_h_positive", P + "stats/statistical_tests/diebold_mariano_impl.py", "diebold_mariano", ["h"], 1, {"h": "fl"},
     {"da_timeseries[h_coord].values": "h", "da_timeseries[h_coord]": "h"}),
    ("dm_h_below_length", P + "stats/statistical_tests/diebold_mariano_impl.py", "diebold_mariano", ["da_timeseries_len", "h"], 0,
     {"da_timeseries_len": "fl", "h": "fl"}, {"da_timeseries[h_coord].values": "h", "da_timeseries[h_coord]": "h"}),
    ("dm_stat_h", P + "stats/statistical_tests/diebold_mariano_impl.py", "_dm_test_statistic", ["h", "n"], 0, {"h": "fl", "n": "fl"},
     {"len(diffs)": "n"}),
    ("risk_fcst_range", P + "emerging/risk_matrix.py", "_check_risk_matrix_score_inputs", ["fcst_max", "fcst_min"], 0,
     {"fcst_max": "fl", "fcst_min": "fl"}, {"fcst.max()": "fcst_max", "fcst.min()": "fcst_min"}),
    ("risk_prob_thresholds", P + "emerging/risk_matrix.py", "_check_risk_matrix_score_inputs", ["thr_max", "thr_min"], 0,
     {"thr_min": "fl", "thr_max": "fl"},
     {"decision_weights[prob_threshold_dim].min()": "thr_min", "decision_weights[prob_threshold_dim].max()": "thr_max"}),
    ("risk_matrix_prob_thresholds", P + "emerging/risk_matrix.py", "matrix_weights_to_array", ["thr_max", "thr_min"], 0,
     {"thr_min": "fl", "thr_max": "fl"}, {"np.max(prob_threshold_coords)": "thr_max", "np.min(prob_threshold_coords)": "thr_min"}),
    ("risk_scaling_prob_thresholds", P + "emerging/risk_matrix.py", "weights_from_warning_scaling", ["thr_max", "thr_min"], 0,
     {"thr_min": "fl", "thr_max": "fl"}, {"np.max(prob_threshold_coords)": "thr_max", "np.min(prob_threshold_coords)": "thr_min"}),
    ("risk_assessment_weights", P + "emerging/risk_matrix.py", "weights_from_warning_scaling", ["w_min"], 0, {"w_min": "fl"},
     {"np.min(assessment_weights)": "w_min"}),
    # ---- added after the guard-site audit (tools/c20_audit.py, notes/C20.md): enumerated options, counts, min_nonnan
    ("fill_cdf_method", P + "processing/cdf/cdf_functions.py", "fill_cdf", ["method"], 0, {"method": "str"}, {}),
    ("fill_cdf_min_nonnan_other", P + "processing/cdf/cdf_functions.py", "fill_cdf", ["min_nonnan", "method"], 0,
     {"min_nonnan": "fl", "method": "str"}, {}),
    ("fill_cdf_min_nonnan_linear", P + "processing/cdf/cdf_functions.py", "fill_cdf", ["min_nonnan", "method"], 1,
     {"min_nonnan": "fl", "method": "str"}, {}),
    ("cdf_decreasing_tolerance", P + "probability/checks.py", "check_nan_decreasing_inputs", ["tolerance"], 0, {"tolerance": "fl"}, {}),
    ("crps_cdf_fcst_fill_method", P + "probability/crps_impl.py", "check_crps_cdf_inputs", ["fcst_fill_method"], 0,
     {"fcst_fill_method": "str"}, {}),
    ("crps_cdf_weight_fill_method", P + "probability/crps_impl.py", "check_crps_cdf_inputs", ["has_weight", "threshold_weight_fill_method"], 0,
     {"has_weight": "bool", "threshold_weight_fill_method": "str"}, {"threshold_weight is not None": "has_weight"}),
    ("crps_cdf_integration_method", P + "probability/crps_impl.py", "check_crps_cdf_inputs", ["integration_method"], 0,
     {"integration_method": "str"}, {}),
    ("crps_cdf_threshold_count", P + "probability/crps_impl.py", "check_crps_cdf_inputs", ["n_thresholds"], 0,
     {"n_thresholds": "fl"}, {"len(fcst[threshold_dim])": "n_thresholds"}),
    ("crps_cdf_brier_fcst_fill_method", P + "probability/crps_impl.py", "check_crps_cdf_brier_inputs", ["fcst_fill_method"], 0,
     {"fcst_fill_method": "str"}, {}),
    ("crps_ensemble_method", P + "probability/crps_impl.py", "crps_for_ensemble", ["method"], 0, {"method": "str"}, {}),
    ("tail_tw_crps_tail", P + "probability/crps_impl.py", "tail_tw_crps_for_ensemble", ["tail"], 0, {"tail": "str"}, {}),
    ("brier_fcst_range_dataset", P + "probability/brier_impl.py", "brier_score", ["fcst_max", "fcst_min"], 0,
     {"fcst_max": "fl", "fcst_min": "fl"},
     {"fcst.to_array().max().values.item()": "fcst_max", "fcst.to_array().min().values.item()": "fcst_min"}),
    ("dm_method", P + "stats/statistical_tests/diebold_mariano_impl.py", "diebold_mariano", ["method"], 0, {"method": "str"}, {}),
    ("dm_statistic_distribution", P + "stats/statistical_tests/diebold_mariano_impl.py", "diebold_mariano", ["statistic_distribution"], 0,
     {"statistic_distribution": "str"}, {}),
    ("risk_threshold_assignment", P + "emerging/risk_matrix.py", "_check_risk_matrix_score_inputs", ["threshold_assignment"], 0,
     {"threshold_assignment": "str"}, {}),
    ("risk_scaling_min", P + "emerging/risk_matrix.py", "weights_from_warning_scaling", ["s_min"], 0, {"s_min": "fl"},
     {"np.min(scaling_matrix)": "s_min"}),
    ("risk_scaling_rows", P + "emerging/risk_matrix.py", "weights_from_warning_scaling", ["row_step_min"], 0, {"row_step_min": "fl"},
     {"np.min(np.diff(scaling_matrix, axis=1))": "row_step_min"}),
    ("risk_scaling_columns", P + "emerging/risk_matrix.py", "weights_from_warning_scaling", ["col_step_max"], 0, {"col_step_max": "fl"},
     {"np.max(np.diff(scaling_matrix, axis=0))": "col_step_max"}),
    ("risk_assessment_weights_count", P + "emerging/risk_matrix.py", "weights_from_warning_scaling", ["n_weights", "s_max"], 0,
     {"n_weights": "fl", "s_max": "fl"}, {"len(assessment_weights)": "n_weights", "np.max(scaling_matrix)": "s_max"}),
    ("firm_threshold_count", P + "categorical/multicategorical_impl.py", "_check_firm_inputs", ["n_thresholds"], 0,
     {"n_thresholds": "fl"}, {"len(categorical_thresholds)": "n_thresholds"}),
]

LEAN_TY = {"fl": "Fl", "bool": "Bool", "optfl": "Option Fl", "str": "String"}


def module_string_constants(tree):
    out = {}
    for s in tree.body:
        if isinstance(s, ast.Assign) and len(s.targets) == 1 and isinstance(s.targets[0], ast.Name) \
                and isinstance(s.value, ast.Constant) and isinstance(s.value.value, str):
            out[s.targets[0].id] = s.value.value
    return out


def select_guard(trees, rel, func, names, ordinal, params, subst):
    """the `if …: raise` statement a TABLE row stands for (and its test after substitution / quantifier stripping)"""
    if rel not in trees:
        trees[rel] = parse(rel)
    fn = find_def(trees[rel], func)
    cands = []
    for g in guard_ifs(fn):
        t = copy.deepcopy(g.test)
        t = Subst(subst).visit(t)
        try:
            t = Strip().visit(t)
        except Unsupported as u:
            if names_of(g.test) >= frozenset(k for k in names if k in params and k not in subst.values()):
                cands.append((g, u))   # keeps the ordinal; reported below if it is the selected guard
            continue
        ast.fix_missing_locations(t)
        if names_of(t) - set(module_string_constants(trees[rel])) == frozenset(names):
            cands.append((g, t))
    if len(cands) <= ordinal:
        raise Unsupported(f"guard over {sorted(names)} #{ordinal} not found in {func}")
    g, t = cands[ordinal]
    if isinstance(t, Unsupported):
        raise t
    return g, t


def generate():
    status = {}
    out = [HEADER.format(src="the guard clauses of the C20 functions (see tools/gen/Guards.py TABLE)", ns="Guards")]
    out.append("/-- numpy `isinf` -/\ndef isInf (x : Fl) : Bool := !x.isFinite && !x.isNan\n")
    trees = {}
    rows = []
    for name, rel, func, names, ordinal, params, subst in TABLE:
        try:
            g, t = select_guard(trees, rel, func, names, ordinal, params, subst)
            fn = find_def(trees[rel], func)
            env = Env()
            for k, ty in params.items():
                env.types[k] = ty
                env.lean[k] = k
            for k, v in module_string_constants(trees[rel]).items():
                if k not in env.types:
                    env.types[k] = "str"
                    env.lean[k] = json.dumps(v)
            tx = TxG(env)
            cond = tx.as_bool(*tx.expr(t))
            r = next(x for x in g.body if isinstance(x, ast.Raise))
            exc = "?"
            if isinstance(r.exc, ast.Call):
                exc = r.exc.func.id if isinstance(r.exc.func, ast.Name) else getattr(r.exc.func, "attr", "?")
            elif isinstance(r.exc, ast.Name):
                exc = r.exc.id
                for a in ast.walk(fn):   # `err = ValueError(...)` … `raise err`
                    if isinstance(a, ast.Assign) and ast.unparse(a.targets[0]) == exc and isinstance(a.value, ast.Call) \
                            and isinstance(a.value.func, ast.Name):
                        exc = a.value.func.id
            sig = " ".join(f"({k} : {LEAN_TY[ty]})" for k, ty in params.items())
            out.append(f"/-- {rel.replace(P, '')}:{func} l.{g.lineno}: `if {ast.unparse(g.test)}` -/\n"
                       f"def {name} {sig} : Bool :=\n  {cond}\n")
            status[name] = "ok"
            rows.append((name, params, exc))
        except (Unsupported, KeyError, StopIteration, AttributeError, IndexError, FileNotFoundError) as u:
            status[name] = f"inapplicable: {type(u).__name__}: {u}"
    # driver table: name -> guard applied to a list of optional numbers (None / absent = none; Bool = truthiness of the number)
    # guards with a string parameter go to `tableS` (strings first, in parameter order, then the numbers)
    entries, entries_s = [], []
    for name, params, exc in rows:
        has_str = any(ty == "str" for ty in params.values())
        nums = [k for k, ty in params.items() if ty != "str"]
        strs = [k for k, ty in params.items() if ty == "str"]
        args = []
        for k, ty in params.items():
            if ty == "str":
                args.append(f"s{strs.index(k)}")
            else:
                i = nums.index(k)
                args.append({"fl": f"(x{i}.getD Fl.nan)", "optfl": f"x{i}", "bool": f"(Fl.truthyOpt x{i})"}[ty])
        pats = ", ".join(f"x{i}" for i in range(len(nums)))
        if has_str:
            spats = ", ".join(f"s{i}" for i in range(len(strs)))
            out.append(f"def ad_{name} : List String → List (Option Fl) → Option Bool\n  | [{spats}], [{pats}] => some ({name} {' '.join(args)})\n"
                       f"  | _, _ => none\n")
            entries_s.append(f'  ("{name}", ad_{name})')
        else:
            out.append(f"def ad_{name} : List (Option Fl) → Option Bool\n  | [{pats}] => some ({name} {' '.join(args)})\n  | _ => none\n")
            entries.append(f'  ("{name}", ad_{name})')
    out.append("def table : List (String × (List (Option Fl) → Option Bool)) := [\n" + ",\n".join(entries) + "]\n")
    out.append("def tableS : List (String × (List String → List (Option Fl) → Option Bool)) := [\n" + ",\n".join(entries_s) + "]\n")
    out.append("def exceptions : List (String × String) := [" + ", ".join(f'("{n}", "{e}")' for n, _, e in rows) + "]\n")
    out.append("end SV.Gen.Guards\n")
    st = write_if_changed("Guards", "\n".join(out))
    return {"status": st, "functions": status}
