"""Gen/Firm.lean — `_single_category_score` of FIRM (both threshold_assignment modes, discount_distance with Python
truthiness) and the per-cell part of `_risk_matrix_score` (C12)."""
import ast
import copy

from py2lean import Env, Unsupported, find_def, translate_function
from translate import HEADER, parse, write_if_changed

REL_FIRM = "src/scores/categorical/multicategorical_impl.py"
REL_RM = "src/scores/emerging/risk_matrix.py"


def _with_body(fn, stmts, value):
    g = copy.deepcopy(fn)
    g.body = [copy.deepcopy(s) for s in stmts] + [ast.Return(value=copy.deepcopy(value))]
    return ast.fix_missing_locations(g)


def _is_align(s):
    """`fcst, obs = xr.align(fcst, obs)` — alignment of equal label sets is the identity on labelled values"""
    return (isinstance(s, ast.Assign) and isinstance(s.targets[0], ast.Tuple)
            and ast.unparse(s) in ("fcst, obs = xr.align(fcst, obs)", "(fcst, obs) = xr.align(fcst, obs)"))


def _old_def(module, defname, signature):
    """fallback when a function leaves the translatable subset: keep the previously generated definition (tie T is then
    inapplicable for it and the differential correspondence carries the tie alone); a NaN stub if there is none"""
    import os
    import re
    from translate import GEN
    try:
        with open(os.path.join(GEN, module + ".lean")) as fh:
            old = fh.read()
    except OSError:
        old = ""
    m = re.search(r"((?:/--[^\n]*-/\n)?def " + re.escape(defname) + r" .*?)(?=\n\n|\Z)", old, flags=re.S)
    if m:
        return m.group(1).rstrip("\n") + "\n"
    return f"/-- STUB: translator inapplicable and no previous definition -/\ndef {defname} {signature} : Fl :=\n  SV.Fl.nan\n"


def gen_firm(tree, out, status):
    name = "_single_category_score"
    try:
        fn = find_def(tree, name)
        args = [a.arg for a in fn.args.args] + [a.arg for a in fn.args.kwonlyargs]
        if args != ["fcst", "obs", "risk_parameter", "categorical_threshold", "discount_distance", "threshold_assignment"]:
            raise Unsupported(f"unexpected signature {args}")
        stmts = []
        ds = None
        for s in fn.body:
            if isinstance(s, ast.Expr) and isinstance(s.value, ast.Constant):
                continue
            if _is_align(s):
                continue
            if isinstance(s, ast.Assign) and isinstance(s.value, ast.Call) and ast.unparse(s.value.func) == "xr.Dataset":
                ds = s.value.args[0]
                break
            stmts.append(s)
        if not isinstance(ds, ast.Dict):
            raise Unsupported("xr.Dataset({...}) not found")
        parts = {k.value: v for k, v in zip(ds.keys, ds.values)}
        if sorted(parts) != ["firm_score", "overforecast_penalty", "underforecast_penalty"]:
            raise Unsupported(f"unexpected result variables {sorted(parts)}")
        blocks = []
        for key, short in (("firm_score", "firm_score"), ("overforecast_penalty", "over_penalty"),
                           ("underforecast_penalty", "under_penalty")):
            env = Env()
            for n in ("fcst", "obs", "risk_parameter", "categorical_threshold", "discount_distance"):
                env.types[n] = "fl"; env.lean[n] = n
            env.types["threshold_assignment"] = "str"; env.lean["threshold_assignment"] = "threshold_assignment"
            body = translate_function(_with_body(fn, stmts, parts[key]), env)
            blocks.append(f"/-- `{name}` — data variable `{key}` -/\n"
                          f"def {short} (fcst obs risk_parameter categorical_threshold discount_distance : Fl) "
                          f"(threshold_assignment : String) : Fl :=\n{body}\n")
        out += blocks
        status[name] = "ok"
    except (Unsupported, KeyError) as u:
        status[name] = f"inapplicable: {u}"
        for short in ("firm_score", "over_penalty", "under_penalty"):
            out.append(_old_def("Firm", short, "(fcst obs risk_parameter categorical_threshold discount_distance : Fl) "
                                               "(threshold_assignment : String)"))


def gen_rm(tree, out, status):
    name = "_risk_matrix_score"
    try:
        fn = find_def(tree, name)
        stmts = []
        result_expr = None
        sum_call = None
        for s in fn.body:
            if isinstance(s, ast.Expr) and isinstance(s.value, ast.Constant):
                continue
            if isinstance(s, ast.Assign) and ast.unparse(s) == "da_thresholds = decision_weights[prob_threshold_dim]":
                continue  # per cell: the probability-threshold coordinate of the weight
            if isinstance(s, ast.Assign) and isinstance(s.targets[0], ast.Name) and s.targets[0].id == "result":
                if result_expr is None:
                    result_expr = s.value
                    continue
                sum_call = s.value
                continue
            if isinstance(s, ast.Return):
                continue
            stmts.append(s)
        if result_expr is None or sum_call is None:
            raise Unsupported("result statements not found")
        env = Env()
        for n in ("fcst", "obs", "da_thresholds", "decision_weights"):
            env.types[n] = "fl"; env.lean[n] = n
        env.types["threshold_assignment"] = "str"; env.lean["threshold_assignment"] = "threshold_assignment"
        body = translate_function(_with_body(fn, stmts, result_expr), env)
        cell_block = (f"/-- `{name}` — one (probability threshold, severity category) cell before the sum -/\n"
                      f"def rm_cell (fcst obs da_thresholds decision_weights : Fl) (threshold_assignment : String) : Fl :=\n{body}\n")
        # the reduction: result.sum([prob_threshold_dim, severity_dim], skipna=False)
        if not (isinstance(sum_call, ast.Call) and isinstance(sum_call.func, ast.Attribute) and sum_call.func.attr == "sum"
                and ast.unparse(sum_call.func.value) == "result"):
            raise Unsupported(f"unexpected reduction {ast.unparse(sum_call)}")
        dims = sorted(ast.unparse(e) for e in sum_call.args[0].elts) if sum_call.args else []
        if dims != ["prob_threshold_dim", "severity_dim"]:
            raise Unsupported(f"unexpected reduction dims {dims}")
        skipna = True
        for k in sum_call.keywords:
            if k.arg == "skipna":
                if not isinstance(k.value, ast.Constant):
                    raise Unsupported("skipna not constant")
                skipna = bool(k.value.value)
        out.append(cell_block)
        out.append(f"/-- `result.sum([prob_threshold_dim, severity_dim], skipna=…)` -/\n"
                   f"def rm_sum_skipna : Bool := {'true' if skipna else 'false'}\n")
        status[name] = "ok"
    except (Unsupported, KeyError, AttributeError) as u:
        status[name] = f"inapplicable: {u}"
        out.append(_old_def("Firm", "rm_cell", "(fcst obs da_thresholds decision_weights : Fl) (threshold_assignment : String)"))
        old = _old_def("Firm", "rm_sum_skipna", "")
        out.append(old if "STUB" not in old else "def rm_sum_skipna : Bool := false\n")


def generate():
    out = [HEADER.format(src=REL_FIRM + " + " + REL_RM, ns="Firm")]
    status = {}
    gen_firm(parse(REL_FIRM), out, status)
    gen_rm(parse(REL_RM), out, status)
    out.append("end SV.Gen.Firm\n")
    st = write_if_changed("Firm", "\n".join(out))
    return {"status": st, "functions": status}
