"""Gen/Roc.lean — the element-wise maps and the quotient of `binary_impl.probability_of_detection` /
`probability_of_false_detection`, their frame (which arrays get weights / are summed), and the call-site summary of
`roc_impl.roc_curve_data` (discretisation mode, what is passed to POD / POFD, the AUC expression) (C14)."""
import ast
import json

from py2lean import Env, Tx, Unsupported, find_def
from translate import HEADER, parse, write_if_changed


def lean_str_list(xs):
    return "[" + ", ".join(json.dumps(x) for x in xs) + "]"


def is_call_to(v, name):
    return isinstance(v, ast.Call) and isinstance(v.func, ast.Name) and v.func.id == name


def is_method(v, name):
    return isinstance(v, ast.Call) and isinstance(v.func, ast.Attribute) and v.func.attr == name


def gen_ratio_fn(tree, fname, prefix, out, status):
    """slice `fname` into: element-wise maps (up to apply_weights), frame statements, final quotient"""
    fn = find_def(tree, fname)
    env = Env()
    for nm in ("fcst", "obs"):
        env.types[nm] = "fl"
        env.lean[nm] = nm
    tx = Tx(env)
    lets, frame, summed = [], [], []
    maps_done = False
    quotient = None
    for s in fn.body:
        if isinstance(s, ast.Expr) and isinstance(s.value, ast.Constant):
            continue
        if isinstance(s, ast.If):           # `if check_args: check_binary(...)` — guard, belongs to C20
            frame.append("if " + ast.unparse(s.test) + ": " + "; ".join(ast.unparse(x) for x in s.body))
            continue
        if isinstance(s, ast.Return):
            frame.append(ast.unparse(s))
            continue
        if not (isinstance(s, ast.Assign) and isinstance(s.targets[0], ast.Name)):
            raise Unsupported(f"statement {ast.unparse(s)[:60]}")
        tgt, v = s.targets[0].id, s.value
        if is_call_to(v, "gather_dimensions"):
            frame.append(ast.unparse(s))
            continue
        if is_call_to(v, "apply_weights") or is_method(v, "sum"):
            if not maps_done:
                maps_done = True
            frame.append(ast.unparse(s))
            if is_method(v, "sum"):
                summed.append(tgt)
            continue
        if not maps_done:
            vs, vt = tx.expr(v)
            ln = tx.fresh(tgt)
            lets.append(f"  let {ln} := {vs}")
            env.types[tgt] = vt
            env.lean[tgt] = ln
            continue
        # after the sums: the quotient of the summed arrays
        env2 = Env()
        for nm in summed:
            env2.types[nm] = "fl"
            env2.lean[nm] = nm
        qs, qt = Tx(env2).expr(v)
        quotient = (tgt, qs, list(summed))
    names = []
    for nm in summed:
        if nm not in env.types:
            raise Unsupported(f"{nm} has no element-wise definition")
        val = tx.as_fl(env.lean[nm], env.types[nm])
        out.append(f"/-- element of `{nm}` before weighting and summation in `{fname}` -/\n"
                   f"def {prefix}_{nm} (fcst obs : Fl) : Fl :=\n" + "\n".join(lets) + f"\n  {val}\n")
        status[f"{prefix}_{nm}"] = "ok"
        names.append(nm)
    if quotient is None:
        raise Unsupported("no quotient statement")
    tgt, qs, args = quotient
    out.append(f"/-- `{tgt}` of `{fname}` from the summed arrays -/\n"
               f"def {prefix}_ratio ({' '.join(args)} : Fl) : Fl :=\n  {qs}\n")
    out.append(f"/-- the non element-wise statements of `{fname}`, in source order -/\n"
               f"def {prefix}_frame : List String := {lean_str_list(frame)}\n")
    status[f"{prefix}_ratio"] = "ok"
    status[f"{prefix}_frame"] = "ok"


def gen_callsite(tree, out, status):
    """semantic summary (data, not code) of how roc_curve_data wires discretise -> POD/POFD -> trapezoid"""
    fn = find_def(tree, "roc_curve_data")
    mode = disc_var = auc = None
    calls = {}
    for s in ast.walk(fn):
        if isinstance(s, ast.Assign) and isinstance(s.targets[0], ast.Name):
            t, v = s.targets[0].id, s.value
            if is_call_to(v, "binary_discretise") and len(v.args) >= 3:
                disc_var = t
                mode = ast.unparse(v.args[2])
                disc_data = ast.unparse(v.args[0])
                disc_thr = ast.unparse(v.args[1])
            elif is_call_to(v, "probability_of_detection") or is_call_to(v, "probability_of_false_detection"):
                calls[v.func.id] = (t, v)
            elif t == "auc":
                parts = []
                if isinstance(v, ast.BinOp) and isinstance(v.op, ast.Mult):
                    parts.append(ast.unparse(v.left) + " *")
                    v = v.right
                elif isinstance(v, ast.UnaryOp) and isinstance(v.op, ast.USub):
                    parts.append("-1 *")
                    v = v.operand
                if isinstance(v, ast.Call):
                    parts.append(ast.unparse(v.func).split(".")[-1] + "(" + ", ".join(ast.unparse(a) for a in v.args) + ")")
                else:
                    parts.append(ast.unparse(v))
                auc = " ".join(parts)
    if mode is None or auc is None or len(calls) != 2:
        raise Unsupported("roc_curve_data: call site not recognised")

    def wired(name, var):
        t, v = calls[name]
        kw = {k.arg: ast.unparse(k.value) for k in v.keywords}
        return (t == var and len(v.args) >= 2 and ast.unparse(v.args[0]) == disc_var and ast.unparse(v.args[1]) == "obs"
                and kw.get("weights") == "weights")
    b = lambda x: "true" if x else "false"
    out.append("/-- the relation handed to `binary_discretise(fcst, thresholds, <mode>)` by `roc_curve_data` -/")
    out.append(f"def roc_mode : String := {json.dumps(mode)}")
    out.append(f"def roc_discretises_fcst_at_thresholds : Bool := {b(disc_data == 'fcst' and disc_thr == 'thresholds')}")
    out.append("/-- `pod = probability_of_detection(<discretised fcst>, obs, ..., weights=weights)` and likewise `pofd` -/")
    out.append(f"def roc_pod_wired : Bool := {b(wired('probability_of_detection', 'pod'))}")
    out.append(f"def roc_pofd_wired : Bool := {b(wired('probability_of_false_detection', 'pofd'))}")
    out.append(f"def roc_auc : String := {json.dumps(auc)}\n")
    status["roc_callsite"] = "ok"


def generate():
    rel_b = "src/scores/categorical/binary_impl.py"
    rel_r = "src/scores/probability/roc_impl.py"
    out = [HEADER.format(src=rel_b + " and " + rel_r, ns="Roc")]
    status = {}
    tb = parse(rel_b)
    for fname, prefix in (("probability_of_detection", "pod"), ("probability_of_false_detection", "pofd")):
        try:
            gen_ratio_fn(tb, fname, prefix, out, status)
        except (Unsupported, KeyError) as u:
            status[prefix] = f"inapplicable: {u}"
    try:
        gen_callsite(parse(rel_r), out, status)
    except (Unsupported, KeyError) as u:
        status["roc_callsite"] = f"inapplicable: {u}"
    out.append("end SV.Gen.Roc\n")
    st = write_if_changed("Roc", "\n".join(out))
    return {"status": st, "functions": status}
