"""Gen/Contingency.lean — BasicContingencyManager metrics, BinaryContingencyManager maps,
ThresholdEventOperator threshold fallback (C09, C08)."""
import ast
import json

from py2lean import Env, Tx, Unsupported, find_def, translate_function
from translate import HEADER, parse, write_if_changed

# --------------------------------------------------------------------------- Contingency (C09, C08)
def generate():
    rel = "src/scores/categorical/contingency_impl.py"
    tree = parse(rel)
    cls = find_def(tree, "BasicContingencyManager")
    skip = {"__init__", "_make_xr_table", "__str__", "get_counts", "get_table", "format_table"}
    methods = {f.name: f for f in cls.body if isinstance(f, ast.FunctionDef) and f.name not in skip}
    params = "(logF : Fl → Fl) (tp tn fp fn total : Fl)"
    argstr = "logF tp tn fp fn total"
    sub_map = {"tp_count": ("tp", "fl"), "tn_count": ("tn", "fl"), "fp_count": ("fp", "fl"),
               "fn_count": ("fn", "fl"), "total_count": ("total", "fl")}
    emitted = []
    status = {}
    out = [HEADER.format(src=rel, ns="Contingency")]
    self_methods = {m: f"({m} {argstr})" for m in methods}

    def calls(fn):
        res = []
        for n in ast.walk(fn):
            if isinstance(n, ast.Call) and isinstance(n.func, ast.Attribute) and isinstance(n.func.value, ast.Name) \
                    and n.func.value.id == "self" and n.func.attr in methods:
                res.append(n.func.attr)
        return res

    def emit(name, stack=()):
        if name in emitted or name in status:
            return
        if name in stack:
            status[name] = "inapplicable: recursive"
            return
        fn = methods[name]
        for c in calls(fn):
            emit(c, stack + (name,))
        env = Env(sub_map=sub_map, self_methods=self_methods)
        try:
            body = translate_function(fn, env)
        except Unsupported as u:
            status[name] = f"inapplicable: {u}"
            return
        out.append(f"def {name} {params} : Fl :=\n{body}\n")
        emitted.append(name)
        status[name] = "ok"

    for m in methods:
        emit(m)
    out.append(f"def methodNames : List String := {json.dumps(emitted)}\n")
    tbl = ", ".join(f'("{m}", {m})' for m in emitted)
    out.append(f"def methodTable : List (String × ((Fl → Fl) → Fl → Fl → Fl → Fl → Fl → Fl)) := [{tbl}]\n")

    # the four boolean maps of BinaryContingencyManager.__init__ (pointwise in fcst/obs events)
    init = find_def(tree, "BinaryContingencyManager.__init__")
    env = Env()
    for nm in ("fcst_events", "obs_events"):
        env.types[nm] = "fl"; env.lean[nm] = nm
        env.types["self." + nm] = "fl"; env.lean["self." + nm] = nm
    tx = Tx(env)
    lets = []
    try:
        for s in init.body:
            if isinstance(s, ast.Assign) and isinstance(s.targets[0], ast.Attribute):
                key = ".".join(tx.attr_chain(s.targets[0]))
                if key in ("self.fcst_events", "self.obs_events", "self.counts"):
                    continue
                vs, vt = tx.expr(s.value)
                ln = tx.fresh(key)
                lets.append(f"  let {ln} := {vs}")
                env.types[key] = vt; env.lean[key] = ln
        for cell in ("tp", "tn", "fp", "fn"):
            v = tx.as_fl(env.lean["self." + cell], env.types["self." + cell])
            out.append(f"def map_{cell} (fcst_events obs_events : Fl) : Fl :=\n" + "\n".join(lets) + f"\n  {v}\n")
            status["map_" + cell] = "ok"
    except (Unsupported, KeyError) as u:
        status["maps"] = f"inapplicable: {u}"

    # ThresholdEventOperator: event tables (threshold fallback with Python truthiness)
    for meth in ("make_event_tables", "make_contingency_manager"):
        fn = find_def(tree, "ThresholdEventOperator." + meth)
        env = Env()
        env.types.update({"fcst": "fl", "obs": "fl", "event_threshold": "optfl", "self.default_event_threshold": "fl"})
        env.lean.update({"fcst": "fcst", "obs": "obs", "event_threshold": "event_threshold",
                         "self.default_event_threshold": "default_event_threshold"})
        try:
            thr = None
            for s in fn.body:
                if isinstance(s, ast.If) and isinstance(s.body[0], ast.Assign) \
                        and isinstance(s.body[0].targets[0], ast.Name) and s.body[0].targets[0].id == "event_threshold":
                    tx = Tx(env)
                    c = tx.as_bool(*tx.expr(s.test))
                    v, vt = tx.expr(s.body[0].value)
                    thr = f"if {c} then {v} else (event_threshold.getD SV.Fl.nan)"
            if thr is None:
                raise Unsupported("threshold fallback statement not found")
            out.append(f"/-- effective threshold used by `{meth}` -/\n"
                       f"def threshold_{meth} (default_event_threshold : Fl) (event_threshold : Option Fl) : Fl :=\n  {thr}\n")
            status["threshold_" + meth] = "ok"
        except Unsupported as u:
            status["threshold_" + meth] = f"inapplicable: {u}"

    out.append("end SV.Gen.Contingency\n")
    st = write_if_changed("Contingency", "\n".join(out))
    return {"status": st, "functions": status}


