"""Gen/Murphy.lean — the three Murphy elementary-score kernels and the combine block of
`murphy_score` (C11; reused by C12 for FIRM = sum of weighted elementary scores)."""
import ast
import copy

from py2lean import Env, Unsupported, find_def, translate_function
from translate import HEADER, parse, write_if_changed

REL = "src/scores/continuous/murphy_impl.py"
KERNELS = [("quantile", "_quantile_elementary_score"), ("huber", "_huber_elementary_score"),
           ("expectile", "_expectile_elementary_score")]
PARAMS = ["fcst", "obs", "theta", "alpha", "huber_a"]


def _env(names):
    env = Env()
    for n in names:
        env.types[n] = "fl"
        env.lean[n] = n
    return env


def _with_return(fn, stmts, value):
    """a copy of `fn` whose body is `stmts` followed by `return value`"""
    g = copy.deepcopy(fn)
    g.body = [copy.deepcopy(s) for s in stmts] + [ast.Return(value=copy.deepcopy(value))]
    return ast.fix_missing_locations(g)


def _old_def(module, defname, signature):
    """fallback when a function leaves the translatable subset: keep the previously generated definition (tie T is then
    inapplicable for it and the differential correspondence carries the tie alone); a NaN stub if there is none"""
    import os
    import re
    from translate import GEN
    try:
        with open(os.path.join(GEN, module + ".lean")) as fh:
            old = fh.read()
    except OSError:
        old = ""
    m = re.search(r"((?:/--[^\n]*-/\n)?def " + re.escape(defname) + r" .*?)(?=\n\n|\Z)", old, flags=re.S)
    if m:
        return m.group(1).rstrip("\n") + "\n"
    return f"/-- STUB: translator inapplicable and no previous definition -/\ndef {defname} {signature} : Fl :=\n  SV.Fl.nan\n"


def generate():
    tree = parse(REL)
    out = [HEADER.format(src=REL, ns="Murphy")]
    status = {}

    # ---- elementary scores: `return over, under` is emitted as two definitions
    for short, name in KERNELS:
        try:
            fn = find_def(tree, name)
            argnames = [a.arg for a in fn.args.args] + [a.arg for a in fn.args.kwonlyargs]
            if argnames[:4] != ["fcst", "obs", "theta", "alpha"] or any(a not in PARAMS for a in argnames):
                raise Unsupported(f"unexpected signature {argnames}")
            ret = fn.body[-1]
            if not (isinstance(ret, ast.Return) and isinstance(ret.value, ast.Tuple) and len(ret.value.elts) == 2):
                raise Unsupported("expected `return over, under`")
            blocks = []
            for part, elt in zip(("over", "under"), ret.value.elts):
                body = translate_function(_with_return(fn, fn.body[:-1], elt), _env(PARAMS))
                blocks.append(f"/-- `{name}` — {part}-forecast component -/\n"
                              f"def {short}_{part} (fcst obs theta alpha huber_a : Fl) : Fl :=\n{body}\n")
            out += blocks
            status[name] = "ok"
        except (Unsupported, KeyError) as u:
            status[name] = f"inapplicable: {u}"
            for part in ("over", "under"):
                out.append(_old_def("Murphy", f"{short}_{part}", "(fcst obs theta alpha huber_a : Fl)"))

    # ---- combine block of murphy_score: score / over / under as functions of (over, under, fcst1)
    try:
        ms = find_def(tree, "murphy_score")
        score_stmt = None
        decomp = None
        for s in ms.body:
            if isinstance(s, ast.Assign) and isinstance(s.targets[0], ast.Name) and s.targets[0].id == "score":
                score_stmt = s
            if isinstance(s, ast.If) and isinstance(s.test, ast.Name) and s.test.id == "decomposition":
                decomp = s
        if score_stmt is None or decomp is None:
            raise Unsupported("combine block not found")
        names = ["over", "under", "fcst1"]
        cblocks = []
        body = translate_function(_with_return(ms, [], score_stmt.value), _env(names))
        cblocks.append(f"/-- `murphy_score`: total = {ast.unparse(score_stmt.value)} -/\n"
                       f"def combine_total (over under fcst1 : Fl) : Fl :=\n{body}\n")
        found = {}
        for s in decomp.body:
            if isinstance(s, ast.Assign) and isinstance(s.targets[0], ast.Name) and s.targets[0].id in ("over", "under"):
                found[s.targets[0].id] = s
        # order of the two statements matters only if one reads the other's target: refuse that
        for k, s in found.items():
            other = "under" if k == "over" else "over"
            if any(isinstance(n, ast.Name) and n.id == other for n in ast.walk(s.value)):
                raise Unsupported("decomposition statements are coupled")
        for k in ("over", "under"):
            if k not in found:
                raise Unsupported(f"decomposition statement for {k} not found")
            body = translate_function(_with_return(ms, [], found[k].value), _env(names))
            cblocks.append(f"/-- `murphy_score` (decomposition): {k} = {ast.unparse(found[k].value)} -/\n"
                           f"def combine_{k} (over under fcst1 : Fl) : Fl :=\n{body}\n")
        # which variable goes under which name in the result
        srcs = nm = None
        for s in decomp.body:
            if isinstance(s, ast.AugAssign) and isinstance(s.target, ast.Name):
                if s.target.id == "sources":
                    srcs = [e.id for e in s.value.elts]
                if s.target.id == "names":
                    nm = [e.value for e in s.value.elts]
        if srcs is None or nm is None or sorted(zip(nm, srcs)) != [("overforecast", "over"), ("underforecast", "under")]:
            raise Unsupported(f"decomposition naming changed: {nm} <- {srcs}")
        out += cblocks
        status["murphy_score.combine"] = "ok"
    except (Unsupported, KeyError, AttributeError) as u:
        status["murphy_score.combine"] = f"inapplicable: {u}"
        for k in ("total", "over", "under"):
            out.append(_old_def("Murphy", f"combine_{k}", "(over under fcst1 : Fl)"))

    out.append("end SV.Gen.Murphy\n")
    st = write_if_changed("Murphy", "\n".join(out))
    return {"status": st, "functions": status}
