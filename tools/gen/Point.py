"""Gen/Point.lean — pointwise kernels of the point / interval scores (C05).

Translated literally from the current source tree:
  functions.angular_difference, functions.apply_weights,
  standard_impl.mse / mae / additive_bias (pointwise part incl. the `is_angular` branch),
  standard_impl.rmse (the root of mse), multiplicative_bias / pbias (final ratio, pbias error),
  standard_impl.kge (alpha, beta, the Euclidean-distance tail; the library calls producing
  rho / sigma / mu are recorded as source text in `kge_frame`),
  quantile_loss_impl.quantile_score (kernel + alpha guard),
  interval_impl.quantile_interval_score (four components + both guards),
  interval_impl.interval_score (guard, level arithmetic, delegation to quantile_interval_score),
  pandas/continuous.py (delegation text).
Slicing: docstrings, *frame* statements (check_dims / gather_dimensions / reduce_dims / preserve_dims),
`if …: raise` guards and everything from the first `apply_weights(...)` call on are cut away; what
remains is the kernel.  `.mean(dim=reduce_dims)` of a name X is replaced by the scalar `mean_X`
(the reduction itself lives in the hand model Model/PointScores.lean).
"""
import ast
import copy
import json

from py2lean import Env, Tx, Unsupported, find_def, guards, translate_function
from translate import HEADER, parse, write_if_changed

FRAME_NAMES = {"check_dims", "gather_dimensions", "reduce_dims", "preserve_dims", "specified_dims",
               "broadcast_and_match_nan", "_match_nan_per_variable"}


class Rewrite(ast.NodeTransformer):
    """source-level normalisations that keep the meaning of the pointwise expression"""

    def visit_Attribute(self, n):
        self.generic_visit(n)
        # scores.functions.f -> f
        if isinstance(n.value, ast.Attribute) and isinstance(n.value.value, ast.Name) \
                and n.value.value.id == "scores" and n.value.attr == "functions":
            return ast.copy_location(ast.Name(id=n.attr, ctx=ast.Load()), n)
        return n

    def visit_Call(self, n):
        self.generic_visit(n)
        f = n.func
        # X.mean(dim=reduce_dims) / X.mean(reduce_dims) -> mean_X     (the reduction is modelled by hand)
        if isinstance(f, ast.Attribute) and f.attr == "mean" and isinstance(f.value, ast.Name):
            a = [ast.unparse(x) for x in n.args] + [k.arg + "=" + ast.unparse(k.value) for k in n.keywords]
            if a in (["dim=reduce_dims"], ["reduce_dims"]):
                return ast.copy_location(ast.Name(id="mean_" + f.value.id, ctx=ast.Load()), n)
        # (pointwise bool).any() inside a guard -> the pointwise bool (raised iff true somewhere)
        if isinstance(f, ast.Attribute) and f.attr == "any" and not n.args and not n.keywords:
            return f.value
        return n


def names_in(node):
    return {x.id for x in ast.walk(node) if isinstance(x, ast.Name)} | \
           {x.attr for x in ast.walk(node) if isinstance(x, ast.Attribute)}


def is_docstring(s):
    return isinstance(s, ast.Expr) and isinstance(s.value, ast.Constant) and isinstance(s.value.value, str)


def is_guard(s):
    return isinstance(s, ast.If) and not s.orelse and all(isinstance(x, ast.Raise) for x in s.body)


def mentions_apply_weights(s):
    return "apply_weights" in names_in(s)


def kernel_stmts(fn, stop_at_apply_weights=True):
    """kernel slice of a public score function (see module docstring); returns (stmts, weighted_var)"""
    out = []
    weighted = None
    for s in fn.body:
        if is_docstring(s) or is_guard(s):
            continue
        if stop_at_apply_weights and mentions_apply_weights(s):
            call = next(x for x in ast.walk(s) if isinstance(x, ast.Call) and "apply_weights" in names_in(x.func))
            weighted = call.args[0]
            break
        if names_in(s) & FRAME_NAMES:
            continue
        out.append(s)
    return out, weighted


def synth(stmts, ret_expr):
    f = ast.FunctionDef(name="k", args=None, body=list(stmts) + [ast.Return(value=ret_expr)], decorator_list=[])
    return f


def env_of(**types):
    e = Env()
    for k, t in types.items():
        e.types[k] = t
        e.lean[k] = k
    return e


def sig(types):
    parts = []
    for k, t in types.items():
        parts.append(f"({k} : {'Fl' if t == 'fl' else 'Bool' if t == 'bool' else 'Option Fl'})")
    return " ".join(parts)


def generate():
    status = {}
    out = [HEADER.format(src="src/scores/functions.py, continuous/standard_impl.py, quantile_loss_impl.py, "
                             "interval_impl.py, pandas/continuous.py", ns="Point")]
    rw = Rewrite()

    def emit(name, params, body, ret="Fl", extra=""):
        out.append(f"def {name} {extra}{sig(params)} : {ret} :=\n{body}\n")
        status[name] = "ok"

    def attempt(name, thunk):
        try:
            thunk()
        except (Unsupported, KeyError, StopIteration, AttributeError, IndexError, TypeError) as u:
            status[name] = f"inapplicable: {type(u).__name__}: {u}"

    # ------------------------------------------------------------------ functions.py
    ftree = rw.visit(parse("src/scores/functions.py"))

    def g_angular():
        fn = find_def(ftree, "angular_difference")   # the last (non-overload) definition
        fns = [s for s in ftree.body if isinstance(s, ast.FunctionDef) and s.name == "angular_difference"]
        fn = fns[-1]
        p = {"source_a": "fl", "source_b": "fl"}
        emit("angular_difference", p, translate_function(fn, env_of(**p)))
    attempt("angular_difference", g_angular)

    def g_apply_weights():
        fn = copy.deepcopy(find_def(ftree, "apply_weights"))
        # `weights is not None` -> weights_present (Bool); inside the branch `weights` is the value
        class W(ast.NodeTransformer):
            def visit_Compare(self, n):
                if ast.unparse(n) == "weights is not None":
                    return ast.Name(id="weights_present", ctx=ast.Load())
                if ast.unparse(n) == "weights is None":
                    return ast.UnaryOp(op=ast.Not(), operand=ast.Name(id="weights_present", ctx=ast.Load()))
                return n
        fn = W().visit(fn)
        p = {"values": "fl", "weights": "fl", "weights_present": "bool"}
        emit("apply_weights", p, translate_function(fn, env_of(**p)))
    attempt("apply_weights", g_apply_weights)

    funcs = {"angular_difference": ("angular_difference", ["fl", "fl"], "fl")}

    # ------------------------------------------------------------------ standard_impl.py
    stree = rw.visit(parse("src/scores/continuous/standard_impl.py"))

    def pointwise(pyname, leanname, params):
        def go():
            fn = find_def(stree, pyname)
            stmts, weighted = kernel_stmts(fn)
            if weighted is None:
                raise Unsupported("no apply_weights call")
            e = env_of(**params)
            e.funcs = dict(funcs)
            emit(leanname, params, translate_function(synth(stmts, weighted), e))
        attempt(leanname, go)

    pointwise("mse", "mse_kernel", {"is_angular": "bool", "fcst": "fl", "obs": "fl"})
    pointwise("mae", "mae_kernel", {"is_angular": "bool", "fcst": "fl", "obs": "fl"})
    pointwise("additive_bias", "additive_bias_kernel", {"fcst": "fl", "obs": "fl"})

    def g_rmse():
        fn = find_def(stree, "rmse")
        root = None
        for s in fn.body:
            if isinstance(s, ast.Assign):
                v = s.value
                if isinstance(v, ast.Call) and isinstance(v.func, ast.Name) and v.func.id == "pow" and len(v.args) == 2:
                    base, ex = v.args
                elif isinstance(v, ast.BinOp) and isinstance(v.op, ast.Pow):
                    base, ex = v.left, v.right
                elif isinstance(v, ast.Call) and ast.unparse(v.func) == "np.sqrt":
                    base, ex = v.args[0], ast.Constant(value=0.5)
                else:
                    continue
                if not (isinstance(base, ast.Name) and base.id == "_mse"):
                    raise Unsupported(f"root of {ast.unparse(base)}")
                exv = eval(compile(ast.Expression(ex), "<rmse>", "eval"), {"__builtins__": {}})
                if exv != 0.5:
                    raise Unsupported(f"rmse exponent {exv}")
                root = True
        mse_call = [s for s in fn.body if isinstance(s, ast.Assign) and ast.unparse(s.targets[0]) == "_mse"]
        if not root or not mse_call:
            raise Unsupported("rmse is not a square root of mse(...)")
        out.append("def rmse_of_mse (sqrtF : Fl → Fl) (mse : Fl) : Fl := sqrtF mse\n")
        out.append(f"def rmse_delegate : String := {json.dumps(ast.unparse(mse_call[0].value))}\n")
        status["rmse_of_mse"] = "ok"
    attempt("rmse_of_mse", g_rmse)

    def g_mean_error():
        fn = find_def(stree, "mean_error")
        ret = next(s for s in fn.body if isinstance(s, ast.Return))
        out.append(f"def mean_error_delegate : String := {json.dumps(ast.unparse(ret.value))}\n")
        status["mean_error_delegate"] = "ok"
    attempt("mean_error_delegate", g_mean_error)

    def ratio(pyname, leanname, target, params, pre=()):
        def go():
            fn = find_def(stree, pyname)
            stmts = [s for s in fn.body if isinstance(s, ast.Assign) and isinstance(s.targets[0], ast.Name)
                     and s.targets[0].id in (target,) + tuple(pre)]
            weighting = [ast.unparse(s) for s in fn.body if mentions_apply_weights(s) or "broadcast_and_match_nan" in names_in(s)
                         or "_match_nan_per_variable" in names_in(s)]
            emit(leanname, params, translate_function(synth([s for s in stmts if s.targets[0].id == target],
                                                            ast.Name(id=target, ctx=ast.Load())), env_of(**params)))
            out.append(f"def {leanname}_frame : List String := {lean_strs(weighting)}\n")
        attempt(leanname, go)

    def lean_strs(xs):
        return "[" + ", ".join(json.dumps(x) for x in xs) + "]"

    ratio("multiplicative_bias", "multiplicative_bias_ratio", "multi_bias", {"mean_fcst": "fl", "mean_obs": "fl"})
    ratio("pbias", "pbias_ratio", "_pbias", {"mean_error": "fl", "mean_obs": "fl"})

    def g_match_nan():
        """`_match_nan_per_variable`: after `xr.broadcast` everything is element-wise (and, for Datasets, per variable)"""
        fn = find_def(stree, "_match_nan_per_variable")
        body = [s for s in fn.body if not (isinstance(s, ast.Expr) and isinstance(s.value, ast.Constant))]
        if not (isinstance(body[0], ast.Assign) and ast.unparse(body[0].value) == "xr.broadcast(fcst, obs)"
                and ast.unparse(body[0].targets[0]) in ("(fcst, obs)", "fcst, obs")):
            raise Unsupported("first statement is not `fcst, obs = xr.broadcast(fcst, obs)`")
        ret = body[-1].value
        if not (isinstance(ret, ast.Tuple) and len(ret.elts) == 2):
            raise Unsupported("does not return the pair (fcst, obs)")
        emit("match_nan_fcst", {"fcst": "fl", "obs": "fl"}, translate_function(synth(body[1:-1], ret.elts[0]), env_of(fcst="fl", obs="fl")))
        emit("match_nan_obs", {"fcst": "fl", "obs": "fl"}, translate_function(synth(body[1:-1], ret.elts[1]), env_of(fcst="fl", obs="fl")))
    attempt("match_nan", g_match_nan)

    def g_pbias_error():
        fn = find_def(stree, "pbias")
        s = next(s for s in fn.body if isinstance(s, ast.Assign) and ast.unparse(s.targets[0]) == "error")
        p = {"fcst": "fl", "obs": "fl"}
        emit("pbias_error", p, translate_function(synth([s], ast.Name(id="error", ctx=ast.Load())), env_of(**p)))
    attempt("pbias_error", g_pbias_error)

    def g_kge():
        fn = find_def(stree, "kge")
        assigns = {s.targets[0].id: s for s in fn.body if isinstance(s, ast.Assign) and isinstance(s.targets[0], ast.Name)}
        frame = [(k, ast.unparse(assigns[k].value)) for k in ("rho", "sigma_fcst", "sigma_obs", "mu_fcst", "mu_obs")]
        unpack = [ast.unparse(s) for s in fn.body if isinstance(s, ast.Assign) and isinstance(s.targets[0], ast.Tuple)]
        default = [ast.unparse(s.value) for s in ast.walk(fn) if isinstance(s, ast.Assign)
                   and ast.unparse(s.targets[0]) == "scaling_factors"]
        p = {"rho": "fl", "sigma_fcst": "fl", "sigma_obs": "fl", "mu_fcst": "fl", "mu_obs": "fl",
             "s_rho": "fl", "s_alpha": "fl", "s_beta": "fl"}
        for tgt, upto in (("alpha", ["alpha"]), ("beta", ["beta"]), ("kge_s", ["alpha", "beta", "ed_s", "kge_s"])):
            stmts = [assigns[k] for k in upto]
            body = translate_function(synth(stmts, ast.Name(id=tgt, ctx=ast.Load())), env_of(**p))
            emit("kge_" + tgt.replace("kge_s", "value"), p, body, extra="(sqrtF : Fl → Fl) ")
        out.append("def kge_frame : List (String × String) := [" +
                   ", ".join(f"({json.dumps(k)}, {json.dumps(v)})" for k, v in frame) + "]\n")
        out.append(f"def kge_unpack : List String := {lean_strs(unpack + default)}\n")
    attempt("kge_value", g_kge)

    # ------------------------------------------------------------------ quantile_loss_impl.py
    qtree = rw.visit(parse("src/scores/continuous/quantile_loss_impl.py"))

    def g_quantile():
        fn = find_def(qtree, "quantile_score")
        stmts, weighted = kernel_stmts(fn)
        if weighted is None:
            raise Unsupported("no apply_weights call")
        p = {"alpha": "fl", "fcst": "fl", "obs": "fl"}
        emit("quantile_kernel", p, translate_function(synth(stmts, weighted), env_of(**p)))
        gs = guards(fn, env_of(alpha="fl"))
        conds = [c for c, exc, src in gs if c is not None]
        if len(conds) != len(gs):
            raise Unsupported("guard: " + "; ".join(src for c, exc, src in gs if c is None))
        out.append("def quantile_score_guard (alpha : Fl) : Bool :=\n  " + (" || ".join(conds) or "false") + "\n")
        out.append(f"def quantile_score_guard_exc : List String := {lean_strs([exc or '?' for c, exc, src in gs])}\n")
        status["quantile_score_guard"] = "ok"
    attempt("quantile_kernel", g_quantile)

    # ------------------------------------------------------------------ interval_impl.py
    itree = rw.visit(parse("src/scores/continuous/interval_impl.py"))
    QP = {"fcst_lower_qtile": "fl", "fcst_upper_qtile": "fl", "obs": "fl", "lower_qtile_level": "fl",
          "upper_qtile_level": "fl"}
    comps = []

    def g_qis():
        fn = find_def(itree, "quantile_interval_score")
        stmts, weighted = kernel_stmts(fn)
        comp_assign = next(s for s in stmts if isinstance(s, ast.Assign) and isinstance(s.value, ast.Dict))
        idx = stmts.index(comp_assign)
        pre = stmts[:idx]
        # the dict handed to xr.Dataset must be the one weighted and averaged
        post = [ast.unparse(s) for s in stmts[idx + 1:]] + [ast.unparse(weighted)]
        for k, v in zip(comp_assign.value.keys, comp_assign.value.values):
            key = k.value
            emit("qis_" + key, QP, translate_function(synth(pre, v), env_of(**QP)))
            comps.append(key)
        out.append(f"def qis_components : List String := {lean_strs(comps)}\n")
        out.append(f"def qis_frame : List String := {lean_strs(post)}\n")
        gl = guards(fn, env_of(**QP))
        if any(c is None for c, exc, src in gl) or len(gl) != 2:
            raise Unsupported("guards: " + "; ".join(src for c, exc, src in gl))
        out.append("/-- level guard (parameters only) -/\n"
                   f"def qis_level_guard (lower_qtile_level upper_qtile_level : Fl) : Bool :=\n  {gl[0][0]}\n")
        out.append("/-- data guard, pointwise: the function raises iff this holds for some element (`.any()`) -/\n"
                   f"def qis_order_guard (fcst_lower_qtile fcst_upper_qtile : Fl) : Bool :=\n  {gl[1][0]}\n")
        out.append(f"def qis_guard_exc : List String := {lean_strs([exc or '?' for c, exc, src in gl])}\n")
        status["qis_guards"] = "ok"
    attempt("qis", g_qis)

    def g_interval():
        fn = find_def(itree, "interval_score")
        gl = guards(fn, env_of(interval_range="fl"))
        if any(c is None for c, exc, src in gl):
            raise Unsupported("guards: " + "; ".join(src for c, exc, src in gl))
        out.append("def interval_score_guard (interval_range : Fl) : Bool :=\n  " +
                   (" || ".join(c for c, exc, src in gl) or "false") + "\n")
        call = next(x for x in ast.walk(fn) if isinstance(x, ast.Call) and ast.unparse(x.func) == "quantile_interval_score")
        IP = {"fcst_lower_qtile": "fl", "fcst_upper_qtile": "fl", "obs": "fl", "interval_range": "fl"}
        kw = {k.arg: k.value for k in call.keywords}
        order = list(QP)
        for i, a in enumerate(call.args):
            kw[order[i]] = a
        tx = Tx(env_of(**IP))
        vals = {k: tx.as_fl(*tx.expr(kw[k])) for k in order}
        emit("interval_lower_level", {"interval_range": "fl"}, "  " + Tx(env_of(interval_range="fl")).expr(kw["lower_qtile_level"])[0])
        emit("interval_upper_level", {"interval_range": "fl"}, "  " + Tx(env_of(interval_range="fl")).expr(kw["upper_qtile_level"])[0])
        for key in comps:
            emit("interval_" + key, IP, "  (qis_" + key + " " + " ".join(vals[k] for k in order) + ")")
        rest = sorted(k for k in kw if k not in order)
        out.append(f"def interval_delegate_frame : List String := {lean_strs([k + '=' + ast.unparse(kw[k]) for k in rest])}\n")
        status["interval_score_guard"] = "ok"
    attempt("interval_score", g_interval)

    # ------------------------------------------------------------------ pandas/continuous.py
    def g_pandas():
        ptree = parse("src/scores/pandas/continuous.py")
        rows = []
        for nm in ("mse", "rmse", "mae"):
            fn = find_def(ptree, nm)
            ret = next(s for s in fn.body if isinstance(s, ast.Return))
            rows.append((nm, ast.unparse(ret.value)))
        out.append("def pandas_delegates : List (String × String) := [" +
                   ", ".join(f"({json.dumps(k)}, {json.dumps(v)})" for k, v in rows) + "]\n")
        status["pandas_delegates"] = "ok"
    attempt("pandas_delegates", g_pandas)

    out.append("end SV.Gen.Point\n")
    st = write_if_changed("Point", "\n".join(out))
    return {"status": st, "functions": status}
