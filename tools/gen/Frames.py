"""Gen/Frames.lean — the dimension / weights *frame* of every function that calls gather_dimensions (C01, C03):
which dims it hands over, whether the caller's reduce_dims / preserve_dims / weights dims are passed through,
whether the result is what the reduction uses, and whether weights are applied before that reduction.
Facts are read from the AST of every module under src/scores on every run (tie T for the cross-cutting properties)."""
import ast
import os

from translate import HEADER, REPO, write_if_changed


def src(n):
    return ast.unparse(n)


def lean_str(s):
    return '"' + s.replace("\\", "\\\\").replace('"', '\\"') + '"'


def analyse(fn: ast.FunctionDef, modname: str):
    params = [a.arg for a in fn.args.args + fn.args.kwonlyargs]
    sites = []
    body_nodes = list(ast.walk(fn))
    for node in body_nodes:
        if not isinstance(node, ast.Assign):
            continue
        call = node.value
        if not (isinstance(call, ast.Call) and (
                (isinstance(call.func, ast.Attribute) and call.func.attr == "gather_dimensions") or
                (isinstance(call.func, ast.Name) and call.func.id == "gather_dimensions"))):
            continue
        tgt = src(node.targets[0])
        args = [src(a) for a in call.args]
        kw = {k.arg: src(k.value) for k in call.keywords}

        def dims_of_param(t):
            if t.endswith(".dims") and t[:-5] in params:
                return t[:-5]
            return ""
        p0 = dims_of_param(args[0]) if args else ""
        p1 = dims_of_param(args[1]) if len(args) > 1 else ""
        # reductions that use the result
        red = []
        receivers = []
        for n in body_nodes:
            if isinstance(n, ast.Call) and isinstance(n.func, ast.Attribute) and n.func.attr in ("mean", "sum"):
                dimarg = None
                for k in n.keywords:
                    if k.arg == "dim":
                        dimarg = src(k.value)
                if dimarg is None and n.args:
                    dimarg = src(n.args[0])
                if dimarg == tgt:
                    red.append(n.func.attr)
                    receivers.append(src(n.func.value))
            if isinstance(n, ast.Call) and src(n.func) in ("xr.corr",) and any(src(a) == tgt for a in n.args):
                red.append("corr")
        used = bool(red) or any(isinstance(n, ast.Name) and n.id == tgt and isinstance(n.ctx, ast.Load) for n in body_nodes)
        # weights: apply_weights(X, weights=weights) whose assigned name is the receiver of such a reduction
        has_w = "weights" in params
        w_targets = []
        for n in body_nodes:
            if isinstance(n, ast.Assign) and isinstance(n.value, ast.Call) and src(n.value.func).endswith("apply_weights"):
                if any(k.arg == "weights" and src(k.value) == "weights" for k in n.value.keywords):
                    w_targets.append(src(n.targets[0]))
        chained = any("apply_weights(" in r and "weights=weights" in r for r in receivers)   # apply_weights(...).mean(dim=…)
        w_before = chained or (bool(w_targets) and (any(r.split(".")[0].split("[")[0] in w_targets for r in receivers) or
                                                    (not receivers and bool(w_targets))))
        # weights handed on to another public score instead (roc_curve_data -> POD/POFD)
        w_forward = any(isinstance(n, ast.Call) and any(k.arg == "weights" and src(k.value) == "weights" for k in n.keywords)
                        and not src(n.func).endswith("apply_weights") for n in body_nodes)
        sites.append({
            "site": f"{modname}.{fn.name}", "line": node.lineno, "arg0": args[0] if args else "", "arg1": args[1] if len(args) > 1 else "",
            "p0": p0, "p1": p1, "passes_reduce": kw.get("reduce_dims") == "reduce_dims", "passes_preserve": kw.get("preserve_dims") == "preserve_dims",
            "passes_weights_dims": "weights_dims" in kw, "passes_specific": "score_specific_fcst_dims" in kw,
            "result_used": used, "reductions": sorted(set(red)), "has_weights": has_w,
            "weights_before_reduction": w_before, "weights_forwarded": w_forward and not w_targets,
            "n_weight_calls": len(w_targets),
        })
    return sites


def generate():
    root = os.path.join(REPO, "src", "scores")
    sites = []
    for d, _, fs in sorted(os.walk(root)):
        for f in sorted(fs):
            if not f.endswith(".py"):
                continue
            path = os.path.join(d, f)
            mod = os.path.relpath(path, os.path.join(REPO, "src"))[:-3].replace(os.sep, ".")
            try:
                tree = ast.parse(open(path).read())
            except SyntaxError:
                continue
            for n in ast.walk(tree):
                if isinstance(n, ast.FunctionDef) and n.name != "gather_dimensions":
                    sites += analyse(n, mod)
    sites.sort(key=lambda s: (s["site"], s["line"]))
    out = [HEADER.format(src="every module under src/scores (call sites of gather_dimensions)", ns="Frames")]
    out.append("""structure Site where
  site : String
  arg0 : String            -- source text of the first positional argument of gather_dimensions
  arg1 : String
  p0 : String              -- parameter whose `.dims` is arg0 ("" if arg0 is not `<parameter>.dims`)
  p1 : String
  passesReduce : Bool      -- reduce_dims=reduce_dims
  passesPreserve : Bool    -- preserve_dims=preserve_dims
  passesWeightsDims : Bool
  passesSpecific : Bool
  resultUsed : Bool        -- the returned set is what the reduction (mean / sum / corr) or later code uses
  reductions : List String
  hasWeights : Bool        -- the function has a `weights` parameter
  weightsBeforeReduction : Bool  -- apply_weights(..., weights=weights) feeds the value that is then reduced
  weightsForwarded : Bool  -- weights handed to another public score instead
  deriving Repr, DecidableEq
""")
    rows = []
    for s in sites:
        b = lambda v: "true" if v else "false"
        rows.append("  { site := %s, arg0 := %s, arg1 := %s, p0 := %s, p1 := %s, passesReduce := %s, passesPreserve := %s, "
                    "passesWeightsDims := %s, passesSpecific := %s, resultUsed := %s, reductions := [%s], hasWeights := %s, "
                    "weightsBeforeReduction := %s, weightsForwarded := %s }" % (
                        lean_str(s["site"]), lean_str(s["arg0"]), lean_str(s["arg1"]), lean_str(s["p0"]), lean_str(s["p1"]),
                        b(s["passes_reduce"]), b(s["passes_preserve"]), b(s["passes_weights_dims"]), b(s["passes_specific"]),
                        b(s["result_used"]), ", ".join(lean_str(r) for r in s["reductions"]), b(s["has_weights"]),
                        b(s["weights_before_reduction"]), b(s["weights_forwarded"])))
    out.append("def sites : List Site := [\n" + ",\n".join(rows) + "\n]\n")
    out.append("end SV.Gen.Frames\n")
    st = write_if_changed("Frames", "\n".join(out))
    return {"status": st, "functions": {s["site"]: "ok" for s in sites}}
