"""Gen/ThresholdWeighted.lean — the auxiliary functions g, phi, phi' of the rectangular / trapezoidal
threshold weights (`threshold_weighted_impl._g_j_rect` ... `_phi_j_prime_trap`), the pointwise kernels of
`consistent_impl.consistent_{quantile,expectile,huber}_score` (higher order in g / phi / phi': the function
arguments become Lean function parameters), the 0.5 / 2 rescalings of the five `tw_*` wrappers and the two
parameter guards (C10).

Slicing (DESIGN §4.1): of a public score only the *kernel* is translated — the statements up to (excluding)
`apply_weights`; `check_*` calls, `gather_dimensions`, `apply_weights`, `.mean(dim=...)` and the keyword arguments
`reduce_dims / preserve_dims / weights` are the frame.  `_auxiliary_funcs` is not translated (hand model
`Model/ThresholdWeighted.lean`, tie X)."""
import ast

from py2lean import Env, Unsupported, find_def, guards, translate_function
from translate import HEADER, parse, write_if_changed

TW = "src/scores/continuous/threshold_weighted_impl.py"
CONS = "src/scores/continuous/consistent_impl.py"
FUNC_PARAMS = ("phi", "phi_prime", "g")
FRAME_KW = ("reduce_dims", "preserve_dims", "weights")
FRAME_CALLS = ("gather_dimensions", "check_alpha", "check_huber_param", "_check_tws_args", "_auxiliary_funcs")


def _positional(fn: ast.FunctionDef):
    return [a.arg for a in fn.args.args]


def _sig(names):
    """lean binder text and the py2lean argument types for a python parameter list"""
    binders, types = [], []
    for n in names:
        if n in FUNC_PARAMS:
            binders.append(f"({n} : Fl → Fl)")
            types.append("fn")
        else:
            binders.append(f"({n} : Fl)")
            types.append("fl")
    return " ".join(binders), types


def _env(names, funcs):
    env = Env(funcs=dict(funcs))
    for n in names:
        if n in FUNC_PARAMS:
            env.funcs[n] = (n, ["fl"], "fl")      # phi(obs) -> (phi obs)
            env.types[n] = "fn"                    # passing phi on to another function
            env.lean[n] = n
        else:
            env.types[n] = "fl"
            env.lean[n] = n
    return env


def _call_name(node):
    if isinstance(node, ast.Call):
        f = node.func
        if isinstance(f, ast.Name):
            return f.id
        if isinstance(f, ast.Attribute):
            return f.attr
    return None


def _kernel_body(fn: ast.FunctionDef):
    """statements of a consistent_*_score up to (excluding) apply_weights, then `return result`"""
    body = []
    for s in fn.body:
        if isinstance(s, ast.Expr) and isinstance(s.value, ast.Constant):
            continue
        if isinstance(s, ast.Expr) and _call_name(s.value) in FRAME_CALLS:
            continue
        if isinstance(s, ast.Assign) and _call_name(s.value) in FRAME_CALLS:
            continue
        if isinstance(s, ast.Assign) and _call_name(s.value) == "apply_weights":
            tgt = s.value.args[0]
            body.append(ast.Return(value=tgt))
            return body
        body.append(s)
    raise Unsupported("no apply_weights call: the kernel / frame split is not recognisable")


class _StripFrameKw(ast.NodeTransformer):
    def visit_Call(self, node):
        self.generic_visit(node)
        node.keywords = [k for k in node.keywords if k.arg not in FRAME_KW]
        return node


def _wrapper_body(fn: ast.FunctionDef):
    """the `return <rescaling> * consistent_*_score(...)` of a tw_* wrapper, frame keywords removed"""
    out = []
    for s in fn.body:
        if isinstance(s, ast.Expr) and (isinstance(s.value, ast.Constant) or _call_name(s.value) in FRAME_CALLS):
            continue
        if isinstance(s, ast.Assign) and _call_name(s.value) in FRAME_CALLS:
            continue
        if isinstance(s, ast.Return):
            out.append(_StripFrameKw().visit(s))
            return out
        raise Unsupported(f"statement in wrapper: {ast.unparse(s)[:60]}")
    raise Unsupported("wrapper without return")


def generate():
    tw = parse(TW)
    cons = parse(CONS)
    out = [HEADER.format(src=TW + " and " + CONS, ns="ThresholdWeighted")]
    status = {}
    funcs = {}          # python name -> (lean name, arg types, ret) for calls between translated functions

    def emit(pyname, lean, names, body_stmts, ret="fl"):
        binders, types = _sig(names)
        env = _env(names, funcs)
        fn = ast.FunctionDef(name=pyname, args=None, body=body_stmts, decorator_list=[])
        try:
            body = translate_function(fn, env, ret=ret)
        except Unsupported as u:
            status[lean] = f"inapplicable: {u}"
            return
        out.append(f"def {lean} {binders} : Fl :=\n{body}\n")
        funcs[pyname] = (lean, types, "fl")
        status[lean] = "ok"

    # 1. auxiliary functions of the two weight shapes
    for py in ("_g_j_rect", "_phi_j_rect", "_phi_j_prime_rect", "_g_j_trap", "_phi_j_trap", "_phi_j_prime_trap"):
        try:
            fn = find_def(tw, py)
        except KeyError:
            status[py[1:]] = "inapplicable: function not found"
            continue
        emit(py, py[1:], _positional(fn), fn.body)

    # 2. pointwise kernels of the consistent scoring functions
    for py in ("consistent_quantile_score", "consistent_expectile_score", "consistent_huber_score"):
        try:
            fn = find_def(cons, py)
            emit(py, py, _positional(fn), _kernel_body(fn))
        except (KeyError, Unsupported) as u:
            status[py] = f"inapplicable: {u}"

    # 3. the five wrappers: which consistent score, which alpha, which rescaling.  The wrapper obtains
    #    (g, phi, phi') from `_auxiliary_funcs`; here they are parameters.
    needs = {"tw_squared_error": ("phi", "phi_prime"), "tw_absolute_error": ("g",), "tw_quantile_score": ("g",),
             "tw_expectile_score": ("phi", "phi_prime"), "tw_huber_loss": ("phi", "phi_prime")}
    for py, fparams in needs.items():
        try:
            fn = find_def(tw, py)
            names = [n for n in _positional(fn) if n != "interval_where_one"] + list(fparams)
            emit(py, py, names, _wrapper_body(fn))
        except (KeyError, Unsupported) as u:
            status[py] = f"inapplicable: {u}"

    # 4. parameter guards
    for py, par in (("check_alpha", "alpha"), ("check_huber_param", "huber_param")):
        try:
            fn = find_def(cons, py)
            gs = guards(fn, _env([par], {}))
            conds = [c for c, exc, _ in gs if c is not None and exc == "ValueError"]
            if len(conds) != len(gs) or not conds:
                raise Unsupported("guard outside the supported subset")
            out.append(f"/-- `{py}` raises ValueError -/\ndef {py}_raises ({par} : Fl) : Bool :=\n  " + " || ".join(conds) + "\n")
            status[py + "_raises"] = "ok"
        except (KeyError, Unsupported) as u:
            status[py + "_raises"] = f"inapplicable: {u}"

    out.append("end SV.Gen.ThresholdWeighted\n")
    st = write_if_changed("ThresholdWeighted", "\n".join(out))
    return {"status": st, "functions": status}
