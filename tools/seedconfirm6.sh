#!/bin/bash
# confirm each seeded change myself in /tmp/seedeval: suite green with it, demo fails with it, demo passes without it;
# then store it as seeded/<id>-m<k>/{patch.diff, demo.py, meta.json}
cd "$(dirname "$0")/.."
WT=${SEEDEVAL_WT:-/tmp/seedeval}
for d in /tmp/seed6/C*; do
  id=$(basename $d)
  for k in 1 2; do
    m=$d/out/m$k.diff; [ -f "$m" ] && [ -f "$d/out/m$k.json" ] || continue
    out=seeded/$id-r6-m$k; [ -f "$out/meta.json" ] && continue
    git -C $WT checkout -q -- .
    (git -C $WT apply "$m" 2>/dev/null || (cd $WT && patch -s -p1 --fuzz=3 --no-backup-if-mismatch < "$m")) || { echo "$id m$k APPLY-FAILED"; continue; }
    tests=$(cd $WT && PYTHONPATH=$WT/src /venv/bin/python -m pytest -q -p no:cacheprovider -n 8 tests 2>&1 | tail -1)
    (cd $WT && PYTHONPATH=$WT/src /venv/bin/python $d/out/m${k}_demo.py > /tmp/demo_mut.txt 2>&1); rc_mut=$?
    (cd $WT && git diff) > /tmp/patch_rebased.diff
    git -C $WT checkout -q -- .
    (cd $WT && PYTHONPATH=$WT/src /venv/bin/python $d/out/m${k}_demo.py > /tmp/demo_clean.txt 2>&1); rc_clean=$?
    mkdir -p $out
    cp /tmp/patch_rebased.diff $out/patch.diff; cp $d/out/m${k}_demo.py $out/demo.py
    python3 - "$d/out/m$k.json" "$out/meta.json" "$tests" "$rc_mut" "$rc_clean" "$id/m$k.diff" <<'PY'
import json,sys,re
src,dst,tests,rc_mut,rc_clean,key=sys.argv[1:7]
m=json.load(open(src))
res=[l.strip() for l in open('seeded/results6.txt') if l.startswith(key+' ')]
meta={"property":m.get("property"),"file":m.get("file"),"function":m.get("function"),"what":m.get("what"),
      "needs_to_manifest":m.get("needs"),
      "confirmed_by_lead":{"worktree":"/tmp/seedeval (git worktree of /repo HEAD, outside /repo and /verif)",
        "test_suite_with_change":tests,"demo_exit_with_change":int(rc_mut),"demo_exit_without_change":int(rc_clean),
        "commands":["git apply patch.diff","PYTHONPATH=<wt>/src /venv/bin/python -m pytest -q -p no:cacheprovider -n 8 tests","PYTHONPATH=<wt>/src /venv/bin/python demo.py","git checkout -- . && demo.py again"]},
      "first_pass_check_results":res}
json.dump(meta,open(dst,'w'),indent=1)
PY
    echo "$id m$k tests=[$tests] demo_mut=$rc_mut demo_clean=$rc_clean"
  done
done
