#!/bin/bash
# tools/runall.sh [tier] [seed] — run every claimed check once, print one summary line per property
cd "$(dirname "$0")/.."
tier=${1:-quick}; seed=${2:-0}
for p in $(python3 -c "import json;print(' '.join(c['property_id'] for c in json.load(open('MANIFEST.json'))['checks']))"); do
  out=$(VERIF_SEED=$seed timeout 3600 ./check $p --tier $tier 2>&1); rc=$?
  echo "$p rc=$rc $(echo "$out" | grep -c '^VIOLATION') violations; $(echo "$out" | tail -1 | cut -c1-160)"
  echo "$out" | grep '^VIOLATION\|MACHINERY' | head -3
done
