"""
Function registry for the cross-cutting properties C01–C04: every public score that takes
reduce_dims / preserve_dims (and the contingency manager's transform), with a uniform way to
generate labelled inputs for it and to call it.  Cross-checked against the live signatures on
every run (`audit_registry`).
"""
from __future__ import annotations

import importlib
import inspect
import math
from dataclasses import dataclass, field

import numpy as np
import xarray as xr

NAN = float("nan")


def fresh(s: str) -> str:
    """an equal but not identical str object (exposes identity comparisons on names)"""
    return "".join([s[:1], s[1:]])


# ----------------------------------------------------------------------------- value pools
def draw(rng, domain, tie_with=None):
    if tie_with is not None and rng.random() < 0.45:
        return tie_with
    if domain == "real":
        return rng.randint(-24, 24) / 4
    if domain == "pos":
        return rng.randint(1, 32) / 4
    if domain == "prob":
        return rng.choice([0, 0.125, 0.25, 0.375, 0.5, 0.625, 0.75, 0.875, 1])
    if domain in ("binary", "bool"):
        return float(rng.choice([0, 1]))
    if domain == "cdfobs":      # observations inside the threshold grid 10..13 of the CDF entries
        return rng.choice([10.0, 10.5, 11.0, 11.25, 12.0, 12.75, 13.0])
    if domain == "angle":
        return float(rng.choice([0, 45, 90, 135, 180, 225, 270, 315, 350, 360, 400, -30]))
    raise ValueError(domain)


def make_array(rng, dims, sizes, domain, like=None, nan_p=0.0):
    shape = [sizes[d] for d in dims]
    n = int(np.prod(shape)) if shape else 1
    flat_like = None
    if like is not None and domain in ("real", "angle"):
        flat_like = np.asarray(like.broadcast_like(xr.DataArray(np.zeros(shape), dims=dims)).transpose(*dims).values
                               if set(like.dims) <= set(dims) else np.full(shape, np.nan)).ravel()
    vals = []
    for i in range(n):
        t = None
        if flat_like is not None and not math.isnan(flat_like[i]):
            t = float(flat_like[i])
        v = draw(rng, domain, t)
        if nan_p and rng.random() < nan_p:
            v = NAN
        vals.append(v)
    coords = {d: list(range(10, 10 + sizes[d])) for d in dims}
    data = np.array(vals, dtype=float).reshape(shape)
    if domain == "bool":
        data = np.nan_to_num(data).astype(bool)
    return xr.DataArray(data, dims=[fresh(d) for d in dims], coords=coords)


@dataclass
class Case:
    """inputs of one generated case: named arrays + which are 'forecast-like' (carry specific dims)"""
    arrays: dict            # name -> DataArray  (always contains the function's positional inputs)
    weights: object = None  # DataArray | None
    sizes: dict = field(default_factory=dict)
    fcst_dims: list = field(default_factory=list)   # data dims of fcst (without score-specific dims)
    obs_dims: list = field(default_factory=list)
    weights_dims: list = field(default_factory=list)
    specific: list = field(default_factory=list)


_CASE_WEIGHTS = object()


@dataclass
class Entry:
    name: str
    module: str
    func: str
    kind: str                      # 'mean' | 'other'
    weights: bool
    inputs: list                   # [(argname, domain, role)] role: 'fcst' | 'obs' | 'fcst2'
    specific: list = field(default_factory=list)     # score-specific dims carried by fcst-like inputs
    specific_sizes: dict = field(default_factory=dict)
    kwargs: object = None          # callable(case) -> dict of extra keyword arguments
    out_extra_dims: list = field(default_factory=list)   # dims the score adds to its output
    passes_weights_dims: bool = False   # does the implementation hand weights.dims to gather_dimensions?
    obs_subset_of_fcst: bool = False    # implementation demands obs.dims ⊆ fcst.dims
    no_obs: bool = False
    dask_lazy: bool = True         # must the result stay lazy on dask input (C04)
    notes: str = ""
    post: object = None            # callable(result) -> dict[str, DataArray]
    positional: bool = True
    ordered_specific: bool = False  # specific dim must have increasing coords / special values
    make_specific: object = None   # callable(rng, arr, case) to post-process fcst-like arrays

    def resolve(self):
        m = importlib.import_module(self.module)
        return getattr(m, self.func)

    def call(self, case: Case, request: dict, use_weights=True, arrays=None, weights=_CASE_WEIGHTS):
        f = self.resolve()
        arrs = arrays or case.arrays
        args = [arrs[a] for a, _, _ in self.inputs]
        kw = dict(self.kwargs(case) if self.kwargs else {})
        kw.update(request)
        w = case.weights if weights is _CASE_WEIGHTS else weights
        if self.weights and use_weights and w is not None:
            kw["weights"] = w
        return f(*args, **kw)

    def extra_dims(self, var) -> list:
        """dims the score itself adds to output variable `var`"""
        if isinstance(self.out_extra_dims, dict):
            return list(self.out_extra_dims.get(var, self.out_extra_dims.get("*", [])))
        return list(self.out_extra_dims)

    def outputs(self, result) -> dict:
        if self.post:
            return self.post(result)
        if isinstance(result, xr.Dataset):
            return {str(k): result[k] for k in result.data_vars}
        return {"value": result}


def _sorted_cdf(rng, arr, case):
    """make fcst a valid CDF along 'threshold': sorted values in [0,1]"""
    ax = [str(d) for d in arr.dims].index("threshold")
    v = np.sort(arr.values, axis=ax)
    # a proper CDF on its grid: 0 at the first threshold, 1 at the last, so that the (shared) integration
    # grid — which also contains every observation — adds nothing outside the forecast's own thresholds
    idx = [slice(None)] * v.ndim
    idx[ax] = 0
    v[tuple(idx)] = np.where(np.isnan(v[tuple(idx)]), np.nan, 0.0)
    idx[ax] = -1
    v[tuple(idx)] = np.where(np.isnan(v[tuple(idx)]), np.nan, 1.0)
    return arr.copy(data=v)


def _thetas(case):
    return {"thetas": [0.0, 1.0, 2.5], "functional": "quantile", "alpha": 0.25}


def contingency_counts(fcst, obs, *, reduce_dims=None, preserve_dims=None):
    """BinaryContingencyManager via ThresholdEventOperator.make_contingency_manager, counts as a Dataset"""
    from scores.categorical import ThresholdEventOperator
    import operator as _op
    m = ThresholdEventOperator(default_event_threshold=0.5, default_op_fn=_op.ge).make_contingency_manager(fcst, obs)
    return xr.Dataset(m.transform(reduce_dims=reduce_dims, preserve_dims=preserve_dims).get_counts())


def contingency_counts_two_step(fcst, obs, *, reduce_dims=None, preserve_dims=None):
    """the two-step route: make_event_tables, then BinaryContingencyManager on the event tables"""
    from scores.categorical import BinaryContingencyManager, ThresholdEventOperator
    import operator as _op
    fe, oe = ThresholdEventOperator(default_event_threshold=0.5, default_op_fn=_op.ge).make_event_tables(fcst, obs)
    return xr.Dataset(BinaryContingencyManager(fe, oe).transform(reduce_dims=reduce_dims, preserve_dims=preserve_dims).get_counts())


def contingency_metrics(fcst, obs, *, reduce_dims=None, preserve_dims=None):
    """a few ratio metrics of the transformed manager"""
    from scores.categorical import ThresholdEventOperator
    import operator as _op
    m = ThresholdEventOperator(default_event_threshold=0.5, default_op_fn=_op.ge).make_contingency_manager(fcst, obs)
    b = m.transform(reduce_dims=reduce_dims, preserve_dims=preserve_dims)
    return xr.Dataset({"pod": b.probability_of_detection(), "pofd": b.probability_of_false_detection(), "accuracy": b.accuracy(),
                       "bias": b.frequency_bias()})


E = Entry
C = "scores.continuous"
P = "scores.probability"
REGISTRY = [
    E("mse", C, "mse", "mean", True, [("fcst", "real", "fcst"), ("obs", "real", "obs")], dask_lazy=True),
    E("mae", C, "mae", "mean", True, [("fcst", "real", "fcst"), ("obs", "real", "obs")]),
    E("rmse", C, "rmse", "other", True, [("fcst", "real", "fcst"), ("obs", "real", "obs")]),
    E("mse_angular", C, "mse", "mean", True, [("fcst", "angle", "fcst"), ("obs", "angle", "obs")],
      kwargs=lambda c: {"is_angular": True}),
    E("mae_angular", C, "mae", "mean", True, [("fcst", "angle", "fcst"), ("obs", "angle", "obs")],
      kwargs=lambda c: {"is_angular": True}),
    E("rmse_angular", C, "rmse", "other", True, [("fcst", "angle", "fcst"), ("obs", "angle", "obs")],
      kwargs=lambda c: {"is_angular": True}),
    E("additive_bias", C, "additive_bias", "mean", True, [("fcst", "real", "fcst"), ("obs", "real", "obs")]),
    E("mean_error", C, "mean_error", "mean", True, [("fcst", "real", "fcst"), ("obs", "real", "obs")]),
    E("multiplicative_bias", C, "multiplicative_bias", "other", True, [("fcst", "real", "fcst"), ("obs", "pos", "obs")]),
    E("pbias", C, "pbias", "other", True, [("fcst", "real", "fcst"), ("obs", "pos", "obs")]),
    E("kge", C, "kge", "other", False, [("fcst", "real", "fcst"), ("obs", "real", "obs")]),
    E("pearsonr", "scores.continuous.correlation", "pearsonr", "other", False,
      [("fcst", "real", "fcst"), ("obs", "real", "obs")]),
    E("quantile_score", C, "quantile_score", "mean", True, [("fcst", "real", "fcst"), ("obs", "real", "obs")],
      kwargs=lambda c: {"alpha": 0.25}, obs_subset_of_fcst=True, positional=False),
    E("consistent_expectile_score", C, "consistent_expectile_score", "mean", True,
      [("fcst", "real", "fcst"), ("obs", "real", "obs")],
      kwargs=lambda c: {"alpha": 0.25, "phi": lambda x: x * x, "phi_prime": lambda x: 2 * x}),
    E("consistent_huber_score", C, "consistent_huber_score", "mean", True,
      [("fcst", "real", "fcst"), ("obs", "real", "obs")],
      kwargs=lambda c: {"huber_param": 1.5, "phi": lambda x: x * x, "phi_prime": lambda x: 2 * x}),
    E("consistent_quantile_score", C, "consistent_quantile_score", "mean", True,
      [("fcst", "real", "fcst"), ("obs", "real", "obs")], kwargs=lambda c: {"alpha": 0.25, "g": lambda x: 2 * x}),
    E("tw_squared_error", C, "tw_squared_error", "mean", True, [("fcst", "real", "fcst"), ("obs", "real", "obs")],
      kwargs=lambda c: {"interval_where_one": (-1.0, 3.0)}),
    E("tw_absolute_error", C, "tw_absolute_error", "mean", True, [("fcst", "real", "fcst"), ("obs", "real", "obs")],
      kwargs=lambda c: {"interval_where_one": (-1.0, np.inf)}),
    E("tw_quantile_score", C, "tw_quantile_score", "mean", True, [("fcst", "real", "fcst"), ("obs", "real", "obs")],
      kwargs=lambda c: {"alpha": 0.25, "interval_where_one": (0.0, 2.0), "interval_where_positive": (-2.0, 4.0)}),
    E("tw_expectile_score", C, "tw_expectile_score", "mean", True, [("fcst", "real", "fcst"), ("obs", "real", "obs")],
      kwargs=lambda c: {"alpha": 0.25, "interval_where_one": (0.0, 2.0)}),
    E("tw_huber_loss", C, "tw_huber_loss", "mean", True, [("fcst", "real", "fcst"), ("obs", "real", "obs")],
      kwargs=lambda c: {"huber_param": 1.5, "interval_where_one": (-np.inf, 2.0)}),
    E("murphy_score", C, "murphy_score", "mean", False, [("fcst", "real", "fcst"), ("obs", "real", "obs")],
      kwargs=lambda c: {"thetas": [0.0, 1.0, 2.5], "functional": "quantile", "alpha": 0.25}, out_extra_dims=["theta"],
      positional=True),
    E("quantile_interval_score", C, "quantile_interval_score", "mean", True,
      [("fcst_lower_qtile", "real", "fcst"), ("fcst_upper_qtile", "real", "fcst2"), ("obs", "real", "obs")],
      kwargs=lambda c: {"lower_qtile_level": 0.25, "upper_qtile_level": 0.75}, obs_subset_of_fcst=True),
    E("interval_score", C, "interval_score", "mean", True,
      [("fcst_lower_qtile", "real", "fcst"), ("fcst_upper_qtile", "real", "fcst2"), ("obs", "real", "obs")],
      kwargs=lambda c: {"interval_range": 0.5}, obs_subset_of_fcst=True),
    E("flip_flop_index_proportion_exceeding", C, "flip_flop_index_proportion_exceeding", "mean", False,
      [("data", "real", "fcst")], specific=["samp"], specific_sizes={"samp": 4}, no_obs=True,
      kwargs=lambda c: {"sampling_dim": fresh("samp"), "thresholds": [0.0, 1.0]}, out_extra_dims=["threshold"],
      dask_lazy=False),
    E("brier_score", P, "brier_score", "mean", True, [("fcst", "prob", "fcst"), ("obs", "binary", "obs")]),
    E("brier_score_for_ensemble", P, "brier_score_for_ensemble", "mean", True,
      [("fcst", "real", "fcst"), ("obs", "real", "obs")], specific=["member"], specific_sizes={"member": 3},
      kwargs=lambda c: {"ensemble_member_dim": fresh("member"), "event_thresholds": [0.0, 1.0]},
      out_extra_dims=["threshold"], passes_weights_dims=True),
    E("crps_for_ensemble", P, "crps_for_ensemble", "mean", True, [("fcst", "real", "fcst"), ("obs", "real", "obs")],
      specific=["member"], specific_sizes={"member": 3},
      kwargs=lambda c: {"ensemble_member_dim": fresh("member"), "method": "ecdf"}, passes_weights_dims=True),
    E("crps_for_ensemble_components", P, "crps_for_ensemble", "mean", True,
      [("fcst", "real", "fcst"), ("obs", "real", "obs")], specific=["member"], specific_sizes={"member": 3},
      kwargs=lambda c: {"ensemble_member_dim": fresh("member"), "method": "ecdf", "include_components": True},
      out_extra_dims=["component"], passes_weights_dims=True),
    E("crps_for_ensemble_fair", P, "crps_for_ensemble", "mean", True,
      [("fcst", "real", "fcst"), ("obs", "real", "obs")], specific=["member"], specific_sizes={"member": 3},
      kwargs=lambda c: {"ensemble_member_dim": fresh("member"), "method": "fair"}, passes_weights_dims=True,
      notes="fair CRPS needs two valid members: with one it is NaN (0/0), the IEEE value of the documented expression"),
    E("tw_crps_for_ensemble", P, "tw_crps_for_ensemble", "mean", True, [("fcst", "real", "fcst"), ("obs", "real", "obs")],
      specific=["member"], specific_sizes={"member": 3},
      kwargs=lambda c: {"ensemble_member_dim": fresh("member"), "chaining_func": lambda x: np.maximum(x, 0.5)},
      passes_weights_dims=True),
    E("tail_tw_crps_for_ensemble", P, "tail_tw_crps_for_ensemble", "mean", True,
      [("fcst", "real", "fcst"), ("obs", "real", "obs")], specific=["member"], specific_sizes={"member": 3},
      kwargs=lambda c: {"ensemble_member_dim": fresh("member"), "threshold": 0.5, "tail": "upper"}, passes_weights_dims=True),
    E("interval_tw_crps_for_ensemble", P, "interval_tw_crps_for_ensemble", "mean", True,
      [("fcst", "real", "fcst"), ("obs", "real", "obs")], specific=["member"], specific_sizes={"member": 3},
      kwargs=lambda c: {"ensemble_member_dim": fresh("member"), "lower_threshold": -1.0, "upper_threshold": 2.0},
      passes_weights_dims=True),
    E("crps_cdf", P, "crps_cdf", "mean", True, [("fcst", "prob", "fcst"), ("obs", "cdfobs", "obs")],
      specific=["threshold"], specific_sizes={"threshold": 4}, make_specific=_sorted_cdf, obs_subset_of_fcst=True,
      kwargs=lambda c: {"threshold_dim": fresh("threshold")}),
    E("crps_cdf_brier_decomposition", P, "crps_cdf_brier_decomposition", "mean", False,
      [("fcst", "prob", "fcst"), ("obs", "cdfobs", "obs")], specific=["threshold"], specific_sizes={"threshold": 4},
      make_specific=_sorted_cdf, kwargs=lambda c: {"threshold_dim": fresh("threshold")}, out_extra_dims=["threshold"],
      obs_subset_of_fcst=True),
    E("roc_curve_data", P, "roc_curve_data", "other", True, [("fcst", "prob", "fcst"), ("obs", "binary", "obs")],
      kwargs=lambda c: {"thresholds": [0.0, 0.25, 0.5, 1.0]}, out_extra_dims={"*": ["threshold"], "AUC": []}),
    E("probability_of_detection", "scores.categorical", "probability_of_detection", "other", True,
      [("fcst", "binary", "fcst"), ("obs", "binary", "obs")]),
    E("probability_of_false_detection", "scores.categorical", "probability_of_false_detection", "other", True,
      [("fcst", "binary", "fcst"), ("obs", "binary", "obs")]),
    E("firm", "scores.categorical", "firm", "mean", True, [("fcst", "real", "fcst"), ("obs", "real", "obs")],
      kwargs=lambda c: {"risk_parameter": 0.75, "categorical_thresholds": [0.0, 2.0], "threshold_weights": [2.0, 1.0],
                        "discount_distance": 1.5}),
    E("proportion_exceeding", "scores.processing", "proportion_exceeding", "mean", False, [("data", "real", "fcst")],
      no_obs=True, kwargs=lambda c: {"thresholds": [0.0, 1.0]}, out_extra_dims=["threshold"]),
    E("proportion_exceeding_single", "scores.processing", "proportion_exceeding", "mean", False, [("data", "real", "fcst")],
      no_obs=True, kwargs=lambda c: {"thresholds": 0.5}, notes="scalar threshold: the threshold dim is auto-squeezed"),
    E("binary_discretise_proportion_autosqueeze", "scores.processing", "binary_discretise_proportion", "mean", False,
      [("data", "real", "fcst")], no_obs=True, kwargs=lambda c: {"thresholds": [0.5], "mode": "<", "autosqueeze": True}),
    E("binary_discretise_proportion_scalar", "scores.processing", "binary_discretise_proportion", "mean", False,
      [("data", "real", "fcst")], no_obs=True, kwargs=lambda c: {"thresholds": 0.5, "mode": ">="}),
    E("binary_discretise_proportion", "scores.processing", "binary_discretise_proportion", "mean", False,
      [("data", "real", "fcst")], no_obs=True, kwargs=lambda c: {"thresholds": [0.0, 1.0], "mode": "<="},
      out_extra_dims=["threshold"]),
    E("contingency_counts", "sv.registry", "contingency_counts", "other", False, [("fcst", "real", "fcst"), ("obs", "real", "obs")],
      dask_lazy=False, notes="sum-type: counts over the reduced dims"),
    E("contingency_counts_two_step", "sv.registry", "contingency_counts_two_step", "other", False,
      [("fcst", "real", "fcst"), ("obs", "real", "obs")], dask_lazy=False),
    E("contingency_metrics", "sv.registry", "contingency_metrics", "other", False, [("fcst", "real", "fcst"), ("obs", "real", "obs")],
      dask_lazy=False),
    E("fss_2d", "scores.spatial", "fss_2d", "other", False, [("fcst", "real", "fcst"), ("obs", "real", "obs")],
      specific=["sx", "sy"], specific_sizes={"sx": 3, "sy": 2}, dask_lazy=False,
      kwargs=lambda c: {"event_threshold": 0.5, "window_size": (2, 1), "spatial_dims": (fresh("sx"), fresh("sy"))},
      notes="spatial dims are on both fcst and obs"),
    E("fss_2d_binary", "scores.spatial", "fss_2d_binary", "other", False, [("fcst", "bool", "fcst"), ("obs", "bool", "obs")],
      specific=["sx", "sy"], specific_sizes={"sx": 3, "sy": 2}, dask_lazy=False,
      kwargs=lambda c: {"window_size": (2, 2), "spatial_dims": (fresh("sx"), fresh("sy")), "zero_padding": True}),
    E("risk_matrix_score", "scores.emerging", "risk_matrix_score", "mean", True, [("fcst", "prob", "fcst"), ("obs", "binary", "obs")],
      specific=["sev"], specific_sizes={"sev": 2}, passes_weights_dims=True,
      kwargs=lambda c: {"decision_weights": xr.DataArray([[1.0, 2.0], [3.0, 1.0]], dims=["pt", "sev"],
                                                         coords={"pt": [0.25, 0.625], "sev": [10, 11]}),
                        "severity_dim": fresh("sev"), "prob_threshold_dim": fresh("pt")},
      notes="severity dim is on both fcst and obs"),
]
BY_NAME = {e.name: e for e in REGISTRY}

# dims that sit on BOTH fcst and obs although they are consumed by the score
SPECIFIC_ON_OBS = {"fss_2d", "fss_2d_binary", "risk_matrix_score"}


def audit_registry():
    """compare the registry with the live package: public callables taking reduce_dims/preserve_dims"""
    mods = ["scores.continuous", "scores.probability", "scores.categorical", "scores.processing", "scores.spatial",
            "scores.emerging", "scores.continuous.correlation"]
    live = set()
    for mn in mods:
        m = importlib.import_module(mn)
        for n in getattr(m, "__all__", dir(m)):
            f = getattr(m, n, None)
            if not callable(f) or inspect.isclass(f) or n.startswith("_"):
                continue
            try:
                ps = inspect.signature(f).parameters
            except (TypeError, ValueError):
                continue
            if "reduce_dims" in ps and "preserve_dims" in ps:
                live.add(n)
    reg = {e.func for e in REGISTRY if e.module != "sv.registry"}
    notes = []
    if live - reg:
        notes.append(f"unregistered public functions with reduce_dims/preserve_dims: {sorted(live - reg)}")
    if reg - live:
        notes.append(f"registered but not found in the package: {sorted(reg - live)}")
    for e in REGISTRY:
        try:
            ps = inspect.signature(e.resolve()).parameters
        except Exception as ex:  # pragma: no cover
            notes.append(f"{e.name}: cannot resolve ({ex})")
            continue
        if e.weights != ("weights" in ps):
            notes.append(f"{e.name}: registry says weights={e.weights} but signature says {'weights' in ps}")
    return notes


# ----------------------------------------------------------------------------- case generation
UNIVERSE = ["lat", "b", "time"]   # multi-character names: a bare-string request must not be split into characters


RETYPE_DOMAINS = ("real", "pos", "angle", "binary")


def retype_case(rng, e: "Entry", case: "Case", store=None):
    """STORAGE DTYPE class: the same labelled VALUES stored as int64 / int32 (integral values only) or float32 (values
    exactly representable).  Returns (new case, dtype name) or (None, None) when the entry's inputs cannot be stored
    that way (NaN present, fractional values for an integer dtype, domains such as CDF ordinates).  Weights keep
    float64 storage: they are the caller's multiplier, typically fractional."""
    import copy
    store = store or rng.choice(["int64", "int32", "float32"])
    new = {}
    for arg, dom, role in e.inputs:
        a = case.arrays[arg]
        if a.dtype.kind != "f":
            return None, None
        if dom not in RETYPE_DOMAINS and role != "fcst2":
            return None, None
        v = np.asarray(a.values, dtype=float)
        if np.isnan(v).any() or np.isinf(v).any():
            return None, None
        if store.startswith("int"):
            v = np.round(v)                     # move to the nearest integers: a different but legal case
        else:
            if not np.array_equal(v.astype(np.float32).astype(float), v):
                return None, None
        new[arg] = a.copy(data=v.astype(store))
    # fcst2 is built as fcst + positive offset: rounding keeps lower <= upper
    c2 = copy.copy(case)
    c2.arrays = new
    return c2, store


def as_float64(case: "Case"):
    import copy
    c2 = copy.copy(case)
    c2.arrays = {k: v.astype(float) for k, v in case.arrays.items()}
    return c2


def gen_case(rng, e: Entry, data_dims=None, obs_dims=None, weights_dims=None, sizes=None, nan_p=0.0,
             with_weights=None, weight_nan_p=0.0, overlap=None, single_member=False):
    """labelled inputs for entry e.  data_dims: dims of fcst (score-specific dims are appended).
    single_member: the smallest legal ensemble — the member dimension has size 1 (it must still disappear from the result)."""
    if data_dims is None:
        k = rng.choice([1, 2, 2, 3])
        data_dims = sorted(rng.sample(UNIVERSE, k))
    if sizes is None:
        sizes = {d: rng.choice([1, 1, 2, 2, 3]) for d in UNIVERSE}
    sizes = dict(sizes)
    sizes.update(e.specific_sizes)
    if single_member and "member" in e.specific_sizes:
        sizes["member"] = 1
    if e.no_obs:
        obs_dims = []
    if obs_dims is None and overlap is not None:
        # systematic overlap patterns of forecast / observation dimensions
        if overlap == "same" or (overlap == "obs-superset" and e.obs_subset_of_fcst):
            obs_dims = list(data_dims)
        elif overlap == "obs-subset":
            if len(data_dims) < 2:
                data_dims = sorted(rng.sample(UNIVERSE, 2))
            obs_dims = sorted(rng.sample(data_dims, rng.randint(0, len(data_dims) - 1)))
        elif overlap == "obs-superset":
            if len(data_dims) == len(UNIVERSE):
                data_dims = sorted(rng.sample(UNIVERSE, 2))
            obs_dims = list(data_dims) + [rng.choice([d for d in UNIVERSE if d not in data_dims])]
    if obs_dims is None:
        if e.obs_subset_of_fcst or rng.random() < 0.6:
            obs_dims = [d for d in data_dims if rng.random() < 0.8] if rng.random() < 0.5 else list(data_dims)
        else:
            extra = [d for d in UNIVERSE if d not in data_dims]
            obs_dims = list(data_dims) + (rng.sample(extra, 1) if extra and rng.random() < 0.5 else [])
    spec_on_obs = e.name in SPECIFIC_ON_OBS
    fd = list(data_dims) + list(e.specific)
    od = list(obs_dims) + (list(e.specific) if spec_on_obs else [])
    arrays = {}
    obs = None
    fc = None
    for arg, dom, role in e.inputs:
        if role == "obs":
            obs = make_array(rng, od, sizes, dom, like=fc, nan_p=nan_p)
            arrays[arg] = obs
        elif role == "fcst":
            fc = make_array(rng, fd, sizes, dom, nan_p=nan_p)
            if e.make_specific:
                fc = e.make_specific(rng, fc, None)
            arrays[arg] = fc
        elif role == "fcst2":
            up = make_array(rng, fd, sizes, "pos", nan_p=nan_p)
            arrays[arg] = fc + up          # upper quantile forecast above the lower one
    w = None
    wd = []
    if e.weights and (with_weights if with_weights is not None else rng.random() < 0.5):
        all_d = sorted(set(data_dims) | set(obs_dims))
        if weights_dims is None:
            wd = [d for d in all_d if rng.random() < 0.6] or all_d[:1]
            outside = [d for d in UNIVERSE if d not in all_d]
            if outside and rng.random() < 0.2:       # weights carrying a dimension the data lack
                wd = wd + [rng.choice(outside)]
        else:
            wd = list(weights_dims)
        w = make_array(rng, wd, sizes, "pos", nan_p=weight_nan_p)
    return Case(arrays=arrays, weights=w, sizes=sizes, fcst_dims=list(data_dims), obs_dims=list(obs_dims),
                weights_dims=wd, specific=list(e.specific))


def to_labelled(da: xr.DataArray):
    """canonical form: dims sorted by name, data indexed by label in sorted coordinate order"""
    da = da.compute() if hasattr(da, "compute") else da
    dims = sorted(str(d) for d in da.dims)
    if dims:
        da = da.transpose(*[d for d in dims])
        for d in dims:
            if d in da.coords:
                da = da.sortby(d)
    return dims, [int(s) for s in da.shape], np.asarray(da.values, dtype=float).ravel().tolist()


def describe(case: Case, request=None):
    from sv import core
    d = {k: {"dims": [str(x) for x in v.dims], "values": core.canon(np.asarray(v.values).tolist())}
         for k, v in case.arrays.items()}
    if case.weights is not None:
        d["weights"] = {"dims": [str(x) for x in case.weights.dims], "values": core.canon(np.asarray(case.weights.values).tolist())}
    if request is not None:
        d["request"] = {k: (list(v) if isinstance(v, (list, tuple)) else v) for k, v in request.items()}
    return d
