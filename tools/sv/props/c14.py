"""C14 — ROC points are POD/POFD of 'forecast >= threshold'; AUC is the trapezoid area."""
from __future__ import annotations

import itertools
import math
from fractions import Fraction

import numpy as np
import xarray as xr

from sv import core

PROPERTY = "C14"
GEN = ["Roc"]
PROPS = ["ScoresVerif/Props/C14.lean"]
DRIVER_DEPS = ["ScoresVerif.Driver.C14"]
AUDIT_FILES = ["ScoresVerif/Lemmas/Roc.lean", "ScoresVerif/Lemmas/RocMW1.lean", "ScoresVerif/Lemmas/RocMW.lean",
               "ScoresVerif/Model/Roc.lean", "ScoresVerif/Spec/Roc.lean"]
LEVEL = "proof"
TRUSTED = ["hand-written model Model/Roc.lean of roc_curve_data -> binary_discretise(>=) -> POD/POFD -> -trapezoid; the POD/POFD maps, quotients, weighting/summation frame and the roc call site are regenerated from the source (tools/gen/Roc.py) and proved equal to the model, the rest is "
           "(tied by differential correspondence only, no translator)",
           "the harness groups the cells of the reduced dimensions per preserved index (dimension handling is C01)"]
ASSUMPTIONS = ["forecasts / thresholds are dyadic in [0, 1.25], weights small dyadic: sums and comparisons are exact in "
               "float64; quotients compared to 1e-9",
               "no dask input (F14 belongs to C04); fcst / obs / weights share coordinate labels in the same order",
               "float rounding is not modelled"]
MANIFEST = dict(
    level="proof",
    text="Kernel-checked Lean theorems about a model of roc_curve_data (binary_discretise with >=, POD/POFD maps with NaN masks "
         "and weights, -trapezoid), for any number of pairs and thresholds over the rationals: each ROC point equals "
         "(POFD, POD) of 'forecast >= t' by weighted counting over the valid pairs (a forecast equal to t is an event; pairs "
         "with a NaN forecast, observation or weight are not counted; 0/0 is NaN), both coordinates are non-increasing in t and "
         "in [0,1] for non-negative weights and equal 1 at a threshold not above any forecast, AUC equals the trapezoid sum "
         "and lies in [0,1] for thresholds accepted by the guard, and AUC equals the (weighted) Mann-Whitney probability (ties "
         "one half) whenever the thresholds contain every forecast value and a value above the largest. The POD/POFD maps, "
         "quotients, the weighting/summation frame and the roc call site (operator.ge, -1 * trapezoid(pod, pofd)) are "
         "regenerated from binary_impl.py / roc_impl.py on every run and proved equal to the model. The model is tied to the code by a differential "
         "correspondence (ties with thresholds, NaN, weights, reductions / preserved dims, argument checks); the same "
         "statements and the Mann-Whitney equality (thresholds containing 0, every forecast value and a larger value; weighted "
         "form with weights) are evaluated on the implementation against the Lean counting spec in exact rationals, "
         "exhaustively for all forecast/observation vectors up to length 3 (quick) / 5 (thorough) over a 4-value pool.",
    note="Trusted: Lean kernel; propext/Classical.choice/Quot.sound; the hand-written model, tied by the translator for the POD/POFD maps / "
         "quotients / call site and otherwise only by "
         "correspondence on dyadic inputs with tolerance 1e-9; SV.Fl (IEEE minus rounding, overflow, signed zero); the "
         "harness groups the cells that are summed per preserved index (gather_dimensions is C01). Not proved, only compared: "
         "the argument-check model (`raises`), the element-wise discretisation code of discretise.py (model `disc`). "
         "Not modelled: dask input (F14, C04), differently ordered coordinates, non-binary observations with check_args=False.",
    technique="Lean 4 theorems over a hand model + differential correspondence + exact counting / Mann-Whitney oracle",
    design="6/C14")
RULE = ("one case = (forecast array from a 5-value pool so most values coincide with a threshold, binary obs with NaN, "
        "threshold list, weights, reduction, check_args); distinct = distinct canonical call; non-trivial = some non-NaN "
        "POD or POFD and not malformed")

NAN = float("nan")
POOL = [0.0, 0.25, 0.5, 0.75, 1.0]


# ----------------------------------------------------------------------------- calls
def build(call):
    shape = tuple(call["shape"])
    dims = list(call["dims"])
    coords = {d: list(range(n)) for d, n in zip(dims, shape)}
    f = xr.DataArray(np.array(call["fcst"], dtype=float).reshape(shape), dims=dims, coords=coords)
    od = list(call.get("obs_dims", dims))
    oshape = tuple(shape[dims.index(d)] for d in od)
    o = xr.DataArray(np.array(call["obs"], dtype=float).reshape(oshape), dims=od, coords={d: coords[d] for d in od})
    w = None
    if call.get("weights") is not None:
        wd = list(call["weights_dims"])
        wshape = tuple(shape[dims.index(d)] for d in wd)
        w = xr.DataArray(np.array(call["weights"], dtype=float).reshape(wshape), dims=wd, coords={d: coords[d] for d in wd})
    return f, o, w


def red_kwargs(call):
    kw = {}
    if call.get("reduce_dims") is not None:
        r = call["reduce_dims"]
        kw["reduce_dims"] = r if isinstance(r, str) else ["".join(list(d)) for d in r]
    if call.get("preserve_dims") is not None:
        p = call["preserve_dims"]
        kw["preserve_dims"] = p if isinstance(p, str) else ["".join(list(d)) for d in p]
    return kw


def preserved(call):
    dims = list(call["dims"])
    if call.get("reduce_dims") is not None:
        r = call["reduce_dims"]
        red = dims if r == "all" else list(r)
        return [d for d in dims if d not in red]
    if call.get("preserve_dims") is not None:
        p = call["preserve_dims"]
        return dims if p == "all" else [d for d in dims if d in p]
    return []


def groups(call):
    """[(index of the preserved dims, [[f, o, w|None], ...])] in row-major order of the preserved dims"""
    f, o, w = build(call)
    dims = list(call["dims"])
    fb, ob = xr.broadcast(f, o)
    fb = fb.transpose(*dims).values
    ob = ob.transpose(*dims).values
    wb = None
    if w is not None:
        wb = xr.broadcast(f, w)[1].transpose(*dims).values
    P = preserved(call)
    pidx = [dims.index(d) for d in P]
    out = {}
    for idx in itertools.product(*[range(n) for n in call["shape"]]):
        key = tuple(idx[i] for i in pidx)
        out.setdefault(key, []).append([float(fb[idx]), float(ob[idx]), None if wb is None else float(wb[idx])])
    keys = sorted(out)
    return P, [(k, out[k]) for k in keys]


def run_impl(call):
    from scores.probability import roc_curve_data
    f, o, w = build(call)
    try:
        with np.errstate(all="ignore"):
            r = roc_curve_data(f, o, list(call["thresholds"]), weights=w, check_args=bool(call.get("check_args", True)),
                               **red_kwargs(call))
    except Exception as ex:  # noqa: BLE001
        return {"err": core.exc_class(ex)}
    P = preserved(call)
    nt = len(call["thresholds"])
    pod = np.asarray(r["POD"].transpose(*P, "threshold").values, dtype=float).reshape(-1, nt)
    pofd = np.asarray(r["POFD"].transpose(*P, "threshold").values, dtype=float).reshape(-1, nt)
    auc = np.asarray(r["AUC"].transpose(*P).values, dtype=float).reshape(-1)
    return {"pod": pod.tolist(), "pofd": pofd.tolist(), "auc": auc.tolist()}


def trip_json(tr):
    return [[core.fl_str(p[0]), core.fl_str(p[1]), None if p[2] is None else core.fl_str(p[2])] for p in tr]


# ----------------------------------------------------------------------------- generators
def gen_call(rng, complete=False, malformed=False):
    nd = rng.choice([1, 2, 2])
    dims = ["a", "b"][:nd] if rng.random() < 0.8 else ["x", "y"][:nd]
    shape = [rng.choice([1, 2, 3, 4, 5]) for _ in dims]
    n = int(np.prod(shape))
    pool = POOL if rng.random() < 0.8 else [0.0, 0.125, 0.5, 0.625, 1.0]
    sub = rng.sample(pool, rng.choice([1, 2, 3, 4, 5]))
    fc = [rng.choice(sub) if rng.random() < 0.9 else NAN for _ in range(n)]
    if rng.random() < 0.04:
        fc = [NAN] * n
    call = {"dims": dims, "shape": shape, "fcst": fc}
    if nd == 2 and rng.random() < 0.15:
        od = [rng.choice(dims)]
    else:
        od = list(dims)
    on = int(np.prod([shape[dims.index(d)] for d in od]))
    style = rng.random()
    obs = [rng.choice([0.0, 1.0]) if rng.random() < 0.88 else NAN for _ in range(on)]
    if style < 0.08:
        obs = [0.0] * on            # no event at all: POD = 0/0
    elif style < 0.16:
        obs = [1.0] * on            # no non-event
    call["obs_dims"] = od
    call["obs"] = obs
    if rng.random() < 0.45:
        wd = list(dims) if rng.random() < 0.5 else [rng.choice(dims)]
        wn = int(np.prod([shape[dims.index(d)] for d in wd]))
        call["weights_dims"] = wd
        call["weights"] = [rng.choice([0.0, 0.5, 1.0, 1.0, 2.0, 3.0]) if rng.random() < 0.93 else NAN for _ in range(wn)]
    # thresholds
    vals = sorted({v for v in fc if not math.isnan(v)})
    if complete:
        top = (max(vals) if vals else 0.0)
        ts = sorted(set([0.0] + vals + [top + 0.25]))
        if rng.random() < 0.5:
            ts = sorted(set(ts + rng.sample([0.125, 0.375, 0.875, 0.25, 0.5], 2)))
        if rng.random() < 0.3:
            ts = sorted(ts + [rng.choice(ts)])        # a duplicated threshold
        call["thresholds"] = ts
        call["check_args"] = max(ts) <= 1
    else:
        k = rng.choice([1, 2, 3, 4, 5, 6])
        cand = pool + [0.125, 0.375, 0.875]
        ts = sorted(rng.choice(cand) if rng.random() < 0.85 else rng.choice(vals or [0.5]) for _ in range(k))
        if rng.random() < 0.5 and ts[0] != 0.0:
            ts = [0.0] + ts
        call["thresholds"] = ts
        call["check_args"] = rng.random() < 0.7
    r = rng.random()
    if r < 0.35:
        pass
    elif r < 0.5:
        call["reduce_dims"] = "all"
    elif r < 0.65:
        call["reduce_dims"] = [rng.choice(dims)]
    elif r < 0.85:
        call["preserve_dims"] = [rng.choice(dims)]
    else:
        call["preserve_dims"] = "all"
    if malformed:
        m = rng.choice(["fcst>1", "fcst<0", "thr>1", "thr<0", "thr-order", "obs-not-binary", "thr-nan"])
        call["malformed"] = m
        call["check_args"] = rng.random() < 0.75
        if m == "fcst>1":
            call["fcst"][rng.randrange(n)] = 1.25
        elif m == "fcst<0":
            call["fcst"][rng.randrange(n)] = -0.25
        elif m == "thr>1":
            call["thresholds"] = call["thresholds"] + [1.5]
        elif m == "thr<0":
            call["thresholds"] = [-0.5] + call["thresholds"]
        elif m == "thr-order":
            call["thresholds"] = call["thresholds"] + [call["thresholds"][-1] - 0.125]
        elif m == "obs-not-binary":
            call["obs"][rng.randrange(on)] = rng.choice([2.0, 0.5, -1.0])
        elif m == "thr-nan":
            call["thresholds"] = call["thresholds"] + [NAN]
    return call


def describe(call):
    return dict(call)


def nontrivial(res):
    return "err" not in res and any(not math.isnan(v) for row in res["pod"] + res["pofd"] for v in row)


def all_vals(call):
    f, o, _ = build(call)
    return [float(v) for v in f.values.ravel()], [float(v) for v in o.values.ravel()]


# ----------------------------------------------------------------------------- tie X
def correspondence(ctx):
    rng = ctx.rng
    calls = [gen_call(rng, complete=rng.random() < 0.3) for _ in range(ctx.n(220, 5000))]
    calls += [gen_call(rng, malformed=True) for _ in range(ctx.n(40, 700))]
    ops, idx = [], []
    for ci, c in enumerate(calls):
        fv, ov = all_vals(c)
        ops.append({"op": "c14.raises", "args": {"check_args": bool(c["check_args"]), "f": [core.fl_str(v) for v in fv],
                                                 "o": [core.fl_str(v) for v in ov],
                                                 "thresholds": [core.fl_str(t) for t in c["thresholds"]]}})
        P, gs = groups(c)
        idx.append((len(ops), len(gs)))
        for _, tr in gs:
            ops.append({"op": "c14.model", "args": {"triples": trip_json(tr), "thresholds": [core.fl_str(t) for t in c["thresholds"]]}})
    res = core.run_driver("C14", ops)
    for ci, c in enumerate(calls):
        s, k = idx[ci]
        raises = res[s - 1]
        r = run_impl(c)
        batch = "impl-vs-model" if not c.get("malformed") else "malformed-arguments"
        ctx.case(batch, describe(c), nontrivial=nontrivial(r) and not c.get("malformed"))
        ctx.tag("malformed" if c.get("malformed") else "wellformed")
        if c.get("weights") is not None:
            ctx.tag("weights")
        ctx.tag("preserve:" + str(len(preserved(c))))
        if raises is True or "err" in r:
            ctx.tag("raises")
            if not (raises is True and r.get("err") == "ValueError"):
                ctx.fail(batch, "correspondence", "roc_curve_data", "exception", describe(c), observed=r,
                         expected={"err": "ValueError"} if raises is True else "a value", tags={"malformed": c.get("malformed")})
            continue
        for gi in range(k):
            m = res[s + gi]
            ok = (all(core.close(a, b) for a, b in zip(r["pod"][gi], m["pod"])) and
                  all(core.close(a, b) for a, b in zip(r["pofd"][gi], m["pofd"])) and core.close(r["auc"][gi], m["auc"]))
            if not ok or len(r["pod"]) != k:
                ctx.fail(batch, "correspondence", "roc_curve_data", "value", describe(c),
                         observed={"pod": r["pod"][gi], "pofd": r["pofd"][gi], "auc": r["auc"][gi]}, expected=m,
                         tags={"group": gi})
                break


# ----------------------------------------------------------------------------- the property on the implementation
def is_complete(tr, ts):
    vals = {p[0] for p in tr if not math.isnan(p[0])}
    if not vals:
        return False
    return 0.0 in ts and vals <= set(ts) and max(ts) > max(vals)


def weights_nonneg(tr):
    return all(p[2] is None or math.isnan(p[2]) or p[2] >= 0 for p in tr)


class Checker:
    MAX_FAIL_PER_CALL = 3

    def __init__(self, ctx):
        self.ctx = ctx
        self.nfail = 0
        self.per_sig = {}
        self.minimising = False

    def fail(self, batch, call, sig, observed, expected, theorem=None, extra=None):
        self.nfail += 1
        tr = (extra or {}).get("triples_for_min")
        if extra:
            extra = {k: v for k, v in extra.items() if k != "triples_for_min"}
        self.per_sig[sig] = self.per_sig.get(sig, 0) + 1
        if tr is not None and not self.minimising and self.per_sig[sig] <= 2:
            # report the single ROC curve that fails as a self-contained 1-D call (when it fails on its own)
            small = {"dims": ["k"], "shape": [len(tr)], "fcst": [p[0] for p in tr], "obs_dims": ["k"], "obs": [p[1] for p in tr],
                     "thresholds": list(call["thresholds"]), "check_args": bool(call.get("check_args", True))}
            if tr and tr[0][2] is not None:
                small["weights_dims"] = ["k"]
                small["weights"] = [p[2] for p in tr]
            sub = Checker(core.Ctx("C14", "quick", 0))
            sub.minimising = True
            try:
                sub.run([small])
            except Exception:  # noqa: BLE001
                sub.ctx.failures = []
            if sub.ctx.failures:
                call = small
                extra = dict(extra or {}, minimised_from_shape=None)
        if len(call.get("fcst", [])) > 400:
            call = dict(call, fcst="<%d values omitted>" % len(call["fcst"]), obs="<omitted>", not_replayable=True)
        case = {"check": batch, "call": describe(call)}
        if extra:
            case.update(extra)
        self.ctx.fail(batch, "property", "roc_curve_data", sig, case, observed=observed, expected=expected,
                      tags={"check": batch}, theorem=theorem)

    def run(self, calls):
        ops, idx = [], []
        for c in calls:
            P, gs = groups(c)
            idx.append((len(ops), gs))
            for _, tr in gs:
                ops.append({"op": "c14.spec", "args": {"triples": trip_json(tr),
                                                       "thresholds": [core.fl_str(t) for t in c["thresholds"]]}})
        res = core.run_driver("C14", ops)
        for c, (s, gs) in zip(calls, idx):
            if self.nfail >= 40:
                return      # the search has its failing inputs
            r = run_impl(c)
            self.ctx.case("roc-point-eq-pod-pofd", describe(c), nontrivial=nontrivial(r))
            if "err" in r:
                self.fail("roc-point-eq-pod-pofd", c, "exception", r, "a value")
                continue
            ts = c["thresholds"]
            start = self.nfail
            for gi, (key, tr) in enumerate(gs):
                if self.nfail - start >= self.MAX_FAIL_PER_CALL:
                    break
                sp = res[s + gi]
                pod, pofd, auc = r["pod"][gi], r["pofd"][gi], r["auc"][gi]
                # 1. each point is POD / POFD of `forecast >= t` by direct counting over the valid pairs
                for name, got, want in (("POD", pod, sp["pod"]), ("POFD", pofd, sp["pofd"])):
                    bad = [k for k in range(len(ts)) if not core.close(got[k], want[k])]
                    if bad:
                        self.fail("roc-point-eq-pod-pofd", c, "point:" + name, got, want, "roc_point_eq_pod_pofd",
                                  {"group": list(key), "threshold": ts[bad[0]], "triples_for_min": tr})
                        break
                # 2. non-increasing in t (non-negative weights); 1 at t = 0 (else NaN as 0/0)
                if weights_nonneg(tr):
                    for name, v in (("POD", pod), ("POFD", pofd)):
                        fin = [x for x in v if not math.isnan(x)]
                        if len(fin) != len(v) and fin:
                            self.fail("monotone-and-one-at-zero", c, "partly-nan:" + name, v, "all NaN or no NaN", None,
                                      {"group": list(key), "triples_for_min": tr})
                        elif any(fin[k + 1] > fin[k] + 1e-12 for k in range(len(fin) - 1)):
                            self.fail("monotone-and-one-at-zero", c, "increasing:" + name, v, "non-increasing in threshold",
                                      "pod_antitone / pofd_antitone", {"group": list(key), "triples_for_min": tr})
                        elif fin and ts[0] == 0.0 and abs(fin[0] - 1.0) > 1e-12:
                            self.fail("monotone-and-one-at-zero", c, "not-one-at-zero:" + name, v, "1 at threshold 0",
                                      "pod_zero_eq_one / pofd_zero_eq_one", {"group": list(key), "triples_for_min": tr})
                        elif fin and (min(fin) < -1e-12 or max(fin) > 1 + 1e-12):
                            self.fail("monotone-and-one-at-zero", c, "outside-unit-interval:" + name, v, "in [0,1]", None,
                                      {"group": list(key), "triples_for_min": tr})
                    self.ctx.batches.setdefault("monotone-and-one-at-zero", {"cases": 0, "failed": 0})["cases"] += 1
                # 3. AUC is the trapezoid area under the returned points, and lies in [0, 1]
                b = self.ctx.batches.setdefault("auc-eq-trapezoid", {"cases": 0, "failed": 0})
                b["cases"] += 1
                if len(ts) >= 2 and any(math.isnan(x) for x in pod + pofd):
                    trap = NAN
                else:
                    trap = sum((pofd[k] - pofd[k + 1]) * (pod[k] + pod[k + 1]) / 2 for k in range(len(ts) - 1))
                if not core.close_ff(auc, trap) or not core.close(auc, sp["auc"]):
                    self.fail("auc-eq-trapezoid", c, "auc", auc, {"trapezoid of returned points": trap, "spec": sp["auc"]},
                              "auc_eq_trapezoid", {"group": list(key), "triples_for_min": tr})
                elif weights_nonneg(tr) and not math.isnan(auc) and (auc < -1e-12 or auc > 1 + 1e-12):
                    self.fail("auc-eq-trapezoid", c, "auc-outside-unit-interval", auc, "in [0,1]", "trapArea_mem_unit",
                              {"group": list(key), "triples_for_min": tr})
                # 4. Mann-Whitney when the thresholds contain 0, every forecast value and something above the largest
                valid = [p for p in tr if not (math.isnan(p[0]) or math.isnan(p[1]) or (p[2] is not None and math.isnan(p[2])))]
                if valid and is_complete(valid, ts) and weights_nonneg(tr):
                    b = self.ctx.batches.setdefault("auc-eq-mann-whitney", {"cases": 0, "failed": 0})
                    b["cases"] += 1
                    self.ctx.tag("mann-whitney-applicable")
                    if not core.close(auc, sp["mw"]):
                        self.fail("auc-eq-mann-whitney", c, "auc-vs-mann-whitney", auc, sp["mw"], "auc_eq_mannWhitney",
                                  {"group": list(key), "triples_for_min": tr})


def exhaustive_calls(nmax):
    """every forecast vector over a 4-value pool with every binary observation vector, n <= nmax, one vectorised call
    per n (rows are independent ROC curves: preserve_dims=['a'])"""
    pool = [0.0, 0.25, 0.5, 1.0]
    calls = []
    for n in range(1, nmax + 1):
        rows_f, rows_o = [], []
        for fs in itertools.product(pool, repeat=n):
            for os_ in itertools.product([0.0, 1.0], repeat=n):
                rows_f += list(fs)
                rows_o += list(os_)
        m = len(rows_f) // n
        calls.append({"dims": ["a", "b"], "shape": [m, n], "fcst": rows_f, "obs_dims": ["a", "b"], "obs": rows_o,
                      "thresholds": [0.0, 0.25, 0.5, 1.0, 1.25], "check_args": False, "preserve_dims": ["a"]})
    return calls


def oracle(ctx, boost):
    rng = ctx.rng
    k = 5 if boost else 1
    ch = Checker(ctx)
    calls = [gen_call(rng, complete=rng.random() < 0.5) for _ in range(ctx.n(250, 6000) * k)]
    ch.run(calls)
    nmax = 5 if (ctx.thorough or boost) else 3
    ctx.exhaustive.append(f"all forecast vectors over the pool {{0,1/4,1/2,1}} x all binary obs vectors, n <= {nmax}, "
                          "thresholds {0,1/4,1/2,1,5/4}: points, monotonicity, trapezoid, Mann-Whitney")
    ch.run(exhaustive_calls(nmax))


def revive(o):
    if isinstance(o, dict):
        return {k: revive(v) for k, v in o.items()}
    if isinstance(o, list):
        return [revive(v) for v in o]
    if o == "nan":
        return NAN
    return o


def replay(ctx, payload):
    case = payload["case"]
    call = revive(case.get("call", case))
    ctx2 = core.Ctx("C14", "quick", payload.get("seed", 0))
    Checker(ctx2).run([call])
    return bool(ctx2.failures)
