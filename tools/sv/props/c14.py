"""C14 — ROC points are POD/POFD of 'forecast >= threshold'; AUC is the trapezoid area."""
from __future__ import annotations

import itertools
import math
from fractions import Fraction

import numpy as np
import xarray as xr

from sv import core

PROPERTY = "C14"
GEN = ["Roc"]
PROPS = ["ScoresVerif/Props/C14.lean", "ScoresVerif/Props/C14Stretch.lean"]
DRIVER_DEPS = ["ScoresVerif.Driver.C14"]
AUDIT_FILES = ["ScoresVerif/Lemmas/C14Stretch.lean", "ScoresVerif/Lemmas/Roc.lean", "ScoresVerif/Lemmas/RocMW1.lean", "ScoresVerif/Lemmas/RocMW.lean",
               "ScoresVerif/Model/Roc.lean", "ScoresVerif/Spec/Roc.lean"]
LEVEL = "proof"
TRUSTED = ["hand-written model Model/Roc.lean of roc_curve_data -> binary_discretise(>=) -> POD/POFD -> -trapezoid; the POD/POFD maps, quotients, weighting/summation frame and the roc call site are regenerated from the source (tools/gen/Roc.py) and proved equal to the model, the rest is "
           "(tied by differential correspondence only, no translator)",
           "the harness groups the cells of the reduced dimensions per preserved index (dimension handling is C01)"]
ASSUMPTIONS = ["forecasts / thresholds are dyadic in [0, 1.25] (including values a hair off a threshold: t -+ 2^-30 and the "
               "neighbouring float, handed to Lean as exact rationals), weights small dyadic: sums and comparisons are exact in "
               "float64; quotients compared to 1e-9",
               "storage dtypes: forecasts also as float32 / float16 (values = float64 thresholds such as 0.1 ... 0.9, 1/3 "
               "rounded to that dtype, and their neighbours) and as int64 / int32 / int8 / uint8 / bool arrays of 0/1, obs "
               "also as integer / bool / float32 / float16; thresholds stay float64; the exact value of every stored "
               "number is what Lean receives (float32(0.7) < 0.7 is not an event at 0.7)",
               "no dask input (F14 belongs to C04); fcst / obs / weights carry the same SET of labels on a shared dimension, "
               "stored in any order per operand (labels 0..n-1, descending latitudes, unsorted floats, strings): the "
               "expectation is computed from the label-aligned arrays, the result is read by label",
               "float rounding is not modelled"]
MANIFEST = dict(
    level="proof",
    text="Kernel-checked Lean theorems about a model of roc_curve_data (binary_discretise with >=, POD/POFD maps with NaN masks "
         "and weights, -trapezoid), for any number of pairs and thresholds over the rationals: each ROC point equals "
         "(POFD, POD) of 'forecast >= t' by weighted counting over the valid pairs (a forecast equal to t is an event; pairs "
         "with a NaN forecast, observation or weight are not counted; 0/0 is NaN), both coordinates are non-increasing in t and "
         "in [0,1] for non-negative weights and equal 1 at a threshold not above any forecast, AUC equals the trapezoid sum "
         "and lies in [0,1] for thresholds accepted by the guard, and AUC equals the (weighted) Mann-Whitney probability (ties "
         "one half) whenever the thresholds contain every forecast value and a value above the largest. The POD/POFD maps, "
         "quotients, the weighting/summation frame and the roc call site (operator.ge, -1 * trapezoid(pod, pofd)) are "
         "regenerated from binary_impl.py / roc_impl.py on every run and proved equal to the model. The model is tied to the code by a differential "
         "correspondence (ties with thresholds, forecasts a hair below / above a threshold, NaN, weights, reductions / "
         "preserved dims incl. dimensions only obs / only fcst / only weights carry, argument checks); the same "
         "statements and the Mann-Whitney equality (thresholds containing 0, every forecast value and a larger value; weighted "
         "form with weights) are evaluated on the implementation against the Lean counting spec in exact rationals, "
         "exhaustively for all forecast/observation vectors up to length 3 (quick) / 5 (thorough) over a 4-value pool. "
         "Forecasts stored as float32 / float16 / integer / bool against float64 thresholds the storage dtype cannot "
         "represent are compared (correspondence and oracle, random and exhaustive up to length 3 / 4) by the exact "
         "values of the stored numbers: a forecast equal to the threshold rounded to its dtype is an event iff that "
         "exact value is >= the float64 threshold.",
    note="Trusted: Lean kernel; propext/Classical.choice/Quot.sound; the hand-written model, tied by the translator for the POD/POFD maps / "
         "quotients / call site and otherwise only by "
         "correspondence on dyadic inputs with tolerance 1e-9; SV.Fl (IEEE minus rounding, overflow, signed zero); the "
         "harness groups the cells that are summed per preserved index (gather_dimensions is C01). Not proved, only compared: "
         "the argument-check model (`raises`), the element-wise discretisation code of discretise.py (model `disc`). "
         "Not modelled: dask input (F14, C04), operands with different label sets (inner join), non-binary observations "
         "with check_args=False. Operands storing the labels of a shared dimension in different orders (weights north-to-south, "
         "data south-to-north) are compared by harness and oracle only: the Lean model / spec receive the label-aligned "
         "(forecast, observation, weight) triples.",
    technique="Lean 4 theorems over a hand model + differential correspondence + exact counting / Mann-Whitney oracle",
    design="6/C14")
RULE = ("one case = (forecast array from a 5-value pool so most values coincide with a threshold -- in 30 % of the calls "
        "moved a hair (2^-30 or one ulp) below / above it --, binary obs with NaN, threshold list, weights, reduction, "
        "check_args; in 1/3 of the calls obs carries a dimension the forecast lacks and the forecast possibly one obs "
        "lacks, weights on any of them or on a dimension of their own; a further stream stores the forecast as float32 / "
        "float16 with values = non-representable float64 thresholds (tenths, thirds) rounded to that dtype or a neighbour, "
        "or as int / bool 0/1, and obs possibly as int / bool / narrow float; another stream lets the weights (85 %), obs or "
        "the forecast store the labels of a shared dimension reversed / rotated / shuffled, weights non-constant along it, plus a "
        "sweep n = 2..5 with skill varying along the re-ordered dimension); distinct = distinct canonical call; non-trivial = some non-NaN "
        "POD or POFD and not malformed")

NAN = float("nan")
POOL = [0.0, 0.25, 0.5, 0.75, 1.0]


# ----------------------------------------------------------------------------- calls
def sizes(call):
    return dict(zip(call["dims"], call["shape"]))


def build(call, canonical=False):
    """`dims` / `shape` describe the union of the dimensions of the three operands; each operand carries its own
    subset (`fcst_dims`, `obs_dims`, `weights_dims`; default: all of `dims`).  The value lists are given in the order of
    the labels `labels[dim]` (default 0..n-1); `store_order[operand][dim]` (a permutation of the positions) is the
    order in which that operand STORES its labels along dim -- the same labelled array, laid out differently, e.g.
    latitude weights north-to-south against a south-to-north forecast.  canonical=True: without the re-ordering (the
    label-aligned arrays the expectation is computed from)."""
    size = sizes(call)
    labels = call.get("labels") or {}
    coords = {d: list(labels.get(d, range(n))) for d, n in size.items()}
    order = {} if canonical else (call.get("store_order") or {})

    def arr(vals, ds, dtype=None, who=None):
        ds = list(ds)
        a = np.array(vals, dtype=float).reshape(tuple(size[d] for d in ds))
        if dtype is not None and dtype != "float64":
            # storage dtype of the operand: the listed values ARE the exact values of the stored numbers (the generator
            # rounds first), so the cast is value-preserving -- refuse anything else rather than compare garbage
            b = a.astype(dtype)
            if not np.array_equal(b.astype(float), a, equal_nan=True):
                raise AssertionError("harness: values not representable in " + str(dtype))
            a = b
        da = xr.DataArray(a, dims=ds, coords={d: coords[d] for d in ds})
        perm = {d: [int(i) for i in p] for d, p in (order.get(who) or {}).items() if d in ds}
        if perm:
            da = da.isel(perm).copy(deep=True)
        return da

    f = arr(call["fcst"], call.get("fcst_dims", call["dims"]), call.get("fcst_dtype"), "fcst")
    o = arr(call["obs"], call.get("obs_dims", call["dims"]), call.get("obs_dtype"), "obs")
    w = None
    if call.get("weights") is not None:
        w = arr(call["weights"], call["weights_dims"], None, "weights")
    return f, o, w


def red_kwargs(call):
    kw = {}
    if call.get("reduce_dims") is not None:
        r = call["reduce_dims"]
        kw["reduce_dims"] = r if isinstance(r, str) else ["".join(list(d)) for d in r]
    if call.get("preserve_dims") is not None:
        p = call["preserve_dims"]
        kw["preserve_dims"] = p if isinstance(p, str) else ["".join(list(d)) for d in p]
    return kw


def data_dims(call):
    """dimensions of fcst or obs (the ones reduce_dims / preserve_dims speak about), in the order of `dims`"""
    fd = call.get("fcst_dims", call["dims"])
    od = call.get("obs_dims", call["dims"])
    return [d for d in call["dims"] if d in fd or d in od]


def preserved(call):
    """dimensions of the result: the data dimensions that are kept (whether fcst, obs or both carry them), then the
    dimensions that only the weights carry (never summed)"""
    dims = list(call["dims"])
    data = data_dims(call)
    wonly = [d for d in dims if d not in data]
    if call.get("reduce_dims") is not None:
        r = call["reduce_dims"]
        red = data if r == "all" else list(r)
        return [d for d in data if d not in red] + wonly
    if call.get("preserve_dims") is not None:
        p = call["preserve_dims"]
        return (data if p == "all" else [d for d in data if d in p]) + wonly
    return wonly


def groups(call):
    """[(index of the preserved dims, [[f, o, w|None], ...])] in row-major order of the preserved dims; every operand
    is broadcast to the union of the dimensions, so a slice along a dimension that only one operand carries pairs
    that operand's slice with the whole of the others"""
    f, o, w = build(call, canonical=True)
    dims = list(call["dims"])
    lab = call.get("labels") or {}
    full = xr.DataArray(np.zeros(tuple(call["shape"])), dims=dims,
                        coords={d: list(lab.get(d, range(n))) for d, n in sizes(call).items()})
    fb = xr.broadcast(f, full)[0].transpose(*dims).values
    ob = xr.broadcast(o, full)[0].transpose(*dims).values
    wb = None
    if w is not None:
        wb = xr.broadcast(w, full)[0].transpose(*dims).values
    P = preserved(call)
    pidx = [dims.index(d) for d in P]
    out = {}
    for idx in itertools.product(*[range(n) for n in call["shape"]]):
        key = tuple(idx[i] for i in pidx)
        out.setdefault(key, []).append([float(fb[idx]), float(ob[idx]), None if wb is None else float(wb[idx])])
    keys = sorted(out)
    return P, [(k, out[k]) for k in keys]


def run_impl(call):
    from scores.probability import roc_curve_data
    f, o, w = build(call)
    try:
        with np.errstate(all="ignore"):
            r = roc_curve_data(f, o, list(call["thresholds"]), weights=w, check_args=bool(call.get("check_args", True)),
                               **red_kwargs(call))
    except Exception as ex:  # noqa: BLE001
        return {"err": core.exc_class(ex)}
    P = preserved(call)
    nt = len(call["thresholds"])
    want = set(P) | {"threshold"}
    got = {v: [str(d) for d in r[v].dims] for v in ("POD", "POFD", "AUC")}
    if set(got["POD"]) != want or set(got["POFD"]) != want or set(got["AUC"]) != set(P):
        # a kept dimension is missing from (or a reduced one present in) the result: no curve per label to compare
        with np.errstate(all="ignore"):
            return {"dims": got, "want_dims": {"POD": sorted(want), "POFD": sorted(want), "AUC": sorted(P)},
                    "pod": np.asarray(r["POD"].values, dtype=float).tolist(),
                    "pofd": np.asarray(r["POFD"].values, dtype=float).tolist(),
                    "auc": np.asarray(r["AUC"].values, dtype=float).tolist()}
    if call.get("store_order") or call.get("labels"):
        # the result may list the labels of a kept dimension in the storage order of any operand: read it by label
        lab = call.get("labels") or {}
        r = r.reindex({d: list(lab.get(d, range(sizes(call)[d]))) for d in P})
    pod = np.asarray(r["POD"].transpose(*P, "threshold").values, dtype=float).reshape(-1, nt)
    pofd = np.asarray(r["POFD"].transpose(*P, "threshold").values, dtype=float).reshape(-1, nt)
    auc = np.asarray(r["AUC"].transpose(*P).values, dtype=float).reshape(-1)
    return {"pod": pod.tolist(), "pofd": pofd.tolist(), "auc": auc.tolist()}


def trip_json(tr):
    return [[core.fl_str(p[0]), core.fl_str(p[1]), None if p[2] is None else core.fl_str(p[2])] for p in tr]


# ----------------------------------------------------------------------------- generators
EPS = 2.0 ** -30


def hair(rng, v):
    """a value a hair below / above v, still exactly representable (and inside [0, 1]): v -+ 2^-30 or the neighbouring
    float; the Lean side receives it as an exact rational, so 'strictly below the threshold' stays strictly below"""
    opts = []
    if v > 0:
        opts += [v - EPS, float(np.nextafter(v, -1.0))]
    if v < 1:
        opts += [v + EPS, float(np.nextafter(v, 2.0))]
    opts = [x for x in opts if 0.0 <= x <= 1.0]      # (a value that already is a hair off 1 stays inside)
    return rng.choice(opts) if opts else v


def subset(rng, ds, must=None):
    k = 1 if (len(ds) == 1 or rng.random() < 0.6) else rng.randrange(1, len(ds) + 1)
    out = rng.sample(list(ds), k)
    if must is not None and must not in out:
        out[rng.randrange(len(out))] = must
    return out


def gen_layout(rng):
    """(dims, shape, fcst_dims, obs_dims, obs-only dim | None): 'classic' = obs dims within the fcst dims; 'mixed' = obs
    carries a dimension the forecast lacks (and the forecast possibly one that obs lacks)"""
    names = ["a", "b", "c"] if rng.random() < 0.8 else ["x", "y", "z"]
    if rng.random() < 0.68:
        nd = rng.choice([1, 2, 2])
        dims = names[:nd]
        shape = [rng.choice([1, 2, 3, 4, 5]) for _ in dims]
        od = [rng.choice(dims)] if (nd == 2 and rng.random() < 0.15) else list(dims)
        return dims, shape, list(dims), od, None
    s_, f_, o_ = rng.sample(names, 3)
    pat = rng.choice(["obs-only", "obs-only", "both", "both", "disjoint"])
    if pat == "obs-only":
        fd, od = [s_], [s_, o_]
    elif pat == "both":
        fd, od = [s_, f_], [s_, o_]
    else:
        fd, od = [f_], [o_]
    rng.shuffle(fd)
    rng.shuffle(od)
    dims = [d for d in names if d in fd or d in od]
    if rng.random() < 0.5:
        rng.shuffle(dims)
    shape = [rng.choice([1, 2, 2, 3, 3, 4]) for _ in dims]
    return dims, shape, fd, od, o_


def gen_call(rng, complete=False, malformed=False, layout=None, hairy=None):
    dims, shape, fd, od = (layout or gen_layout(rng))[:4]
    obs_only = [d for d in od if d not in fd]
    dims, shape = list(dims), list(shape)
    size = dict(zip(dims, shape))
    n = int(np.prod([size[d] for d in fd]))
    pool = POOL if rng.random() < 0.8 else [0.0, 0.125, 0.5, 0.625, 1.0]
    sub = rng.sample(pool, rng.choice([1, 2, 3, 4, 5]))
    fc = [rng.choice(sub) if rng.random() < 0.9 else NAN for _ in range(n)]
    if hairy is None:
        hairy = rng.random() < 0.3
    if hairy:
        # forecasts a hair below / above the values that serve as thresholds (never equal unless drawn so)
        fc = [v if (math.isnan(v) or rng.random() < 0.45) else hair(rng, v) for v in fc]
    if rng.random() < 0.04:
        fc = [NAN] * n
    call = {"dims": dims, "shape": shape, "fcst_dims": list(fd), "fcst": fc}
    on = int(np.prod([size[d] for d in od]))
    style = rng.random()
    obs = [rng.choice([0.0, 1.0]) if rng.random() < 0.88 else NAN for _ in range(on)]
    if style < 0.08:
        obs = [0.0] * on            # no event at all: POD = 0/0
    elif style < 0.16:
        obs = [1.0] * on            # no non-event
    call["obs_dims"] = list(od)
    call["obs"] = obs
    if rng.random() < 0.45:
        data = list(dims)
        wd = rng.choice([data, list(od), list(fd), [rng.choice(data)], [rng.choice(data)]])
        wd = list(wd)
        if rng.random() < 0.1:
            # a dimension that only the weights carry: never summed, one curve per label
            call["dims"] = dims = dims + ["w"]
            call["shape"] = shape = shape + [rng.choice([1, 2, 3])]
            size["w"] = shape[-1]
            wd = wd + ["w"] if rng.random() < 0.6 else ["w"]
        wn = int(np.prod([size[d] for d in wd]))
        call["weights_dims"] = wd
        call["weights"] = [rng.choice([0.0, 0.5, 1.0, 1.0, 2.0, 3.0]) if rng.random() < 0.93 else NAN for _ in range(wn)]
    # thresholds
    vals = sorted({v for v in fc if not math.isnan(v)})
    if complete:
        top = (max(vals) if vals else 0.0)
        ts = set([0.0] + vals + [top + 0.25])
        if hairy:
            ts |= set(sub)          # the value the forecasts sit a hair away from is a threshold too
        ts = sorted(ts)
        if rng.random() < 0.5:
            ts = sorted(set(ts + rng.sample([0.125, 0.375, 0.875, 0.25, 0.5], 2)))
        if rng.random() < 0.3:
            ts = sorted(ts + [rng.choice(ts)])        # a duplicated threshold
        call["thresholds"] = ts
        call["check_args"] = max(ts) <= 1
    else:
        k = rng.choice([1, 2, 3, 4, 5, 6])
        cand = pool + [0.125, 0.375, 0.875]
        ts = [rng.choice(cand) if rng.random() < 0.85 else rng.choice(vals or [0.5]) for _ in range(k)]
        if hairy:
            ts = [t if rng.random() < 0.8 else hair(rng, t) for t in ts]
        ts = sorted(ts)
        if rng.random() < 0.5 and ts[0] != 0.0:
            ts = [0.0] + ts
        call["thresholds"] = ts
        call["check_args"] = rng.random() < 0.7
    data = data_dims(call)
    keep = obs_only[0] if (obs_only and rng.random() < 0.6) else None      # bias: the obs-only dimension is kept
    r = rng.random()
    if r < 0.3:
        pass
    elif r < 0.42:
        call["reduce_dims"] = "all"
    elif r < 0.62:
        red = subset(rng, data)
        if keep is not None and len(data) > 1:
            red = [d for d in red if d != keep] or [rng.choice([d for d in data if d != keep])]
        call["reduce_dims"] = red
    elif r < 0.87:
        call["preserve_dims"] = subset(rng, data, must=keep)
    else:
        call["preserve_dims"] = "all"
    if malformed:
        m = rng.choice(["fcst>1", "fcst<0", "thr>1", "thr<0", "thr-order", "obs-not-binary", "thr-nan"])
        call["malformed"] = m
        call["check_args"] = rng.random() < 0.75
        if m == "fcst>1":
            call["fcst"][rng.randrange(n)] = rng.choice([1.25, 1.0 + EPS, float(np.nextafter(1.0, 2.0))])
        elif m == "fcst<0":
            call["fcst"][rng.randrange(n)] = rng.choice([-0.25, -EPS])
        elif m == "thr>1":
            call["thresholds"] = call["thresholds"] + [1.5]
        elif m == "thr<0":
            call["thresholds"] = [-0.5] + call["thresholds"]
        elif m == "thr-order":
            call["thresholds"] = call["thresholds"] + [call["thresholds"][-1] - 0.125]
        elif m == "obs-not-binary":
            call["obs"][rng.randrange(on)] = rng.choice([2.0, 0.5, -1.0])
        elif m == "thr-nan":
            call["thresholds"] = call["thresholds"] + [NAN]
    return call


# ---- storage dtype of the operands.  The thresholds stay ordinary float64 numbers that the forecast's dtype cannot
# represent (tenths, thirds); the forecast values are the roundings of such numbers to the storage dtype (and their
# neighbours in that dtype).  Every float16 / float32 / small integer IS a float64, so `fcst >= t` has one truth value:
# float32(0.7) = 0.699999988... is NOT >= 0.7 while float32(0.1) = 0.100000001... IS >= 0.1.  The Lean side receives the
# exact value of the stored number as a rational, never a re-rounded one.
DECIMALS = [0.1, 0.2, 0.3, 0.4, 0.6, 0.7, 0.8, 0.9, 1.0 / 3.0, 2.0 / 3.0, 0.35, 0.55, 0.05, 0.95]
FLOAT_DTYPES = ["float32", "float32", "float16"]
INT_DTYPES = ["int64", "int32", "int8", "uint8", "bool"]
OBS_DTYPES = ["int64", "bool", "int8", "float32", "uint8", "float16"]


def stored(v, dtype):
    """the exact value (as a Python float) of the number that storing v in `dtype` yields"""
    return float(np.array(v, dtype=float).astype(dtype))


def neighbour(v, dtype, up):
    """the next number of `dtype` below / above the stored number v (as an exact Python float)"""
    dt = np.dtype(dtype).type
    return float(np.nextafter(dt(v), dt(2.0 if up else -1.0)))


def gen_dtype_call(rng, complete=False, layout=None, kind=None):
    """a call whose forecast is stored as float32 / float16 (values: roundings of non-representable thresholds, their
    neighbours in that dtype, 0, 1, NaN) or as an integer / bool array of 0/1, against float64 thresholds; sometimes obs
    is stored as an integer / bool / narrower float as well.  Layout, weights and reduction come from gen_call."""
    call = gen_call(rng, complete=complete, layout=layout, hairy=False)
    n = len(call["fcst"])
    if kind is None:
        kind = "float" if rng.random() < 0.75 else "int"
    if kind == "float":
        dt = rng.choice(FLOAT_DTYPES)
        base = rng.sample(DECIMALS, rng.choice([1, 2, 3, 4]))
        if rng.random() < 0.7:
            # make sure one of the base values is rounded DOWN by the storage dtype (stored value < threshold)
            down = [t for t in DECIMALS if stored(t, dt) < t]
            base[rng.randrange(len(base))] = rng.choice(down)
        vals = [stored(t, dt) for t in base]
        pool = list(vals)
        if rng.random() < 0.4:
            pool += [neighbour(rng.choice(vals), dt, rng.random() < 0.5)]
        if rng.random() < 0.5:
            pool += [rng.choice([0.0, 1.0, 0.5, 0.25])]
        fc = [rng.choice(pool) if rng.random() < 0.9 else NAN for _ in range(n)]
        cand = list(base) + [0.5, 0.25]
    else:
        dt = rng.choice(INT_DTYPES)
        base = []
        fc = [float(rng.choice([0, 1])) for _ in range(n)]
        if rng.random() < 0.15:
            fc = [float(rng.choice([0, 1]))] * n
        cand = DECIMALS + [0.5, 1.0]
    call["fcst"] = fc
    call["fcst_dtype"] = dt
    present = sorted({v for v in fc if not math.isnan(v)})
    if complete:
        # 0, every stored forecast value, something above the largest -- and the un-rounded numbers next to them
        top = min(1.0, max(present) + 0.25) if present and max(present) < 1.0 else 1.25
        ts = set([0.0] + present + [top]) | set(base)
        if rng.random() < 0.4:
            ts |= set(rng.sample(DECIMALS, 2))
        ts = sorted(ts)
        if rng.random() < 0.25:
            ts = sorted(ts + [rng.choice(ts)])
        call["thresholds"] = ts
        call["check_args"] = max(ts) <= 1 and rng.random() < 0.8
    else:
        k = rng.choice([1, 2, 3, 4, 5, 6])
        ts = [rng.choice(cand) if rng.random() < 0.8 else rng.choice(DECIMALS + (present or [0.5])) for _ in range(k)]
        if rng.random() < 0.25:
            ts = [round(0.1 * i, 1) for i in range(11)]       # the customary 0, 0.1, ..., 1
        ts = sorted(ts)
        if rng.random() < 0.5 and ts[0] != 0.0:
            ts = [0.0] + ts
        call["thresholds"] = ts
        call["check_args"] = rng.random() < 0.7
    if rng.random() < 0.35:
        odt = rng.choice(OBS_DTYPES)
        if np.dtype(odt).kind != "f":
            call["obs"] = [float(rng.choice([0, 1])) if math.isnan(v) else v for v in call["obs"]]
        call["obs_dtype"] = odt
    return call


# ---- storage order of the coordinate labels.  xarray lines operands up by LABEL: an operand that stores the same labels
# in another order (weights built north-to-south for a south-to-north grid, obs read from a file sorted the other way)
# is the same labelled array, so every point must be what the label-aligned arrays give.
LABEL_STYLES = ["int", "int", "lat-descending", "float-unsorted", "str"]


def make_labels(rng, n, style):
    if style == "lat-descending":
        top = rng.choice([90.0, 60.0, 45.5, 10.0])
        return [top - 22.5 * i for i in range(n)]
    if style == "float-unsorted":
        xs = [0.5 * i - 1.0 for i in range(n)]
        rng.shuffle(xs)
        return xs
    if style == "str":
        return ["p%d" % i for i in range(n)]
    return list(range(n))


def make_perm(rng, n):
    """a permutation of range(n) that is not the identity (n >= 2): mostly the reversal"""
    r = rng.random()
    if r < 0.5 or n == 2:
        return list(range(n))[::-1]
    if r < 0.7:
        k = rng.randrange(1, n)
        return list(range(k, n)) + list(range(k))
    while True:
        p = list(range(n))
        rng.shuffle(p)
        if p != list(range(n)):
            return p


def gen_order_call(rng, complete=False, base=None):
    """a call in which an operand stores the labels of a shared dimension in another order than the forecast does:
    mostly the weights (made non-constant along that dimension, forecasts / obs varying along it), also obs or the
    forecast itself; labels are 0..n-1, descending latitudes, unsorted floats or strings"""
    for _ in range(50):
        call = base(rng) if base is not None else (gen_dtype_call(rng, complete=complete) if rng.random() < 0.15 else
                                                    gen_call(rng, complete=complete, hairy=rng.random() < 0.15))
        size = sizes(call)
        if any(n >= 2 for d, n in size.items() if d in data_dims(call)):
            break
    size = sizes(call)
    fd = list(call.get("fcst_dims", call["dims"]))
    od = list(call.get("obs_dims", call["dims"]))
    big = [d for d in data_dims(call) if size[d] >= 2]
    if big and (call.get("weights") is None or not any(d in big for d in call["weights_dims"])) and rng.random() < 0.8:
        # weights along a data dimension with at least two labels
        wd = [rng.choice(big)]
        if rng.random() < 0.3:
            both = set(wd) | {rng.choice(data_dims(call))}
            wd = [d for d in call["dims"] if d in both]
        if call.get("weights") is not None:
            # drop a dimension only the previous weights carried
            keep = [i for i, d in enumerate(call["dims"]) if d in data_dims(call)]
            call["dims"] = [call["dims"][i] for i in keep]
            call["shape"] = [call["shape"][i] for i in keep]
        call["weights_dims"] = wd
        wn = int(np.prod([size[d] for d in wd]))
        call["weights"] = [rng.choice([0.0, 0.5, 1.0, 2.0, 3.0, 4.0]) if rng.random() < 0.95 else NAN for _ in range(wn)]
    if call.get("weights") is not None and len(set(call["weights"])) == 1 and len(call["weights"]) >= 2:
        ws = [0.5, 1.0, 2.0, 3.0, 4.0, 0.25]
        start = rng.randrange(len(ws))
        call["weights"] = [ws[(start + i) % len(ws)] for i in range(len(call["weights"]))]
    size = sizes(call)
    operands = {"fcst": fd, "obs": od}
    if call.get("weights") is not None:
        operands["weights"] = list(call["weights_dims"])
    order = {}
    who_p = {"weights": 0.85, "obs": 0.25, "fcst": 0.2}
    for who, ds in operands.items():
        for d in ds:
            shared = sum(1 for x in operands.values() if d in x) >= 2
            if size[d] >= 2 and shared and rng.random() < who_p[who]:
                order.setdefault(who, {})[d] = make_perm(rng, size[d])
    if not order:
        cand = [(who, d) for who, ds in operands.items() for d in ds if size[d] >= 2]
        if cand:
            who, d = rng.choice([c for c in cand if c[0] == "weights"] or cand)
            order = {who: {d: make_perm(rng, size[d])}}
    if order:
        call["store_order"] = order
    style = rng.choice(LABEL_STYLES)
    if style != "int":
        call["labels"] = {d: make_labels(rng, n, style) for d, n in size.items()}
    return call


def order_sweep_calls(rng):
    """2 x n and n layouts, weights along the longer dimension stored reversed / rotated / shuffled, with the event rate
    and the forecast quality varying along that dimension (so a weight on the wrong label shows in POD, POFD and AUC)"""
    calls = []
    for n in (2, 3, 4, 5):
        for perm in {tuple(range(n))[::-1], tuple(list(range(1, n)) + [0]), tuple(make_perm(rng, n))}:
            for two_d in (False, True):
                m = 3 if two_d else 1
                dims, shape = (["a", "b"], [n, m]) if two_d else (["a"], [n])
                f, o = [], []
                for i in range(n):
                    for _ in range(m):
                        ob = float(rng.choice([0, 1]))
                        o.append(ob if rng.random() < 0.93 else NAN)
                        good = rng.random() < i / max(1, n - 1)
                        f.append((0.75 if ob == 1 else 0.25) if good else rng.choice(POOL))
                ws = rng.sample([0.5, 1.0, 2.0, 3.0, 4.0, 8.0], n)
                c = {"dims": dims, "shape": shape, "fcst_dims": list(dims), "fcst": f, "obs_dims": list(dims), "obs": o,
                     "weights_dims": ["a"], "weights": ws, "thresholds": [0.0, 0.25, 0.5, 0.75, 1.0], "check_args": True,
                     "store_order": {"weights": {"a": list(perm)}}}
                if rng.random() < 0.5:
                    c["labels"] = {"a": make_labels(rng, n, "lat-descending")}
                if two_d and rng.random() < 0.5:
                    c["preserve_dims"] = ["b"] if rng.random() < 0.5 else ["a"]
                calls.append(c)
    return calls


def misordered(call):
    """[operand names] that store a dimension in another order than the forecast does (fcst: than the label order)"""
    so = call.get("store_order") or {}
    f = so.get("fcst") or {}
    out = []
    for who, ds in so.items():
        for d, p in ds.items():
            ref = f.get(d, list(range(len(p)))) if who != "fcst" else list(range(len(p)))
            if list(p) != list(ref):
                out.append(who)
                break
    return out


def describe(call):
    return dict(call)


def rounded_threshold_hit(call):
    """some forecast value differs from a threshold t but equals t rounded to the forecast's storage dtype (the class
    where comparing in the precision of the data instead of exactly would show)"""
    dt = call.get("fcst_dtype")
    if dt is None or np.dtype(dt).kind != "f":
        return False
    vals = {v for v in call["fcst"] if not math.isnan(v)}
    return any(t not in vals and stored(t, dt) in vals for t in call["thresholds"] if not math.isnan(t))


def obs_only_dims(call):
    fd = call.get("fcst_dims", call["dims"])
    return [d for d in call.get("obs_dims", call["dims"]) if d not in fd]


def near_threshold(call):
    """some forecast is strictly off a threshold by less than 1e-6 (the class where a tolerance in >= would show)"""
    ts = [t for t in call["thresholds"] if not math.isnan(t)]
    return any(0 < abs(v - t) < 1e-6 for v in call["fcst"] if not math.isnan(v) for t in ts)


def tag_inputs(ctx, call):
    oo = obs_only_dims(call)
    if oo:
        ctx.tag("obs-only-dim")
        if any(d in preserved(call) for d in oo):
            ctx.tag("obs-only-dim-kept")
    fd = call.get("fcst_dims", call["dims"])
    od = call.get("obs_dims", call["dims"])
    if any(d not in od for d in fd) and oo:
        ctx.tag("fcst-only-and-obs-only-dim")
    if call.get("weights") is not None and any(d not in data_dims(call) for d in call["weights_dims"]):
        ctx.tag("weights-only-dim")
    if len(call["fcst"]) <= 400 and near_threshold(call):
        ctx.tag("fcst-a-hair-off-threshold")
    if call.get("fcst_dtype") is not None:
        ctx.tag("fcst-dtype:" + str(call["fcst_dtype"]))
        if len(call["fcst"]) <= 400 and rounded_threshold_hit(call):
            ctx.tag("fcst-eq-threshold-rounded-to-its-dtype")
    if call.get("obs_dtype") is not None:
        ctx.tag("obs-dtype:" + str(call["obs_dtype"]))
    for who in misordered(call):
        ctx.tag("labels-stored-in-another-order:" + who)
        if who == "weights" and len({v for v in call["weights"] if not math.isnan(v)}) > 1:
            ctx.tag("non-constant-weights-stored-in-another-order")
    if call.get("labels"):
        ctx.tag("non-default-labels")


def nontrivial(res):
    if "err" in res:
        return False
    return bool(np.any(~np.isnan(np.asarray(res["pod"], dtype=float))) or np.any(~np.isnan(np.asarray(res["pofd"], dtype=float))))


def all_vals(call):
    f, o, _ = build(call)
    return [float(v) for v in f.values.ravel()], [float(v) for v in o.values.ravel()]


# ----------------------------------------------------------------------------- tie X
def correspondence(ctx):
    rng = ctx.rng
    calls = [gen_call(rng, complete=rng.random() < 0.3) for _ in range(ctx.n(220, 5000))]
    calls += [gen_call(rng, malformed=True) for _ in range(ctx.n(40, 700))]
    calls += [gen_dtype_call(rng, complete=rng.random() < 0.3) for _ in range(ctx.n(70, 1500))]
    calls += [gen_order_call(rng, complete=rng.random() < 0.3) for _ in range(ctx.n(60, 1200))]
    ops, idx = [], []
    for ci, c in enumerate(calls):
        fv, ov = all_vals(c)
        ops.append({"op": "c14.raises", "args": {"check_args": bool(c["check_args"]), "f": [core.fl_str(v) for v in fv],
                                                 "o": [core.fl_str(v) for v in ov],
                                                 "thresholds": [core.fl_str(t) for t in c["thresholds"]]}})
        P, gs = groups(c)
        idx.append((len(ops), len(gs)))
        for _, tr in gs:
            ops.append({"op": "c14.model", "args": {"triples": trip_json(tr), "thresholds": [core.fl_str(t) for t in c["thresholds"]]}})
    res = core.run_driver("C14", ops)
    for ci, c in enumerate(calls):
        s, k = idx[ci]
        raises = res[s - 1]
        r = run_impl(c)
        batch = "impl-vs-model" if not c.get("malformed") else "malformed-arguments"
        ctx.case(batch, describe(c), nontrivial=nontrivial(r) and not c.get("malformed"))
        ctx.tag("malformed" if c.get("malformed") else "wellformed")
        if c.get("weights") is not None:
            ctx.tag("weights")
        ctx.tag("preserve:" + str(len(preserved(c))))
        tag_inputs(ctx, c)
        if raises is True or "err" in r:
            ctx.tag("raises")
            if not (raises is True and r.get("err") == "ValueError"):
                ctx.fail(batch, "correspondence", "roc_curve_data", "exception", describe(c), observed=r,
                         expected={"err": "ValueError"} if raises is True else "a value", tags={"malformed": c.get("malformed")})
            continue
        if "dims" in r:
            ctx.tag("result-dims-mismatch")
            ctx.fail(batch, "correspondence", "roc_curve_data", "result-dims", describe(c), observed=r["dims"],
                     expected=r["want_dims"], tags={"obs_only_dim": bool(obs_only_dims(c))})
            continue
        for gi in range(k):
            m = res[s + gi]
            ok = (all(core.close(a, b) for a, b in zip(r["pod"][gi], m["pod"])) and
                  all(core.close(a, b) for a, b in zip(r["pofd"][gi], m["pofd"])) and core.close(r["auc"][gi], m["auc"]))
            if not ok or len(r["pod"]) != k:
                ctx.fail(batch, "correspondence", "roc_curve_data", "value", describe(c),
                         observed={"pod": r["pod"][gi], "pofd": r["pofd"][gi], "auc": r["auc"][gi]}, expected=m,
                         tags={"group": gi})
                break


# ----------------------------------------------------------------------------- the property on the implementation
def is_complete(tr, ts):
    vals = {p[0] for p in tr if not math.isnan(p[0])}
    if not vals:
        return False
    return 0.0 in ts and vals <= set(ts) and max(ts) > max(vals)


def weights_nonneg(tr):
    return all(p[2] is None or math.isnan(p[2]) or p[2] >= 0 for p in tr)


class Checker:
    MAX_FAIL_PER_CALL = 3

    def __init__(self, ctx):
        self.ctx = ctx
        self.nfail = 0
        self.per_sig = {}
        self.minimising = False

    def fail(self, batch, call, sig, observed, expected, theorem=None, extra=None):
        self.nfail += 1
        tr = (extra or {}).get("triples_for_min")
        if extra:
            extra = {k: v for k, v in extra.items() if k != "triples_for_min"}
        self.per_sig[sig] = self.per_sig.get(sig, 0) + 1
        if tr is not None and not self.minimising and self.per_sig[sig] <= 2:
            # report the single ROC curve that fails as a self-contained 1-D call (when it fails on its own)
            small = {"dims": ["k"], "shape": [len(tr)], "fcst": [p[0] for p in tr], "obs_dims": ["k"], "obs": [p[1] for p in tr],
                     "thresholds": list(call["thresholds"]), "check_args": bool(call.get("check_args", True))}
            for kk in ("fcst_dtype", "obs_dtype"):
                if call.get(kk) is not None:
                    small[kk] = call[kk]
            if tr and tr[0][2] is not None:
                small["weights_dims"] = ["k"]
                small["weights"] = [p[2] for p in tr]
            if call.get("store_order") and len(tr) >= 2:
                # the same pairs as one labelled 1-D call whose weights / obs store the labels in reverse
                who = [w for w in misordered(call) if w != "fcst"] or ["obs"]
                small["store_order"] = {w: {"k": list(range(len(tr)))[::-1]} for w in who
                                        if w != "weights" or "weights" in small}
            sub = Checker(core.Ctx("C14", "quick", 0))
            sub.minimising = True
            try:
                sub.run([small])
            except Exception:  # noqa: BLE001
                sub.ctx.failures = []
            if sub.ctx.failures:
                call = small
                extra = dict(extra or {}, minimised_from_shape=None)
        if len(call.get("fcst", [])) > 400:
            call = dict(call, fcst="<%d values omitted>" % len(call["fcst"]), obs="<omitted>", not_replayable=True)
        case = {"check": batch, "call": describe(call)}
        if extra:
            case.update(extra)
        self.ctx.fail(batch, "property", "roc_curve_data", sig, case, observed=observed, expected=expected,
                      tags={"check": batch}, theorem=theorem)

    def run(self, calls):
        ops, idx = [], []
        for c in calls:
            P, gs = groups(c)
            idx.append((len(ops), gs))
            for _, tr in gs:
                ops.append({"op": "c14.spec", "args": {"triples": trip_json(tr),
                                                       "thresholds": [core.fl_str(t) for t in c["thresholds"]]}})
        res = core.run_driver("C14", ops)
        for c, (s, gs) in zip(calls, idx):
            if self.nfail >= 40:
                return      # the search has its failing inputs
            r = run_impl(c)
            self.ctx.case("roc-point-eq-pod-pofd", describe(c), nontrivial=nontrivial(r))
            if "err" in r:
                self.fail("roc-point-eq-pod-pofd", c, "exception", r, "a value")
                continue
            tag_inputs(self.ctx, c)
            ts = c["thresholds"]
            if "dims" in r:
                # the curve of each label of a kept dimension must be the curve of that slice alone: here the result
                # does not even carry the dimension
                self.fail("roc-point-eq-pod-pofd", c, "result-dims", {"dims": r["dims"], "POD": r["pod"], "POFD": r["pofd"]},
                          {"dims": r["want_dims"], "kept": preserved(c),
                           "POD per label": [[list(key), res[s + gi]["pod"]] for gi, (key, _) in enumerate(gs)][:12],
                           "POFD per label": [[list(key), res[s + gi]["pofd"]] for gi, (key, _) in enumerate(gs)][:12]},
                          "roc_point_eq_pod_pofd")
                continue
            start = self.nfail
            for gi, (key, tr) in enumerate(gs):
                if self.nfail - start >= self.MAX_FAIL_PER_CALL:
                    break
                sp = res[s + gi]
                pod, pofd, auc = r["pod"][gi], r["pofd"][gi], r["auc"][gi]
                # 1. each point is POD / POFD of `forecast >= t` by direct counting over the valid pairs
                for name, got, want in (("POD", pod, sp["pod"]), ("POFD", pofd, sp["pofd"])):
                    bad = [k for k in range(len(ts)) if not core.close(got[k], want[k])]
                    if bad:
                        self.fail("roc-point-eq-pod-pofd", c, "point:" + name, got, want, "roc_point_eq_pod_pofd",
                                  {"group": list(key), "threshold": ts[bad[0]], "triples_for_min": tr})
                        break
                # 2. non-increasing in t (non-negative weights); 1 at t = 0 (else NaN as 0/0)
                if weights_nonneg(tr):
                    for name, v in (("POD", pod), ("POFD", pofd)):
                        fin = [x for x in v if not math.isnan(x)]
                        if len(fin) != len(v) and fin:
                            self.fail("monotone-and-one-at-zero", c, "partly-nan:" + name, v, "all NaN or no NaN", None,
                                      {"group": list(key), "triples_for_min": tr})
                        elif any(fin[k + 1] > fin[k] + 1e-12 for k in range(len(fin) - 1)):
                            self.fail("monotone-and-one-at-zero", c, "increasing:" + name, v, "non-increasing in threshold",
                                      "pod_antitone / pofd_antitone", {"group": list(key), "triples_for_min": tr})
                        elif fin and ts[0] == 0.0 and abs(fin[0] - 1.0) > 1e-12:
                            self.fail("monotone-and-one-at-zero", c, "not-one-at-zero:" + name, v, "1 at threshold 0",
                                      "pod_zero_eq_one / pofd_zero_eq_one", {"group": list(key), "triples_for_min": tr})
                        elif fin and (min(fin) < -1e-12 or max(fin) > 1 + 1e-12):
                            self.fail("monotone-and-one-at-zero", c, "outside-unit-interval:" + name, v, "in [0,1]", None,
                                      {"group": list(key), "triples_for_min": tr})
                    self.ctx.batches.setdefault("monotone-and-one-at-zero", {"cases": 0, "failed": 0})["cases"] += 1
                # 3. AUC is the trapezoid area under the returned points, and lies in [0, 1]
                b = self.ctx.batches.setdefault("auc-eq-trapezoid", {"cases": 0, "failed": 0})
                b["cases"] += 1
                if len(ts) >= 2 and any(math.isnan(x) for x in pod + pofd):
                    trap = NAN
                else:
                    trap = sum((pofd[k] - pofd[k + 1]) * (pod[k] + pod[k + 1]) / 2 for k in range(len(ts) - 1))
                if not core.close_ff(auc, trap) or not core.close(auc, sp["auc"]):
                    self.fail("auc-eq-trapezoid", c, "auc", auc, {"trapezoid of returned points": trap, "spec": sp["auc"]},
                              "auc_eq_trapezoid", {"group": list(key), "triples_for_min": tr})
                elif weights_nonneg(tr) and not math.isnan(auc) and (auc < -1e-12 or auc > 1 + 1e-12):
                    self.fail("auc-eq-trapezoid", c, "auc-outside-unit-interval", auc, "in [0,1]", "trapArea_mem_unit",
                              {"group": list(key), "triples_for_min": tr})
                # 4. Mann-Whitney when the thresholds contain 0, every forecast value and something above the largest
                valid = [p for p in tr if not (math.isnan(p[0]) or math.isnan(p[1]) or (p[2] is not None and math.isnan(p[2])))]
                if valid and is_complete(valid, ts) and weights_nonneg(tr):
                    b = self.ctx.batches.setdefault("auc-eq-mann-whitney", {"cases": 0, "failed": 0})
                    b["cases"] += 1
                    self.ctx.tag("mann-whitney-applicable")
                    if not core.close(auc, sp["mw"]):
                        self.fail("auc-eq-mann-whitney", c, "auc-vs-mann-whitney", auc, sp["mw"], "auc_eq_mannWhitney",
                                  {"group": list(key), "triples_for_min": tr})


def exhaustive_calls(nmax):
    """every forecast vector over a 4-value pool with every binary observation vector, n <= nmax, one vectorised call
    per n (rows are independent ROC curves: preserve_dims=['a'])"""
    pool = [0.0, 0.25, 0.5, 1.0]
    calls = []
    for n in range(1, nmax + 1):
        rows_f, rows_o = [], []
        for fs in itertools.product(pool, repeat=n):
            for os_ in itertools.product([0.0, 1.0], repeat=n):
                rows_f += list(fs)
                rows_o += list(os_)
        m = len(rows_f) // n
        calls.append({"dims": ["a", "b"], "shape": [m, n], "fcst": rows_f, "obs_dims": ["a", "b"], "obs": rows_o,
                      "thresholds": [0.0, 0.25, 0.5, 1.0, 1.25], "check_args": False, "preserve_dims": ["a"]})
    return calls


H = EPS
HAIR_POOL = [0.25 - H, 0.25, float(np.nextafter(0.5, 0.0)), 0.5 + H]
HAIR_THRESHOLDS = [0.0, 0.25, 0.5, 0.5 + H, 1.0]


def exhaustive_hair_calls(nmax):
    """every forecast vector over {1/4 - 2^-30, 1/4, nextafter(1/2, 0), 1/2 + 2^-30} (values a hair off a threshold,
    exactly representable) with every binary observation vector, thresholds {0, 1/4, 1/2, 1/2 + 2^-30, 1}: complete in
    the Mann-Whitney sense only where the vector avoids the two 'below' values, the points are checked for all"""
    calls = []
    for n in range(1, nmax + 1):
        rows_f, rows_o = [], []
        for fs in itertools.product(HAIR_POOL, repeat=n):
            for os_ in itertools.product([0.0, 1.0], repeat=n):
                rows_f += list(fs)
                rows_o += list(os_)
        m = len(rows_f) // n
        calls.append({"dims": ["a", "b"], "shape": [m, n], "fcst": rows_f, "obs_dims": ["a", "b"], "obs": rows_o,
                      "thresholds": list(HAIR_THRESHOLDS), "check_args": n % 2 == 1, "preserve_dims": ["a"]})
        # the same vectors with every value of the vector among the thresholds (Mann-Whitney applies to every row)
        calls.append(dict(calls[-1], thresholds=sorted(set(HAIR_THRESHOLDS + HAIR_POOL))))
    return calls


DTYPE_BASE = [0.1, 0.3, 0.7, 0.9]       # float32 rounds 0.7, 0.9 down and 0.1, 0.3 up; float16 rounds 0.1, 0.9 down, 0.3, 0.7 up
DTYPE_THRESHOLDS = [0.0, 0.1, 0.3, 0.7, 0.9, 1.0]


def exhaustive_dtype_calls(nmax):
    """float32 and float16 forecasts: every vector over {0.1, 0.3, 0.7, 0.9 rounded to the storage dtype} x every binary
    obs vector, float64 thresholds {0, 0.1, 0.3, 0.7, 0.9, 1} (a stored value rounded down is NOT an event at its own
    threshold) and those plus the stored values (Mann-Whitney applies to every row); integer / bool forecasts: every
    0/1 vector x every binary obs vector against thresholds {0, 0.1, 0.5, 0.9, 1}"""
    calls = []
    for dt in ("float32", "float16"):
        pool = [stored(t, dt) for t in DTYPE_BASE]
        for n in range(1, nmax + 1):
            rows_f, rows_o = [], []
            for fs in itertools.product(pool, repeat=n):
                for os_ in itertools.product([0.0, 1.0], repeat=n):
                    rows_f += list(fs)
                    rows_o += list(os_)
            m = len(rows_f) // n
            calls.append({"dims": ["a", "b"], "shape": [m, n], "fcst": rows_f, "fcst_dtype": dt, "obs_dims": ["a", "b"],
                          "obs": rows_o, "thresholds": list(DTYPE_THRESHOLDS), "check_args": n % 2 == 1,
                          "preserve_dims": ["a"]})
            calls.append(dict(calls[-1], thresholds=sorted(set(DTYPE_THRESHOLDS + pool))))
    for dt, odt in (("int64", None), ("bool", "bool"), ("int8", "int64"), ("uint8", None)):
        for n in range(1, nmax + 1):
            rows_f, rows_o = [], []
            for fs in itertools.product([0.0, 1.0], repeat=n):
                for os_ in itertools.product([0.0, 1.0], repeat=n):
                    rows_f += list(fs)
                    rows_o += list(os_)
            m = len(rows_f) // n
            c = {"dims": ["a", "b"], "shape": [m, n], "fcst": rows_f, "fcst_dtype": dt, "obs_dims": ["a", "b"],
                 "obs": rows_o, "thresholds": [0.0, 0.1, 0.5, 0.9, 1.0], "check_args": n % 2 == 0, "preserve_dims": ["a"]}
            if odt is not None:
                c["obs_dtype"] = odt
            calls.append(c)
            calls.append(dict(c, thresholds=[0.0, 1.0 / 3.0, 1.0, 1.25], check_args=False))
    return calls


def dims_sweep_calls(rng):
    """every layout in which obs carries a dimension the forecast lacks x every reduce_dims / preserve_dims request
    over the data dimensions (random values, with and without weights)"""
    calls = []
    layouts = [(["s", "o"], [3, 2], ["s"], ["s", "o"]), (["o", "s"], [2, 3], ["s"], ["o", "s"]),
               (["s", "f", "o"], [2, 2, 3], ["s", "f"], ["o", "s"]), (["f", "o"], [3, 2], ["f"], ["o"]),
               (["o", "f", "s"], [2, 1, 3], ["f", "s"], ["s", "o"])]
    for dims, shape, fd, od in layouts:
        reqs = [{}, {"reduce_dims": "all"}, {"preserve_dims": "all"}]
        for k in range(1, len(dims) + 1):
            for sub in itertools.combinations(dims, k):
                reqs.append({"reduce_dims": list(sub)})
                reqs.append({"preserve_dims": list(sub)})
        for rq in reqs:
            c = gen_call(rng, complete=rng.random() < 0.5, layout=(dims, shape, fd, od), hairy=False)
            c = {k: v for k, v in c.items() if k not in ("reduce_dims", "preserve_dims")}
            c.update(rq)
            calls.append(c)
    return calls


def oracle(ctx, boost):
    rng = ctx.rng
    k = 5 if boost else 1
    ch = Checker(ctx)
    calls = [gen_call(rng, complete=rng.random() < 0.5) for _ in range(ctx.n(250, 6000) * k)]
    calls += [gen_call(rng, complete=rng.random() < 0.5, hairy=True) for _ in range(ctx.n(60, 1200) * k)]
    calls += [gen_dtype_call(rng, complete=rng.random() < 0.5) for _ in range(ctx.n(90, 2000) * k)]
    calls += dims_sweep_calls(rng)
    calls += [gen_order_call(rng, complete=rng.random() < 0.5) for _ in range(ctx.n(80, 1500) * k)]
    calls += order_sweep_calls(rng)
    ch.run(calls)
    nmax = 5 if (ctx.thorough or boost) else 3
    ctx.exhaustive.append(f"all forecast vectors over the pool {{0,1/4,1/2,1}} x all binary obs vectors, n <= {nmax}, "
                          "thresholds {0,1/4,1/2,1,5/4}: points, monotonicity, trapezoid, Mann-Whitney")
    ch.run(exhaustive_calls(nmax))
    hmax = 4 if (ctx.thorough or boost) else 3
    ctx.exhaustive.append(f"all forecast vectors over {{1/4 - 2^-30, 1/4, nextafter(1/2,0), 1/2 + 2^-30}} x all binary obs "
                          f"vectors, n <= {hmax}, thresholds {{0,1/4,1/2,1/2 + 2^-30,1}} and those plus the pool: a forecast a "
                          "hair below a threshold is not an event")
    ch.run(exhaustive_hair_calls(hmax))
    ctx.exhaustive.append(f"float32 / float16 forecasts: all vectors over {{0.1, 0.3, 0.7, 0.9 rounded to the storage dtype}} x "
                          f"all binary obs vectors, n <= {hmax}, float64 thresholds {{0,0.1,0.3,0.7,0.9,1}} and those plus the "
                          "stored values (a stored value below its threshold is not an event); int64 / int8 / uint8 / bool "
                          "forecasts: all 0/1 vectors x all binary obs vectors against {0,0.1,0.5,0.9,1} and {0,1/3,1,5/4}")
    ch.run(exhaustive_dtype_calls(hmax))
    ctx.exhaustive.append("weights along a dimension of n = 2..5 labels stored reversed / rotated / shuffled against the data "
                          "(1-D and n x 3, forecast skill varying along it): every point is the label-aligned weighted count")
    ctx.exhaustive.append("5 layouts where obs carries a dimension the forecast lacks x every reduce_dims / preserve_dims "
                          "subset of the data dimensions: one curve per label of every kept dimension")


def revive(o):
    if isinstance(o, dict):
        return {k: revive(v) for k, v in o.items()}
    if isinstance(o, list):
        return [revive(v) for v in o]
    if o == "nan":
        return NAN
    return o


def replay(ctx, payload):
    case = payload["case"]
    call = revive(case.get("call", case))
    ctx2 = core.Ctx("C14", "quick", payload.get("seed", 0))
    Checker(ctx2).run([call])
    return bool(ctx2.failures)
