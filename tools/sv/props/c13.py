"""C13 — Brier scores equal their definitions, including the fair ensemble correction."""
from __future__ import annotations

import math
import operator

import numpy as np
import xarray as xr

from sv import core

PROPERTY = "C13"
GEN = ["Discretise", "Brier"]
PROPS = ["ScoresVerif/Props/C13.lean"]
DRIVER_DEPS = ["ScoresVerif.Driver.C13Spec", "ScoresVerif.Driver.C13"]
LEVEL = "proof"
TRUSTED = ["SV.PyOp / SV.PyMode (Model/Discretise.lean) as the meaning of Python's operator functions and of `not in [...]`",
           "Model/C13.lean: list-level model of .sum(dim=member), apply_weights, .mean(dim) (skipna), max/min guards",
           "xarray broadcasting / reductions (compared, not modelled beyond flattening)"]
ASSUMPTIONS = ["members, observations, thresholds and weights are dyadic (k/4) so comparisons are exact; quotients compared to 1e-9",
               "Dataset inputs and dask arrays are not generated; gather_dimensions is C01's subject (only 'all reduced', "
               "'cases preserved' and one-dimension reductions are exercised here)"]
MANIFEST = dict(
    level="proof",
    text="Kernel-checked Lean theorems about definitions regenerated from brier_impl.py / standard_impl.py / utils.py on every "
         "run: the translated per-case expression equals (i/m - y)^2 - [fair and m>1] i(m-i)/(m^2(m-1)) for all 0<=i<=m "
         "(m=1: correction 0 from the 0/0->fillna(0) branch; m=0 and missing observation: NaN); the assembled case (member "
         "counts over ensembles of any size, observed event via the translated comparative_discretise) IS the definition for "
         "each of the four operators; >= vs < and > vs <= give identical scores for every threshold incl. ties and NaN "
         "members; correction in [0, 1/(4(m-1))]; other operators rejected; brier_score kernel = mse kernel = squared "
         "difference, range guard and check_binary set characterised, checked/unchecked results = mean squared difference. "
         "Tied to the code by the translator, a differential correspondence (incl. the exhaustive i<=m<=6 grid) and an "
         "independent oracle (Lean Spec only + operator complementarity between implementation runs).",
    note="Trusted: Lean kernel; propext/Classical.choice/Quot.sound; py2lean + tools/gen/{Brier,Discretise}.py; SV.Fl (IEEE "
         "minus rounding, overflow, signed zero); SV.PyOp/PyMode; the list-level hand model Model/C13.lean (sum over the "
         "member dimension as a count, apply_weights, mean(skipna) over cases, nan-skipping max/min feeding the range guard, "
         "monotone-threshold guard), compared with the implementation, not translated. Not modelled: Dataset/dask inputs, "
         "the dimension bookkeeping of gather_dimensions (C01), threshold_dim name clashes. Float rounding: scores that are "
         "exactly 0 in rationals may be ~1e-17 in floats (within the 1e-9 tolerance).",
    technique="Lean 4 theorems over translator-regenerated definitions + differential correspondence + property oracle "
              "(when the source leaves the translatable subset the generator substitutes the hand-written fallback model "
              "tools/gen/_fallback_*.lean for that definition, records it as inapplicable, and the correspondence carries it)",
    design="6/C13")
RULE = ("ensembles of 1-5 members with 50 % of member values and 40 % of observations placed exactly on a threshold, NaN members "
        "(incl. all-NaN and single valid member), 1-3 thresholds, 4 operators x fair on/off/default x weights; distinct = "
        "distinct canonical input; non-trivial = at least one non-NaN score and not in the malformed stream")

NAN = float("nan")
COMPL = {"ge": "lt", "lt": "ge", "gt": "le", "le": "gt"}


def fresh(s):
    return "".join(list(s))


def fls(xs):
    return [core.fl_str(x) for x in xs]


# ----------------------------------------------------------------------------- ensemble cases
def gen_ens_case(rng, malformed_ok=True):
    nthr = rng.choice([1, 1, 2, 3])
    thr = sorted(core.dyadic(rng, -3, 3) for _ in range(nthr))
    if rng.random() < 0.2:
        thr[rng.randrange(nthr)] = 0.0
        thr.sort()
    if nthr > 1 and rng.random() < 0.2:
        thr[1] = thr[0]
    ncase = rng.choice([1, 2, 3, 4])
    nmem = rng.choice([1, 1, 2, 3, 4, 5])
    pn = rng.choice([0.0, 0.2, 0.5])

    def member():
        r = rng.random()
        if r < pn:
            return NAN
        if r < pn + (1 - pn) * 0.5:
            return rng.choice(thr) + rng.choice([0, 0, 0.25, -0.25])
        return core.dyadic(rng, -4, 4)
    fcst = [[member() for _ in range(nmem)] for _ in range(ncase)]
    if rng.random() < 0.15:
        fcst[rng.randrange(ncase)] = [NAN] * nmem                     # a case without any member
    if nmem > 1 and rng.random() < 0.2:
        k = rng.randrange(ncase)
        fcst[k] = [NAN] * nmem
        fcst[k][rng.randrange(nmem)] = rng.choice(thr)                # a single valid member
    obs = []
    for _ in range(ncase):
        r = rng.random()
        obs.append(NAN if r < 0.12 else rng.choice(thr) + rng.choice([0, 0.25, -0.25]) if r < 0.6 else core.dyadic(rng, -4, 4))
    op = rng.choice(list(COMPL))
    fair = rng.choice([True, False, "omit"])
    weights = None
    if rng.random() < 0.4:
        weights = [rng.choice([0.0, 0.25, 0.5, 1.0, 2.0, 1.0, NAN if rng.random() < 0.3 else 1.5]) for _ in range(ncase)]
    malformed = None
    if malformed_ok:
        r = rng.random()
        if r < 0.05:
            op = rng.choice(["eq", "ne", "add"])
            malformed = "operator"
        elif r < 0.09 and nthr > 1 and thr[0] != thr[-1]:
            thr = list(reversed(thr))
            malformed = "thresholds-order"
    return {"fcst": fcst, "obs": obs, "thr": thr, "scalar_thr": nthr == 1 and rng.random() < 0.5, "op": op, "fair": fair,
            "weights": weights, "member_first": rng.random() < 0.3, "malformed": malformed,
            "thr_dim": rng.choice([None, None, "thr", "event level"])}


def run_ens(case, op=None):
    """returns ('ok', cases[case][thr], mean[thr]) | ('err', class)"""
    from scores.probability import brier_score_for_ensemble
    op = op or case["op"]
    f = np.array(case["fcst"], dtype=float)
    if case["member_first"]:
        fx = xr.DataArray(f.T.copy(), dims=[fresh("member"), fresh("case")])
    else:
        fx = xr.DataArray(f, dims=[fresh("case"), fresh("member")])
    ox = xr.DataArray(np.array(case["obs"], dtype=float), dims=[fresh("case")])
    thr = case["thr"]
    if case["scalar_thr"]:
        thr = int(thr[0]) if float(thr[0]).is_integer() and case.get("int_thr") else thr[0]
    kw = {}
    if case["fair"] != "omit":
        kw["fair_correction"] = case["fair"]
    if case["weights"] is not None:
        kw["weights"] = xr.DataArray(np.array(case["weights"], dtype=float), dims=[fresh("case")])
    if not (op == "ge" and case.get("default_op")):
        kw["event_threshold_operator"] = getattr(operator, op)
    tdim = "threshold"
    if case.get("thr_dim"):          # the caller names the threshold dimension of the output
        tdim = case["thr_dim"]
        kw["threshold_dim"] = fresh(tdim)
    try:
        with np.errstate(all="ignore"):
            a = brier_score_for_ensemble(fx, ox, fresh("member"), thr, preserve_dims=[fresh("case")], **kw)
            b = brier_score_for_ensemble(fx, ox, fresh("member"), thr, **kw)
        if set(a.dims) != {"case", tdim} or tuple(b.dims) != (tdim,):
            return ("err", f"shape: dims {a.dims} / {b.dims}")
        return ("ok", np.asarray(a.transpose("case", tdim).values, dtype=float).tolist(),
                np.asarray(b.values, dtype=float).tolist())
    except Exception as ex:  # noqa: BLE001
        return ("err", core.exc_class(ex))


def ens_args(case, op=None):
    fair = True if case["fair"] == "omit" else case["fair"]
    return {"fcst": [fls(r) for r in case["fcst"]], "obs": fls(case["obs"]), "thresholds": fls(case["thr"]),
            "op": op or case["op"], "fair": fair, "weights": None if case["weights"] is None else fls(case["weights"])}


def close_matrix(impl, model):
    return len(impl) == len(model) and all(len(a) == len(b) and all(core.close(x, y) for x, y in zip(a, b))
                                           for a, b in zip(impl, model))


def ens_matches(res, m):
    if "err" in m:
        return res[0] == "err" and res[1] == m["err"]
    m = m.get("ok", m)
    return res[0] == "ok" and close_matrix(res[1], m["cases"]) and len(res[2]) == len(m["mean"]) \
        and all(core.close(x, y) for x, y in zip(res[2], m["mean"]))


def ens_desc(case):
    return {k: case.get(k) for k in ("fcst", "obs", "thr", "scalar_thr", "op", "fair", "weights", "member_first", "thr_dim")}


def ens_tags(case):
    ms = [sum(1 for x in r if not math.isnan(x)) for r in case["fcst"]]
    return {"op": case["op"], "fair": str(case["fair"]), "weights": case["weights"] is not None,
            "m": "zero" if 0 in ms else "one" if 1 in ms else "many"}


# ----------------------------------------------------------------------------- brier_score cases
def gen_brier_case(rng):
    na, nb = rng.choice([1, 2, 3]), rng.choice([1, 2, 3])
    bad_f = rng.random() < 0.15
    bad_o = rng.random() < 0.15

    def fv():
        r = rng.random()
        if r < 0.15:
            return NAN
        if bad_f and r < 0.45:
            return rng.choice([1.25, -0.25, 2.0, -1.0, 1.5, float("inf"), float("-inf")])
        return rng.choice([0.0, 0.25, 0.5, 0.75, 1.0, 1.0, 0.0])

    def ov():
        r = rng.random()
        if r < 0.15:
            return NAN
        if bad_o and r < 0.45:
            return rng.choice([0.5, 2.0, -1.0, 0.25, float("inf"), float("-inf")])
        return rng.choice([0.0, 1.0])
    f = [[fv() for _ in range(nb)] for _ in range(na)]
    o = [[ov() for _ in range(nb)] for _ in range(na)]
    if rng.random() < 0.1:
        f = [[NAN] * nb for _ in range(na)]
    w = None
    if rng.random() < 0.35:
        w = [[rng.choice([0.0, 0.5, 1.0, 2.0, 0.25]) for _ in range(nb)] for _ in range(na)]
    return {"f": f, "o": o, "w": w, "check": rng.choice([True, True, False, "omit"]),
            "red": rng.choice([None, None, "all", [fresh("a")], [fresh("b")]])}


def run_brier(case):
    from scores.probability import brier_score
    fx = xr.DataArray(np.array(case["f"], dtype=float), dims=[fresh("a"), fresh("b")])
    ox = xr.DataArray(np.array(case["o"], dtype=float), dims=[fresh("a"), fresh("b")])
    kw = {}
    if case["w"] is not None:
        kw["weights"] = xr.DataArray(np.array(case["w"], dtype=float), dims=[fresh("a"), fresh("b")])
    if case["check"] != "omit":
        kw["check_args"] = case["check"]
    if case["red"] is not None:
        kw["reduce_dims"] = case["red"]
    try:
        with np.errstate(all="ignore"):
            out = brier_score(fx, ox, **kw)
        return ("ok", np.asarray(out.values, dtype=float).ravel().tolist(), tuple(out.dims))
    except Exception as ex:  # noqa: BLE001
        return ("err", core.exc_class(ex))


def brier_fibres(case):
    """the flattened (f, o, w) lists of each output cell, in output order"""
    f, o, w = np.array(case["f"], dtype=float), np.array(case["o"], dtype=float), case["w"]
    w = None if w is None else np.array(w, dtype=float)
    red = case["red"]
    if red is None or red == "all":
        idx = [np.ones(f.shape, dtype=bool)]
    elif red[0] == "a":
        idx = [np.array([[j == k for j in range(f.shape[1])] for _ in range(f.shape[0])]) for k in range(f.shape[1])]
    else:
        idx = [np.array([[i == k for _ in range(f.shape[1])] for i in range(f.shape[0])]) for k in range(f.shape[0])]
    return [(f[m].tolist(), o[m].tolist(), None if w is None else w[m].tolist()) for m in idx]


def brier_ops(case, opname):
    check = True if case["check"] == "omit" else case["check"]
    ff = [x for r in case["f"] for x in r]
    oo = [x for r in case["o"] for x in r]
    ops = [{"op": opname, "args": {"fcst": fls(ff), "obs": fls(oo), "weights": None, "check": check}}]   # guards on the whole
    for f, o, w in brier_fibres(case):
        ops.append({"op": opname, "args": {"fcst": fls(f), "obs": fls(o), "weights": None if w is None else fls(w),
                                           "check": False}})
    return ops


def brier_desc(case):
    return {k: case[k] for k in ("f", "o", "w", "check", "red")}


# ----------------------------------------------------------------------------- correspondence
def correspondence(ctx):
    rng = ctx.rng
    cases = []
    for _ in range(ctx.n(300, 5000)):
        c = gen_ens_case(rng)
        c["int_thr"] = rng.random() < 0.5
        c["default_op"] = rng.random() < 0.5
        cases.append(c)
    model = core.run_driver("C13", [{"op": "c13.ens", "args": ens_args(c)} for c in cases])
    for c, m in zip(cases, model):
        res = run_ens(c)
        ctx.case("ensemble-vs-translated-model", ens_desc(c), nontrivial=c["malformed"] is None and res[0] == "ok"
                 and any(not math.isnan(x) for r in res[1] for x in r))
        t = ens_tags(c)
        ctx.tag("malformed:" + c["malformed"] if c["malformed"] else f"m:{t['m']}")
        ctx.tag(f"op:{c['op']}")
        if not ens_matches(res, m):
            ctx.fail("ensemble-vs-translated-model", "correspondence", "probability.brier_score_for_ensemble", "value",
                     ens_desc(c), observed=res, expected=m, tags=t)
    # the translated per-case formula on explicit (i, m, y): every 0 <= i <= m <= 6, y in {0,1,NaN}, fair on/off,
    # against a fresh evaluation of the documented expression through the implementation with i of m members >= 0
    grid = [(i, m, y, fair) for m in range(0, 7) for i in range(0, m + 1) for y in (0.0, 1.0, NAN) for fair in (True, False)]
    ctx.exhaustive.append(f"per-case formula for all 0 <= i <= m <= 6, y in {{0,1,NaN}}, fair on/off ({len(grid)})")
    rows = core.run_driver("C13", [{"op": "c13.case", "args": {"i": str(i), "m": str(m), "y": core.fl_str(y), "fair": fair}}
                                   for i, m, y, fair in grid])
    from scores.probability import brier_score_for_ensemble
    for (i, m, y, fair), r in zip(grid, rows):
        ctx.case("per-case-formula-grid", {"i": i, "m": m, "y": y, "fair": fair}, nontrivial=m > 0 and not math.isnan(y))
        members = [1.0] * i + [-1.0] * (m - i) + [NAN] * (7 - m)
        fx = xr.DataArray(np.array([members]), dims=["case", "member"])
        ox = xr.DataArray(np.array([1.0 if y == 1.0 else (-1.0 if y == 0.0 else NAN)]), dims=["case"])
        with np.errstate(all="ignore"):
            got = float(brier_score_for_ensemble(fx, ox, "member", 0.0, fair_correction=fair).values.ravel()[0])
        if not core.close(got, r):
            ctx.fail("per-case-formula-grid", "correspondence", "probability.brier_score_for_ensemble", "per-case-value",
                     {"i": i, "m": m, "y": y, "fair": fair}, observed=got, expected=r, tags={"m": str(m), "fair": str(fair)})
    # brier_score
    bcs = [gen_brier_case(rng) for _ in range(ctx.n(200, 4000))]
    ops, spans = [], []
    for c in bcs:
        o = brier_ops(c, "c13.brier")
        spans.append((len(ops), len(o)))
        ops += o
    rows = core.run_driver("C13", ops)
    for c, (s, n) in zip(bcs, spans):
        res = run_brier(c)
        ms = rows[s:s + n]
        ctx.case("brier-vs-translated-model", brier_desc(c), nontrivial=res[0] == "ok")
        ctx.tag("brier:" + ("rejected" if "err" in ms[0] else "accepted") + ":check=" + str(c["check"]))
        if "err" in ms[0]:
            good = res == ("err", ms[0]["err"])
        else:
            good = res[0] == "ok" and len(res[1]) == n - 1 and all("ok" in m and core.close(x, m["ok"]) for x, m in zip(res[1], ms[1:]))
        if not good:
            ctx.fail("brier-vs-translated-model", "correspondence", "probability.brier_score", "value", brier_desc(c),
                     observed=res, expected=ms, tags={"check": str(c["check"])})


# ----------------------------------------------------------------------------- the property itself
def oracle_ens_case(ctx, batch, c, spec):
    res = run_ens(c)
    tags = ens_tags(c)
    site = "probability.brier_score_for_ensemble"
    if res[0] != "ok":
        ctx.fail(batch, "property", site, "exception", ens_desc(c), observed=res[1], expected="scores", tags=tags)
        return False
    ok = True
    if not ens_matches(res, spec):
        sig = "per-case-formula" if not close_matrix(res[1], spec["cases"]) else "mean-over-cases"
        ctx.fail(batch, "property", site, sig, ens_desc(c), observed={"cases": res[1], "mean": res[2]},
                 expected={k: spec[k] for k in ("cases", "mean", "i", "m")}, tags=tags, theorem="brier_case_formula")
        ok = False
    r2 = run_ens(c, op=COMPL[c["op"]])
    if r2[0] != "ok" or not all(core.close_ff(a, b) for ra, rb in zip(res[1], r2[1]) for a, b in zip(ra, rb)) \
            or not all(core.close_ff(a, b) for a, b in zip(res[2], r2[2])):
        ctx.fail(batch, "property", site, "complementary-operator-differs", ens_desc(c),
                 observed={"op": COMPL[c["op"]], "result": r2}, expected={"op": c["op"], "cases": res[1], "mean": res[2]},
                 tags=tags, theorem="complement_ge_lt / complement_gt_le")
        ok = False
    return ok


def oracle_brier_case(ctx, batch, c, rows):
    res = run_brier(c)
    site = "probability.brier_score"
    check = True if c["check"] == "omit" else c["check"]
    accepted = rows[0]["accepted"]
    tags = {"check": str(c["check"]), "accepted": accepted}
    if check and not accepted:
        if res != ("err", "ValueError"):
            ctx.fail(batch, "property", site, "invalid-input-not-rejected", brier_desc(c), observed=res, expected="ValueError",
                     tags=tags, theorem="brier_guards")
            return False
        return True
    if res[0] != "ok":
        ctx.fail(batch, "property", site, "exception", brier_desc(c), observed=res[1], expected="mean squared difference",
                 tags=tags, theorem="brier_guards")
        return False
    if len(res[1]) != len(rows) - 1 or not all(core.close(x, r["value"]) for x, r in zip(res[1], rows[1:])):
        ctx.fail(batch, "property", site, "not-mean-squared-difference", brier_desc(c), observed=res[1],
                 expected=[r["value"] for r in rows[1:]], tags=tags, theorem="brier_eq_mean_squared_difference")
        return False
    return True


def oracle(ctx, boost):
    rng = ctx.rng
    mult = 5 if boost else 1
    cases = []
    for _ in range(ctx.n(300, 5000) * mult):
        c = gen_ens_case(rng, malformed_ok=False)
        c["int_thr"] = rng.random() < 0.5
        c["default_op"] = rng.random() < 0.5
        cases.append(c)
    # explicit ties: every member and the observation exactly on the threshold, each operator, m = 1 and m = 3
    for op in COMPL:
        for fair in (True, False):
            for mem in ([0.5], [0.5, 0.5, NAN, 0.75], [NAN, NAN]):
                cases.append({"fcst": [mem, list(reversed(mem))], "obs": [0.5, 0.25], "thr": [0.5], "scalar_thr": False, "op": op,
                              "fair": fair, "weights": None, "member_first": False, "malformed": None})
    spec = core.run_driver("C13S", [{"op": "c13.ensspec", "args": ens_args(c)} for c in cases])
    for c, s in zip(cases, spec):
        ctx.case("ensemble-vs-definition", ens_desc(c))
        ctx.tag("oracle-m:" + ens_tags(c)["m"])
        oracle_ens_case(ctx, "ensemble-vs-definition", c, s)
    bcs = [gen_brier_case(rng) for _ in range(ctx.n(200, 4000) * mult)]
    ops, spans = [], []
    for c in bcs:
        o = brier_ops(c, "c13.brierspec")
        for x in o:
            x["args"].pop("check")
        spans.append((len(ops), len(o)))
        ops += o
    rows = core.run_driver("C13S", ops)
    for c, (s, n) in zip(bcs, spans):
        ctx.case("brier-vs-definition", brier_desc(c))
        oracle_brier_case(ctx, "brier-vs-definition", c, rows[s:s + n])


# ----------------------------------------------------------------------------- replay
def replay(ctx, payload):
    case = payload["case"]
    ctx2 = core.Ctx("C13", "quick", 0)

    def unfl(v):
        if isinstance(v, list):
            return [unfl(x) for x in v]
        if isinstance(v, str) and v in ("nan", "inf", "-inf"):
            return float(v)
        return v
    c = {k: unfl(v) for k, v in case.items()}
    if "thr" in c:
        c["malformed"] = None
        s = core.run_driver("C13S", [{"op": "c13.ensspec", "args": ens_args(c)}])[0]
        return not oracle_ens_case(ctx2, "replay", c, s)
    if "f" in c:
        ops = brier_ops(c, "c13.brierspec")
        for x in ops:
            x["args"].pop("check")
        rows = core.run_driver("C13S", ops)
        return not oracle_brier_case(ctx2, "replay", c, rows)
    return True
