"""C13 — Brier scores equal their definitions, including the fair ensemble correction."""
from __future__ import annotations

import math
import operator

import numpy as np
import xarray as xr

from sv import core

PROPERTY = "C13"
GEN = ["Discretise", "Brier"]
PROPS = ["ScoresVerif/Props/C13.lean", "ScoresVerif/Props/C13Fair.lean", "ScoresVerif/Props/C13Expect.lean",
         "ScoresVerif/Props/C13Array.lean", "ScoresVerif/Props/C13Range.lean", "ScoresVerif/Props/C13Pairs.lean"]
AUDIT_FILES = ["ScoresVerif/Lemmas/C13Binomial.lean", "ScoresVerif/Lemmas/C13Mean.lean", "ScoresVerif/Lemmas/C13Pairs.lean"]
DRIVER_DEPS = ["ScoresVerif.Driver.C13Spec", "ScoresVerif.Driver.C13"]
LEVEL = "proof"
TRUSTED = ["SV.PyOp / SV.PyMode (Model/Discretise.lean) as the meaning of Python's operator functions and of `not in [...]`",
           "Model/C13.lean: list-level model of .sum(dim=member), apply_weights, .mean(dim) (skipna), max/min guards",
           "xarray broadcasting / reductions (compared, not modelled beyond flattening)"]
ASSUMPTIONS = ["members, observations, thresholds and weights are dyadic (k/4) so comparisons are exact; quotients compared to 1e-9; "
               "the resolution-limit probes use arbitrary float64 / float32 / int64 values, sent to Lean as the exact rational the "
               "storage holds (guards and event counts are decided exactly; float32-stored brier_score values compared to 2e-6)",
               "dask arrays are not generated; Dataset inputs only for brier_score (one to four variables, also mixed with a DataArray); "
               "infinite event thresholds: one -inf first and / or one +inf last (a repeated infinity is not generated, notes/C13.md); gather_dimensions is "
               "C01's subject (only 'all reduced', 'cases preserved' and one-dimension reductions are exercised here)"]
MANIFEST = dict(
    level="proof",
    text="Kernel-checked Lean theorems about definitions regenerated from brier_impl.py / standard_impl.py / utils.py on every "
         "run: the translated per-case expression equals (i/m - y)^2 - [fair and m>1] i(m-i)/(m^2(m-1)) for all 0<=i<=m "
         "(m=1: correction 0 from the 0/0->fillna(0) branch; m=0 and missing observation: NaN); the assembled case (member "
         "counts over ensembles of any size, observed event via the translated comparative_discretise) IS the definition for "
         "each of the four operators; >= vs < and > vs <= give identical scores for every threshold incl. ties and NaN "
         "members; correction in [0, 1/(4(m-1))]; other operators rejected; brier_score kernel = mse kernel = squared "
         "difference, range guard and check_binary set characterised (no tolerance: any excursion beyond 0 or 1 is rejected), "
         "checked/unchecked results = mean squared difference. "
         "Tied to the code by the translator, a differential correspondence (incl. the exhaustive i<=m<=6 grid) and an "
         "independent oracle (Lean Spec only + operator complementarity between implementation runs).",
    note="Trusted: Lean kernel; propext/Classical.choice/Quot.sound; py2lean + tools/gen/{Brier,Discretise}.py; SV.Fl (IEEE "
         "minus rounding, overflow, signed zero); SV.PyOp/PyMode; the list-level hand model Model/C13.lean (sum over the "
         "member dimension as a count, apply_weights, mean(skipna) over cases, nan-skipping max/min feeding the range guard, "
         "monotone-threshold guard), compared with the implementation, not translated. Not modelled: dask inputs (Datasets: brier_score only, "
         "flattened over variables), "
         "the dimension bookkeeping of gather_dimensions (C01), threshold_dim name clashes. Float rounding: scores that are "
         "exactly 0 in rationals may be ~1e-17 in floats (within the 1e-9 tolerance).",
    technique="Lean 4 theorems over translator-regenerated definitions + differential correspondence + property oracle "
              "(when the source leaves the translatable subset the generator substitutes the hand-written fallback model "
              "tools/gen/_fallback_*.lean for that definition, records it as inapplicable, and the correspondence carries it)",
    design="6/C13")
RULE = ("ensembles of 1-5 members with 50 % of member values and 40 % of observations placed exactly on a threshold, NaN members "
        "(incl. all-NaN and single valid member), 1-3 thresholds, 4 operators x fair on/off/default x weights; plus deterministic "
        "boundary probes of every guard at the resolution limit of the storage format: forecasts / observations one float64 or "
        "float32 step outside and inside [0,1] resp. {0,1} (denormals, -1e-300, 0.3-0.1-0.2, +-2^-54, 1+2^-52, 1+2^-23, -0.0, "
        "int64 2/-1) as DataArray, one- and two-variable Dataset, alone / hidden among valid values / with NaNs, check_args on, "
        "omitted and off; ensemble members and observations one step beside the threshold, threshold lists increasing / "
        "constant / decreasing by one step; infinite event thresholds (-inf first / +inf last / alone) with members and observations "
        "equal to that infinity, every operator; brier_score on Datasets of 2-4 different variables (and DataArray vs Dataset) with a "
        "non-binary observation / out-of-range forecast in every variable position, every storage format; distinct = "
        "distinct canonical input; non-trivial = at least one non-NaN score and not in the malformed stream")

NAN = float("nan")
INF = float("inf")
COMPL = {"ge": "lt", "lt": "ge", "gt": "le", "le": "gt"}


def fresh(s):
    return "".join(list(s))


def fls(xs):
    return [core.fl_str(x) for x in xs]


# ----------------------------------------------------------------------------- ensemble cases
def gen_ens_case(rng, malformed_ok=True):
    nthr = rng.choice([1, 1, 2, 3])
    thr = sorted(core.dyadic(rng, -3, 3) for _ in range(nthr))
    if rng.random() < 0.2:
        thr[rng.randrange(nthr)] = 0.0
        thr.sort()
    if nthr > 1 and rng.random() < 0.2:
        thr[1] = thr[0]
    # infinite event thresholds are legal monotone thresholds ("inf >= inf" is a true statement): -inf first and / or +inf
    # last, or a single infinite threshold; members and observations copied from the thresholds then ARE that infinity.
    # (an infinity is never repeated in the list: see notes/C13.md, "[inf, inf]")
    infinite = rng.random() < 0.25
    if infinite:
        r = rng.random()
        if r < 0.15:
            thr = [rng.choice([INF, -INF])]
        else:
            thr = ([-INF] if r < 0.75 else []) + thr + ([INF] if r > 0.4 else [])
        nthr = len(thr)
    ncase = rng.choice([1, 2, 3, 4])
    nmem = rng.choice([1, 1, 2, 3, 4, 5])
    pn = rng.choice([0.0, 0.2, 0.5])

    def member():
        r = rng.random()
        if r < pn:
            return NAN
        if infinite and r > 0.9:
            return rng.choice([INF, -INF])
        if r < pn + (1 - pn) * 0.5:
            return rng.choice(thr) + rng.choice([0, 0, 0.25, -0.25])
        return core.dyadic(rng, -4, 4)
    fcst = [[member() for _ in range(nmem)] for _ in range(ncase)]
    if rng.random() < 0.15:
        fcst[rng.randrange(ncase)] = [NAN] * nmem                     # a case without any member
    if nmem > 1 and rng.random() < 0.2:
        k = rng.randrange(ncase)
        fcst[k] = [NAN] * nmem
        fcst[k][rng.randrange(nmem)] = rng.choice(thr)                # a single valid member
    obs = []
    for _ in range(ncase):
        r = rng.random()
        obs.append(NAN if r < 0.12 else rng.choice(thr) + rng.choice([0, 0.25, -0.25]) if r < 0.6 else
                   rng.choice([INF, -INF]) if (infinite and r > 0.85) else core.dyadic(rng, -4, 4))
    op = rng.choice(list(COMPL))
    fair = rng.choice([True, False, "omit"])
    weights = None
    if rng.random() < 0.4:
        weights = [rng.choice([0.0, 0.25, 0.5, 1.0, 2.0, 1.0, NAN if rng.random() < 0.3 else 1.5]) for _ in range(ncase)]
    malformed = None
    if malformed_ok:
        r = rng.random()
        if r < 0.05:
            op = rng.choice(["eq", "ne", "add"])
            malformed = "operator"
        elif r < 0.09 and nthr > 1 and thr[0] != thr[-1]:
            thr = list(reversed(thr))
            malformed = "thresholds-order"
    return {"fcst": fcst, "obs": obs, "thr": thr, "scalar_thr": nthr == 1 and rng.random() < 0.5, "op": op, "fair": fair,
            "weights": weights, "member_first": rng.random() < 0.3, "malformed": malformed,
            "thr_dim": rng.choice([None, None, "thr", "event level"])}


def run_ens(case, op=None):
    """returns ('ok', cases[case][thr], mean[thr]) | ('err', class)"""
    from scores.probability import brier_score_for_ensemble
    op = op or case["op"]
    dt = DTYPES[case.get("dtype") or "f8"]     # storage format; the VALUES are the exact contents of that storage
    f = np.array(case["fcst"], dtype=dt)
    if case["member_first"]:
        fx = xr.DataArray(f.T.copy(), dims=[fresh("member"), fresh("case")])
    else:
        fx = xr.DataArray(f, dims=[fresh("case"), fresh("member")])
    ox = xr.DataArray(np.array(case["obs"], dtype=dt), dims=[fresh("case")])
    thr = case["thr"]
    if case["scalar_thr"]:
        thr = int(thr[0]) if float(thr[0]).is_integer() and case.get("int_thr") else thr[0]
    kw = {}
    if case["fair"] != "omit":
        kw["fair_correction"] = case["fair"]
    if case["weights"] is not None:
        kw["weights"] = xr.DataArray(np.array(case["weights"], dtype=float), dims=[fresh("case")])
    if not (op == "ge" and case.get("default_op")):
        kw["event_threshold_operator"] = getattr(operator, op)
    tdim = "threshold"
    if case.get("thr_dim"):          # the caller names the threshold dimension of the output
        tdim = case["thr_dim"]
        kw["threshold_dim"] = fresh(tdim)
    try:
        with np.errstate(all="ignore"):
            a = brier_score_for_ensemble(fx, ox, fresh("member"), thr, preserve_dims=[fresh("case")], **kw)
            b = brier_score_for_ensemble(fx, ox, fresh("member"), thr, **kw)
        if set(a.dims) != {"case", tdim} or tuple(b.dims) != (tdim,):
            return ("err", f"shape: dims {a.dims} / {b.dims}")
        return ("ok", np.asarray(a.transpose("case", tdim).values, dtype=float).tolist(),
                np.asarray(b.values, dtype=float).tolist())
    except Exception as ex:  # noqa: BLE001
        return ("err", core.exc_class(ex))


def ens_args(case, op=None):
    fair = True if case["fair"] == "omit" else case["fair"]
    return {"fcst": [fls(r) for r in case["fcst"]], "obs": fls(case["obs"]), "thresholds": fls(case["thr"]),
            "op": op or case["op"], "fair": fair, "weights": None if case["weights"] is None else fls(case["weights"])}


def close_matrix(impl, model):
    return len(impl) == len(model) and all(len(a) == len(b) and all(core.close(x, y) for x, y in zip(a, b))
                                           for a, b in zip(impl, model))


def ens_matches(res, m):
    if "err" in m:
        return res[0] == "err" and res[1] == m["err"]
    m = m.get("ok", m)
    return res[0] == "ok" and close_matrix(res[1], m["cases"]) and len(res[2]) == len(m["mean"]) \
        and all(core.close(x, y) for x, y in zip(res[2], m["mean"]))


def ens_desc(case):
    d = {k: case.get(k) for k in ("fcst", "obs", "thr", "scalar_thr", "op", "fair", "weights", "member_first", "thr_dim")}
    if case.get("dtype"):
        d["dtype"] = case["dtype"]
    return d


def ens_tags(case):
    ms = [sum(1 for x in r if not math.isnan(x)) for r in case["fcst"]]
    return {"op": case["op"], "fair": str(case["fair"]), "weights": case["weights"] is not None,
            "m": "zero" if 0 in ms else "one" if 1 in ms else "many",
            "infinite_threshold": any(math.isinf(t) for t in case["thr"])}


# ----------------------------------------------------------------------------- brier_score cases
def gen_brier_case(rng):
    na, nb = rng.choice([1, 2, 3]), rng.choice([1, 2, 3])
    bad_f = rng.random() < 0.15
    bad_o = rng.random() < 0.15

    def fv():
        r = rng.random()
        if r < 0.15:
            return NAN
        if bad_f and r < 0.45:
            return rng.choice([1.25, -0.25, 2.0, -1.0, 1.5, float("inf"), float("-inf")])
        return rng.choice([0.0, 0.25, 0.5, 0.75, 1.0, 1.0, 0.0])

    def ov():
        r = rng.random()
        if r < 0.15:
            return NAN
        if bad_o and r < 0.45:
            return rng.choice([0.5, 2.0, -1.0, 0.25, float("inf"), float("-inf")])
        return rng.choice([0.0, 1.0])
    f = [[fv() for _ in range(nb)] for _ in range(na)]
    o = [[ov() for _ in range(nb)] for _ in range(na)]
    if rng.random() < 0.1:
        f = [[NAN] * nb for _ in range(na)]
    w = None
    if rng.random() < 0.35:
        w = [[rng.choice([0.0, 0.5, 1.0, 2.0, 0.25]) for _ in range(nb)] for _ in range(na)]
    return {"f": f, "o": o, "w": w, "check": rng.choice([True, True, False, "omit"]),
            "red": rng.choice([None, None, "all", [fresh("a")], [fresh("b")]])}


def ok_var(case):
    """the second, always valid, variable of a two-variable Dataset forecast (container "ds2"): same shape as the probed one"""
    nb = len(case["f"][0])
    vals = (0.0, 1.0, 1.0, 0.0) if case.get("dtype") == "i8" else (0.0, 1.0, 0.5, 0.25)
    return [[vals[(i * nb + j) % 4] for j in range(nb)] for i in range(len(case["f"]))]


def run_brier(case):
    """container: "da" DataArray | "ds" one-variable Dataset | "ds2" Dataset {"ok": valid values, "bad": case["f"]};
    dtype: storage format of fcst and obs ("f8" | "f4" | "i8" fcst only).  Values of a Dataset result: "bad"/"v" first,
    then "ok"."""
    from scores.probability import brier_score
    if case.get("multi"):
        return run_brier_multi(case)
    cont = case.get("container") or "da"
    dt = DTYPES[case.get("dtype") or "f8"]
    odt = float if dt is np.int64 else dt

    def da(v, d):
        return xr.DataArray(np.array(v, dtype=d), dims=[fresh("a"), fresh("b")])
    fx, ox = da(case["f"], dt), da(case["o"], odt)
    if cont == "ds":
        fx, ox = xr.Dataset({fresh("v"): fx}), xr.Dataset({fresh("v"): ox})
    elif cont in ("ds2", "ds3"):
        fv = {fresh("ok"): da(ok_var(case), dt), fresh("bad"): fx}
        ov = {fresh("ok"): ox, fresh("bad"): ox.copy()}
        if cont == "ds3" and dt is not np.int64:
            # an all-NaN variable FIRST (and the probed one last): the range guard must look at every variable,
            # whatever their order and whatever NaNs the others hold
            nanv = da([[NAN] * len(case["f"][0]) for _ in case["f"]], dt)
            fv = dict([(fresh("allnan"), nanv)] + list(fv.items()))
            ov = dict([(fresh("allnan"), ox.copy())] + list(ov.items()))
        fx, ox = xr.Dataset(fv), xr.Dataset(ov)
    kw = {}
    if case["w"] is not None:
        kw["weights"] = xr.DataArray(np.array(case["w"], dtype=float), dims=[fresh("a"), fresh("b")])
    if case["check"] != "omit":
        kw["check_args"] = case["check"]
    if case["red"] is not None:
        kw["reduce_dims"] = case["red"]
    try:
        with np.errstate(all="ignore"):
            out = brier_score(fx, ox, **kw)
        if cont == "da":
            return ("ok", np.asarray(out.values, dtype=float).ravel().tolist(), tuple(out.dims))
        names = ["v"] if cont == "ds" else ["bad", "ok"]      # ("ds3": the all-NaN variable's own score is NaN and not compared)
        extra = ["allnan"] if (cont == "ds3" and dt is not np.int64) else []
        if not isinstance(out, xr.Dataset) or sorted(out.data_vars) != sorted(names + extra):
            return ("err", f"shape: result {type(out).__name__} {list(getattr(out, 'data_vars', []))}")
        return ("ok", [x for k in names for x in np.asarray(out[k].values, dtype=float).ravel().tolist()], tuple(out[names[0]].dims))
    except Exception as ex:  # noqa: BLE001
        return ("err", core.exc_class(ex))


def brier_fibres(case):
    """the flattened (f, o, w) lists of each output cell, in output order (for "ds2": the probed variable, then "ok")"""
    o, w = np.array(case["o"], dtype=float), case["w"]
    w = None if w is None else np.array(w, dtype=float)
    red = case["red"]
    shape = o.shape
    if red is None or red == "all":
        idx = [np.ones(shape, dtype=bool)]
    elif red[0] == "a":
        idx = [np.array([[j == k for j in range(shape[1])] for _ in range(shape[0])]) for k in range(shape[1])]
    else:
        idx = [np.array([[i == k for _ in range(shape[1])] for i in range(shape[0])]) for k in range(shape[0])]
    out = []
    for fv in [case["f"]] + ([ok_var(case)] if case.get("container") in ("ds2", "ds3") else []):
        f = np.array(fv, dtype=float)
        out += [(f[m].tolist(), o[m].tolist(), None if w is None else w[m].tolist()) for m in idx]
    return out


def brier_ops(case, opname):
    if case.get("multi"):
        return brier_multi_ops(case, opname)
    check = True if case["check"] == "omit" else case["check"]
    two = case.get("container") in ("ds2", "ds3")
    ff = [x for r in case["f"] for x in r] + ([x for r in ok_var(case) for x in r] if two else [])
    oo = [x for r in case["o"] for x in r] * (2 if two else 1)
    ops = [{"op": opname, "args": {"fcst": fls(ff), "obs": fls(oo), "weights": None, "check": check}}]   # guards on the whole
    for f, o, w in brier_fibres(case):
        ops.append({"op": opname, "args": {"fcst": fls(f), "obs": fls(o), "weights": None if w is None else fls(w),
                                           "check": False}})
    return ops


def brier_desc(case):
    if case.get("multi"):
        return {k: case[k] for k in ("multi", "kind", "vars", "w", "check", "red", "probe")}
    d = {k: case[k] for k in ("f", "o", "w", "check", "red")}
    for k in ("container", "dtype", "probe"):
        if case.get(k):
            d[k] = case[k]
    return d


def brier_tags(case):
    if case.get("multi"):
        return {"check": str(case["check"]), "container": "multi:" + case["kind"], "probe": case["probe"].rsplit(":", 1)[0]}
    t = {"check": str(case["check"])}
    for k in ("container", "dtype"):
        if case.get(k):
            t[k] = case[k]
    if case.get("probe"):
        t["probe"] = case["probe"].rsplit(":", 1)[0]
    return t


def brier_close(case, x, v):
    """float32 storage: the implementation computes in float32 (relative error ~1e-7 per operation)"""
    if case.get("dtype") == "f4" or (case.get("multi") and any("f4" in (u["fdt"], u["odt"]) for u in case["vars"])):
        return core.close(x, v, rtol=2e-6, atol=1e-9)
    return core.close(x, v)


# ----------------------------------------------------------------------------- Datasets of several DIFFERENT variables
# The guards of brier_score concern every variable of a Dataset, whatever its position: a case is
#   {"multi": True, "kind": "ds-ds" | "da-ds" | "ds-da", "vars": [{"name", "f", "o", "fdt", "odt"}, ...] (in Dataset order), ...}
# "da-ds": the forecast is ONE DataArray (every variable carries the same "f") scored against a Dataset of observations;
# "ds-da": a Dataset of forecasts against ONE DataArray of observations (every variable carries the same "o").
BAD_OBS = [("0.5", 0.5), ("2", 2.0), ("-1", -1.0), ("1.0000001", 1.0000001), ("0.25", 0.25), ("1+2^-52", 1.0 + 2.0 ** -52),
           ("-5e-324", -5e-324), ("inf", float("inf")), ("-inf", float("-inf")), ("3", 3.0)]
BAD_FCST = [("1.25", 1.25), ("-0.25", -0.25), ("2", 2.0), ("-1", -1.0), ("1.0000001", 1.0000001), ("1+2^-52", 1.0 + 2.0 ** -52),
            ("-5e-324", -5e-324), ("inf", float("inf")), ("-inf", float("-inf"))]
VAR_NAMES = ["rain", "fog", "frost", "alpha", "z", "B"]          # (never the name of a dimension)


def _integral(mat):
    return all((not math.isnan(x)) and (not math.isinf(x)) and float(x).is_integer() for r in mat for x in r)


def gen_brier_multi(rng):
    """every non-binary observation value (resp. out-of-range forecast value, resp. none) x 2..4 variables x EVERY position
    of the offending variable x the three container pairings; shapes, position of the value inside its variable, NaNs,
    storage formats (float64 / float32 / int64 where the values allow), weights, reduction and check_args drawn"""
    out = []

    def build(kind, nvar, slot, label, v, pos, check):
        na, nb = rng.choice([(1, 1), (1, 3), (2, 2), (2, 3), (3, 2)])
        names = rng.sample(VAR_NAMES, nvar)
        pn = rng.choice([0.0, 0.0, 0.25])

        def fmat():
            return [[NAN if rng.random() < pn else rng.choice(VALID_F) for _ in range(nb)] for _ in range(na)]

        def omat():
            return [[NAN if rng.random() < pn else rng.choice([0.0, 1.0]) for _ in range(nb)] for _ in range(na)]
        f_shared, o_shared = fmat(), omat()
        vs = []
        for k, name in enumerate(names):
            u = {"name": name, "f": [list(r) for r in f_shared] if kind == "da-ds" else fmat(),
                 "o": [list(r) for r in o_shared] if kind == "ds-da" else omat(), "fdt": "f8", "odt": "f8"}
            vs.append(u)
        if slot is not None:
            i, j = rng.randrange(na), rng.randrange(nb)
            shared = (kind == "da-ds" and slot == "f") or (kind == "ds-da" and slot == "o")
            for u in (vs if shared else [vs[pos]]):
                u[slot][i][j] = v
            if rng.random() < 0.3 and pos + 1 < nvar and not (kind == "da-ds" and slot == "f") and not (kind == "ds-da" and slot == "o"):
                # a later variable that is all-NaN: the offending value must be seen behind it
                vs[-1][slot] = [[NAN] * nb for _ in range(na)]
        # storage formats: float32 / int64 only where they hold the values exactly
        for u in vs:
            for key, dkey in (("f", "fdt"), ("o", "odt")):
                r = rng.random()
                if r < 0.2 and _integral(u[key]):
                    u[dkey] = "i8"
                elif r < 0.4 and all(math.isnan(x) or _f32(x) == x for row in u[key] for x in row):
                    u[dkey] = "f4"
        if kind == "da-ds":
            for u in vs[1:]:
                u["fdt"] = vs[0]["fdt"]
        if kind == "ds-da":
            for u in vs[1:]:
                u["odt"] = vs[0]["odt"]
        w = None
        if rng.random() < 0.25:
            w = [[rng.choice([0.5, 1.0, 2.0, 0.25, 0.0]) for _ in range(nb)] for _ in range(na)]
        where = "none" if slot is None else "last" if pos == nvar - 1 else "first" if pos == 0 else "middle"
        out.append({"multi": True, "kind": kind, "vars": vs, "w": w, "check": check,
                    "red": rng.choice([None, None, "all", [fresh("a")], [fresh("b")]]),
                    "probe": f"{slot or 'valid'}:{where}-of-{nvar}:{label}"})

    for kind in ("ds-ds", "da-ds", "ds-da"):
        for nvar in (2, 3, 4):
            for label, v in BAD_OBS:
                # "ds-da": one DataArray of observations (the same in every variable) -- position is immaterial
                for pos in (range(1) if kind == "ds-da" else range(nvar)):
                    build(kind, nvar, "o", label, v, pos, rng.choice([True, "omit"]))
            for label, v in BAD_FCST:
                for pos in (range(1) if kind == "da-ds" else range(nvar)):
                    build(kind, nvar, "f", label, v, pos, rng.choice([True, "omit"]))
            for _ in range(3):
                build(kind, nvar, None, "valid", None, 0, rng.choice([True, "omit", False]))
            # unchecked: whatever the values, the score is the mean squared difference of the exact values
            label, v = rng.choice(BAD_OBS[:6])
            build(kind, nvar, "o", label, v, rng.randrange(nvar), False)
    return out


def run_brier_multi(case):
    """values of the result: variable by variable in Dataset order"""
    from scores.probability import brier_score
    vs, kind = case["vars"], case["kind"]

    def da(v, d):
        return xr.DataArray(np.array(v, dtype=DTYPES[d]), dims=[fresh("a"), fresh("b")])
    fx = da(vs[0]["f"], vs[0]["fdt"]) if kind == "da-ds" else xr.Dataset({fresh(u["name"]): da(u["f"], u["fdt"]) for u in vs})
    ox = da(vs[0]["o"], vs[0]["odt"]) if kind == "ds-da" else xr.Dataset({fresh(u["name"]): da(u["o"], u["odt"]) for u in vs})
    kw = {}
    if case["w"] is not None:
        kw["weights"] = xr.DataArray(np.array(case["w"], dtype=float), dims=[fresh("a"), fresh("b")])
    if case["check"] != "omit":
        kw["check_args"] = case["check"]
    if case["red"] is not None:
        kw["reduce_dims"] = case["red"]
    try:
        with np.errstate(all="ignore"):
            out = brier_score(fx, ox, **kw)
        names = [u["name"] for u in vs]
        if not isinstance(out, xr.Dataset) or sorted(out.data_vars) != sorted(names):
            return ("err", f"shape: result {type(out).__name__} {list(getattr(out, 'data_vars', []))}")
        return ("ok", [x for k in names for x in np.asarray(out[k].values, dtype=float).ravel().tolist()], tuple(out[names[0]].dims))
    except Exception as ex:  # noqa: BLE001
        return ("err", core.exc_class(ex))


def brier_multi_ops(case, opname):
    """row 0: the guards on ALL values of ALL variables; then the cells of each variable in Dataset order"""
    check = True if case["check"] == "omit" else case["check"]
    vs = case["vars"]
    ff = [x for u in vs for r in u["f"] for x in r]
    oo = [x for u in vs for r in u["o"] for x in r]
    ops = [{"op": opname, "args": {"fcst": fls(ff), "obs": fls(oo), "weights": None, "check": check}}]
    for u in vs:
        for f, o, w in brier_fibres({"f": u["f"], "o": u["o"], "w": case["w"], "red": case["red"]}):
            ops.append({"op": opname, "args": {"fcst": fls(f), "obs": fls(o), "weights": None if w is None else fls(w),
                                               "check": False}})
    return ops


# ----------------------------------------------------------------------------- probes at the resolution limit of the format
DTYPES = {"f8": np.float64, "f4": np.float32, "i8": np.int64}
F32 = np.float32


def _f32(x):
    return float(F32(x))


# (label, value, storage formats in which the value is exactly representable)
OUTSIDE = [
    ("nextafter64(0,-1) = -5e-324", -5e-324, ("f8",)),
    ("-2 denormal steps", -1e-323, ("f8",)),
    ("-largest denormal", -2.225073858507201e-308, ("f8",)),
    ("-smallest normal", -2.2250738585072014e-308, ("f8",)),
    ("-1e-300", -1e-300, ("f8",)),
    ("-2^-1000", -2.0 ** -1000, ("f8",)),
    ("0.3-0.1-0.2", 0.3 - 0.1 - 0.2, ("f8",)),
    ("0.1*3-0.3 negated", -(0.1 * 3 - 0.3), ("f8",)),
    ("-1e-17", -1e-17, ("f8",)),
    ("-2^-55", -2.0 ** -55, ("f8", "f4")),
    ("-2^-54 (half ulp of 0.5)", -2.0 ** -54, ("f8", "f4")),
    ("-(2^-54 + 2^-106)", -(2.0 ** -54) * (1 + 2.0 ** -52), ("f8",)),
    ("-2^-53", -2.0 ** -53, ("f8", "f4")),
    ("-2^-52", -2.0 ** -52, ("f8", "f4")),
    ("-1e-9", -1e-9, ("f8",)),
    ("nextafter32(0,-1) = -1.4e-45", -_f32(1e-45), ("f8", "f4")),
    ("-smallest normal32", -_f32(1.1754944e-38), ("f8", "f4")),
    ("-2^-26 (quarter ulp32 of 0.5)", -2.0 ** -26, ("f8", "f4")),
    ("-2^-25 (half ulp32 of 0.5)", -2.0 ** -25, ("f8", "f4")),
    ("-3e-8 in float32", -_f32(3e-8), ("f8", "f4")),
    ("-2^-24", -2.0 ** -24, ("f8", "f4")),
    ("nextafter64(1,2) = 1+2^-52", 1.0 + 2.0 ** -52, ("f8",)),
    ("1+2^-51", 1.0 + 2.0 ** -51, ("f8",)),
    ("1+1e-9", 1.0 + 1e-9, ("f8",)),
    ("nextafter32(1,2) = 1+2^-23", 1.0 + 2.0 ** -23, ("f8", "f4")),
    ("1+2^-22", 1.0 + 2.0 ** -22, ("f8", "f4")),
]
OUTSIDE_HUGE = [("float64 max", 1.7976931348623157e308, ("f8",)), ("-float64 max", -1.7976931348623157e308, ("f8",)),
                ("float32 max", _f32(3.4028235e38), ("f8", "f4")), ("-float32 max", -_f32(3.4028235e38), ("f8", "f4"))]
INSIDE = [
    ("+0.0", 0.0, ("f8", "f4")), ("-0.0", -0.0, ("f8", "f4")), ("1.0", 1.0, ("f8", "f4")),
    ("5e-324", 5e-324, ("f8",)), ("1e-300", 1e-300, ("f8",)), ("smallest normal", 2.2250738585072014e-308, ("f8",)),
    ("2^-54", 2.0 ** -54, ("f8", "f4")), ("-(0.3-0.1-0.2)", -(0.3 - 0.1 - 0.2), ("f8",)),
    ("nextafter64(1,0) = 1-2^-53", 1.0 - 2.0 ** -53, ("f8",)), ("1-2^-52", 1.0 - 2.0 ** -52, ("f8",)),
    ("nextafter32(0,1) = 1.4e-45", _f32(1e-45), ("f8", "f4")), ("2^-26", 2.0 ** -26, ("f8", "f4")),
    ("nextafter32(1,0) = 1-2^-24", 1.0 - 2.0 ** -24, ("f8", "f4")), ("0.5+2^-53", 0.5 + 2.0 ** -53, ("f8",)),
    ("0.5-2^-54", 0.5 - 2.0 ** -54, ("f8",)),
]
VALID_F = [0.0, 0.25, 0.5, 0.75, 1.0]


def gen_brier_probes(rng):
    """every boundary value x container x storage x {alone, hidden among valid values, hidden with NaNs}; the position of
    the probed value, the reduction, the weights and check_args=True/omitted are drawn"""
    out = []

    def place(v, layout, slot, dtype):
        if layout == "alone":
            na, nb = 1, 1
        else:
            na, nb = rng.choice([(1, 3), (2, 2), (3, 2), (2, 3), (3, 3)])
        f = [[rng.choice(VALID_F) for _ in range(nb)] for _ in range(na)]
        o = [[rng.choice([0.0, 1.0]) for _ in range(nb)] for _ in range(na)]
        cells = [(i, j) for i in range(na) for j in range(nb)]
        pi, pj = rng.choice(cells)
        if layout == "nans" and dtype != "i8":
            for (i, j) in cells:
                if (i, j) != (pi, pj) and rng.random() < 0.4:
                    (f if rng.random() < 0.6 else o)[i][j] = NAN
            qi, qj = rng.choice([c for c in cells if c != (pi, pj)])
            f[qi][qj] = NAN                                            # at least one NaN forecast beside the probe
        (f if slot == "f" else o)[pi][pj] = v
        if slot == "o":
            f[pi][pj] = rng.choice(VALID_F)
        return f, o

    def add(label, v, slot, dtype, cont, layout, check):
        f, o = place(v, layout, slot, dtype)
        w = None
        if rng.random() < 0.25:
            w = [[rng.choice([0.5, 1.0, 2.0, 0.25]) for _ in row] for row in f]
        out.append({"f": f, "o": o, "w": w, "check": check, "red": rng.choice([None, None, "all", [fresh("a")], [fresh("b")]]),
                    "container": cont, "dtype": dtype, "probe": f"{slot}:{label}:{layout}"})

    for label, v, fmts in OUTSIDE + INSIDE:
        for dtype in fmts:
            for cont in ("da", "ds", "ds2", "ds3"):
                for layout in ("alone", "hidden", "nans"):
                    add(label, v, "f", dtype, cont, layout, rng.choice([True, "omit"]))
            # the unchecked path scores the exact values, whatever they are
            add(label, v, "f", dtype, rng.choice(["da", "ds", "ds2", "ds3"]), rng.choice(["alone", "hidden", "nans"]), False)
    for label, v, fmts in OUTSIDE_HUGE:
        for dtype in fmts:
            for cont in ("da", "ds2", "ds3"):
                add(label, v, "f", dtype, cont, rng.choice(["alone", "hidden", "nans"]), rng.choice([True, "omit"]))
    # observations: {0, 1} exactly (−0.0 is 0); one resolution step away is not binary
    for label, v, fmts in OUTSIDE + INSIDE:
        for dtype in fmts:
            add(label, v, "o", dtype, rng.choice(["da", "ds", "ds2", "ds3"]), rng.choice(["alone", "hidden", "nans"]),
                rng.choice([True, "omit"]))
    # integer storage: the value of an int64 1 is 1
    for bad in (None, 2, -1, 3):
        for cont in ("da", "ds", "ds2", "ds3"):
            for layout in ("alone", "hidden"):
                f, o = place(0.0 if bad is None else float(bad), layout, "f", "i8")
                f = [[float(round(x)) for x in row] for row in f]
                out.append({"f": f, "o": o, "w": None, "check": rng.choice([True, "omit", False] if bad is None else [True, "omit"]),
                            "red": rng.choice([None, "all", [fresh("a")]]), "container": cont, "dtype": "i8",
                            "probe": f"f:int64 {bad}:{layout}"})
    return out


def _step(x, up, dtype):
    dt = DTYPES[dtype]
    return float(np.nextafter(dt(x), dt(np.inf if up else -np.inf)))


THR_BASES = [0.0, 1.0, 0.5, 0.1, 0.3 - 0.1 - 0.2, 5e-324, -5e-324, 1e-300, -2.2250738585072014e-308, 1e300, -0.25, 3.0]


def gen_ens_probes(rng, n):
    """brier_score_for_ensemble at the resolution limit: members and observations one step of the storage format beside the
    threshold; threshold lists that increase / stay / decrease by one step (the monotonicity guard)"""
    out = []
    for _ in range(n):
        dtype = rng.choice(["f8", "f8", "f4"])
        t = rng.choice(THR_BASES)
        if dtype == "f4":
            t = _f32(t) if abs(t) < 1e38 else 1.0

        def near(x):
            return rng.choice([x, x, _step(x, True, dtype), _step(x, False, dtype)])
        r = rng.random()
        if r < 0.35:
            thr = [t]
        elif r < 0.6:
            thr = [t, _step(t, True, "f8")]
        elif r < 0.7:
            thr = [_step(t, False, "f8"), t, t, _step(t, True, "f8")]
        elif r < 0.85:
            thr = [t, _step(t, False, "f8")]                            # decreasing by one step: must be rejected
        else:
            thr = [_step(t, False, "f8"), _step(t, True, "f8"), t]      # last step decreasing
        if 0.0 in thr and rng.random() < 0.3:
            thr = [-0.0 if (x == 0.0 and rng.random() < 0.5) else x for x in thr]
        ncase, nmem = rng.choice([1, 2, 3]), rng.choice([1, 2, 3, 4])
        fc = [[NAN if rng.random() < 0.15 else near(t if dtype == "f4" else rng.choice(thr)) for _ in range(nmem)] for _ in range(ncase)]
        ob = [NAN if rng.random() < 0.1 else near(t if dtype == "f4" else rng.choice(thr)) for _ in range(ncase)]
        out.append({"fcst": fc, "obs": ob, "thr": thr, "scalar_thr": len(thr) == 1 and rng.random() < 0.5, "op": rng.choice(list(COMPL)),
                    "fair": rng.choice([True, False, "omit"]), "weights": None, "member_first": rng.random() < 0.3,
                    "malformed": None, "thr_dim": rng.choice([None, None, "thr"]), "dtype": dtype})
    return out


INF_THRESHOLDS = [[-INF, 1.0, INF], [INF], [-INF], [-INF, 0.5], [0.5, INF], [-INF, INF], [-INF, -1.0, 0.0, 0.0, 2.0, INF]]


def gen_ens_inf_probes(rng):
    """infinite event thresholds (-inf first, +inf last, alone) x every operator x fair on/off: observations and members
    equal to that infinity, to the opposite one, finite, missing -- y and i follow the order of the extended reals
    (inf >= inf, -inf <= -inf are true; inf > inf, -inf < -inf are false)"""
    out = []
    for thr in INF_THRESHOLDS:
        for op in COMPL:
            for fair in (True, False):
                pool = [INF, -INF, INF, -INF, NAN] + [t for t in thr if not math.isinf(t)] + [core.dyadic(rng, -3, 3)]
                nmem = rng.choice([1, 2, 3, 4])
                fc = [[INF] * nmem, [-INF] * nmem] + [[rng.choice(pool) for _ in range(nmem)] for _ in range(3)]
                ob = [INF, -INF, rng.choice(pool), INF, -INF]
                k = rng.randrange(5)
                fc, ob = fc[k:] + fc[:k], ob[k:] + ob[:k]
                if rng.random() < 0.3:
                    ob[rng.randrange(5)] = NAN
                weights = None
                if rng.random() < 0.25:
                    weights = [rng.choice([0.0, 0.5, 1.0, 2.0, NAN]) for _ in range(5)]
                out.append({"fcst": fc, "obs": ob, "thr": list(thr), "scalar_thr": len(thr) == 1 and rng.random() < 0.5, "op": op,
                            "fair": fair, "weights": weights, "member_first": rng.random() < 0.3, "malformed": None,
                            "thr_dim": rng.choice([None, None, "thr"]), "default_op": rng.random() < 0.5})
    return out


def inf_tag(c):
    """where the infinities of an ensemble case sit (for the measured input distribution)"""
    it = [t for t in c["thr"] if math.isinf(t)]
    if not it:
        return None
    on = any(o in it for o in c["obs"])
    mem = any(x in it for r in c["fcst"] for x in r)
    return "infinite-threshold:" + ("obs-on-it" if on else "obs-elsewhere") + (":member-on-it" if mem else "")


def thr_monotone(thr):
    """exact: python float comparison is a comparison of the values"""
    return all(a <= b for a, b in zip(thr, thr[1:]))


# ----------------------------------------------------------------------------- correspondence
def correspondence(ctx):
    rng = ctx.rng
    cases = []
    for _ in range(ctx.n(300, 5000)):
        c = gen_ens_case(rng)
        c["int_thr"] = rng.random() < 0.5
        c["default_op"] = rng.random() < 0.5
        cases.append(c)
    cases += gen_ens_probes(rng, ctx.n(80, 1500))
    cases += gen_ens_inf_probes(rng)
    model = core.run_driver("C13", [{"op": "c13.ens", "args": ens_args(c)} for c in cases])
    for c, m in zip(cases, model):
        res = run_ens(c)
        ctx.case("ensemble-vs-translated-model", ens_desc(c), nontrivial=c["malformed"] is None and res[0] == "ok"
                 and any(not math.isnan(x) for r in res[1] for x in r))
        t = ens_tags(c)
        ctx.tag("malformed:" + c["malformed"] if c["malformed"] else f"m:{t['m']}")
        if c.get("dtype"):
            ctx.tag("ens-resolution-probe:" + c["dtype"] + (":decreasing-thresholds" if not thr_monotone(c["thr"]) else ""))
        ctx.tag(f"op:{c['op']}")
        if inf_tag(c):
            ctx.tag(inf_tag(c))
        if not ens_matches(res, m):
            ctx.fail("ensemble-vs-translated-model", "correspondence", "probability.brier_score_for_ensemble", "value",
                     ens_desc(c), observed=res, expected=m, tags=t)
    # the translated per-case formula on explicit (i, m, y): every 0 <= i <= m <= 6, y in {0,1,NaN}, fair on/off,
    # against a fresh evaluation of the documented expression through the implementation with i of m members >= 0
    grid = [(i, m, y, fair) for m in range(0, 7) for i in range(0, m + 1) for y in (0.0, 1.0, NAN) for fair in (True, False)]
    ctx.exhaustive.append(f"per-case formula for all 0 <= i <= m <= 6, y in {{0,1,NaN}}, fair on/off ({len(grid)})")
    rows = core.run_driver("C13", [{"op": "c13.case", "args": {"i": str(i), "m": str(m), "y": core.fl_str(y), "fair": fair}}
                                   for i, m, y, fair in grid])
    from scores.probability import brier_score_for_ensemble
    for (i, m, y, fair), r in zip(grid, rows):
        ctx.case("per-case-formula-grid", {"i": i, "m": m, "y": y, "fair": fair}, nontrivial=m > 0 and not math.isnan(y))
        members = [1.0] * i + [-1.0] * (m - i) + [NAN] * (7 - m)
        fx = xr.DataArray(np.array([members]), dims=["case", "member"])
        ox = xr.DataArray(np.array([1.0 if y == 1.0 else (-1.0 if y == 0.0 else NAN)]), dims=["case"])
        with np.errstate(all="ignore"):
            got = float(brier_score_for_ensemble(fx, ox, "member", 0.0, fair_correction=fair).values.ravel()[0])
        if not core.close(got, r):
            ctx.fail("per-case-formula-grid", "correspondence", "probability.brier_score_for_ensemble", "per-case-value",
                     {"i": i, "m": m, "y": y, "fair": fair}, observed=got, expected=r, tags={"m": str(m), "fair": str(fair)})
    # brier_score
    bcs = [gen_brier_case(rng) for _ in range(ctx.n(200, 4000))] + gen_brier_probes(rng) + gen_brier_multi(rng)
    ops, spans = [], []
    for c in bcs:
        o = brier_ops(c, "c13.brier")
        spans.append((len(ops), len(o)))
        ops += o
    rows = core.run_driver("C13", ops)
    for c, (s, n) in zip(bcs, spans):
        res = run_brier(c)
        ms = rows[s:s + n]
        ctx.case("brier-vs-translated-model", brier_desc(c), nontrivial=res[0] == "ok")
        ctx.tag("brier:" + ("rejected" if "err" in ms[0] else "accepted") + ":check=" + str(c["check"]))
        if "err" in ms[0]:
            good = res == ("err", ms[0]["err"])
        else:
            good = res[0] == "ok" and len(res[1]) == n - 1 and all("ok" in m and brier_close(c, x, m["ok"]) for x, m in zip(res[1], ms[1:]))
        if not good:
            ctx.fail("brier-vs-translated-model", "correspondence", "probability.brier_score", "value", brier_desc(c),
                     observed=res, expected=ms, tags=brier_tags(c))


# ----------------------------------------------------------------------------- the property itself
def oracle_ens_case(ctx, batch, c, spec):
    res = run_ens(c)
    tags = ens_tags(c)
    site = "probability.brier_score_for_ensemble"
    if c.get("dtype"):
        tags["dtype"] = c["dtype"]
    if not thr_monotone(c["thr"]):         # documented: ValueError if the thresholds are not monotonically increasing
        if res != ("err", "ValueError"):
            ctx.fail(batch, "property", site, "decreasing-thresholds-not-rejected", ens_desc(c), observed=res, expected="ValueError",
                     tags=tags)
            return False
        return True
    if res[0] != "ok":
        ctx.fail(batch, "property", site, "exception", ens_desc(c), observed=res[1], expected="scores", tags=tags)
        return False
    ok = True
    if not ens_matches(res, spec):
        sig = "per-case-formula" if not close_matrix(res[1], spec["cases"]) else "mean-over-cases"
        ctx.fail(batch, "property", site, sig, ens_desc(c), observed={"cases": res[1], "mean": res[2]},
                 expected={k: spec[k] for k in ("cases", "mean", "i", "m")}, tags=tags, theorem="brier_case_formula")
        ok = False
    r2 = run_ens(c, op=COMPL[c["op"]])
    if r2[0] != "ok" or not all(core.close_ff(a, b) for ra, rb in zip(res[1], r2[1]) for a, b in zip(ra, rb)) \
            or not all(core.close_ff(a, b) for a, b in zip(res[2], r2[2])):
        ctx.fail(batch, "property", site, "complementary-operator-differs", ens_desc(c),
                 observed={"op": COMPL[c["op"]], "result": r2}, expected={"op": c["op"], "cases": res[1], "mean": res[2]},
                 tags=tags, theorem="complement_ge_lt / complement_gt_le")
        ok = False
    return ok


def oracle_brier_case(ctx, batch, c, rows):
    res = run_brier(c)
    site = "probability.brier_score"
    check = True if c["check"] == "omit" else c["check"]
    accepted = rows[0]["accepted"]
    tags = dict(brier_tags(c), accepted=accepted)
    if check and not accepted:
        if res != ("err", "ValueError"):
            ctx.fail(batch, "property", site, "invalid-input-not-rejected", brier_desc(c), observed=res, expected="ValueError",
                     tags=tags, theorem="range_guard_list / binary_guard / accepted_iff")
            return False
        return True
    if res[0] != "ok":
        ctx.fail(batch, "property", site, "exception", brier_desc(c), observed=res[1], expected="mean squared difference",
                 tags=tags, theorem="brier_guards")
        return False
    if len(res[1]) != len(rows) - 1 or not all(brier_close(c, x, r["value"]) for x, r in zip(res[1], rows[1:])):
        ctx.fail(batch, "property", site, "not-mean-squared-difference", brier_desc(c), observed=res[1],
                 expected=[r["value"] for r in rows[1:]], tags=tags, theorem="brier_eq_mean_squared_difference")
        return False
    return True


def oracle(ctx, boost):
    rng = ctx.rng
    mult = 5 if boost else 1
    cases = []
    for _ in range(ctx.n(300, 5000) * mult):
        c = gen_ens_case(rng, malformed_ok=False)
        c["int_thr"] = rng.random() < 0.5
        c["default_op"] = rng.random() < 0.5
        cases.append(c)
    # explicit ties: every member and the observation exactly on the threshold, each operator, m = 1 and m = 3
    for op in COMPL:
        for fair in (True, False):
            for mem in ([0.5], [0.5, 0.5, NAN, 0.75], [NAN, NAN]):
                cases.append({"fcst": [mem, list(reversed(mem))], "obs": [0.5, 0.25], "thr": [0.5], "scalar_thr": False, "op": op,
                              "fair": fair, "weights": None, "member_first": False, "malformed": None})
    cases += gen_ens_probes(rng, ctx.n(120, 2000) * mult)
    cases += gen_ens_inf_probes(rng)
    spec = core.run_driver("C13S", [{"op": "c13.ensspec", "args": ens_args(c)} for c in cases])
    for c, s in zip(cases, spec):
        ctx.case("ensemble-vs-definition", ens_desc(c))
        ctx.tag("oracle-m:" + ens_tags(c)["m"])
        if c.get("dtype"):
            ctx.tag("oracle-ens-resolution-probe:" + c["dtype"] + (":decreasing-thresholds" if not thr_monotone(c["thr"]) else ""))
        if inf_tag(c):
            ctx.tag("oracle-" + inf_tag(c))
        oracle_ens_case(ctx, "ensemble-vs-definition", c, s)
    bcs = [gen_brier_case(rng) for _ in range(ctx.n(200, 4000) * mult)] + gen_brier_probes(rng) + gen_brier_multi(rng)
    ops, spans = [], []
    for c in bcs:
        o = brier_ops(c, "c13.brierspec")
        for x in o:
            x["args"].pop("check")
        spans.append((len(ops), len(o)))
        ops += o
    rows = core.run_driver("C13S", ops)
    for c, (s, n) in zip(bcs, spans):
        ctx.case("brier-vs-definition", brier_desc(c))
        if c.get("multi"):
            ctx.tag("oracle-brier-multi-variable:" + c["kind"] + ":" + c["probe"].split(":")[0] + ":" + c["probe"].split(":")[1].split("-")[0]
                    + ":" + ("accepted" if rows[s]["accepted"] else "outside") + ":check=" + str(c["check"]))
        elif c.get("probe"):
            ctx.tag("oracle-brier-boundary-probe:" + ("accepted" if rows[s]["accepted"] else "outside") + ":"
                    + c["container"] + ":" + c["dtype"] + ":check=" + str(c["check"]))
        oracle_brier_case(ctx, "brier-vs-definition", c, rows[s:s + n])


# ----------------------------------------------------------------------------- replay
def replay(ctx, payload):
    case = payload["case"]
    ctx2 = core.Ctx("C13", "quick", 0)

    def unfl(v):
        if isinstance(v, list):
            return [unfl(x) for x in v]
        if isinstance(v, dict):
            return {k: unfl(x) for k, x in v.items()}
        if isinstance(v, str) and v in ("nan", "inf", "-inf"):
            return float(v)
        return v
    c = {k: unfl(v) for k, v in case.items()}
    if "thr" in c:
        c["malformed"] = None
        s = core.run_driver("C13S", [{"op": "c13.ensspec", "args": ens_args(c)}])[0]
        return not oracle_ens_case(ctx2, "replay", c, s)
    if "f" in c or "vars" in c:
        ops = brier_ops(c, "c13.brierspec")
        for x in ops:
            x["args"].pop("check")
        rows = core.run_driver("C13S", ops)
        return not oracle_brier_case(ctx2, "replay", c, rows)
    return True
