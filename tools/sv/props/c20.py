"""C20 — out-of-domain parameters are rejected exactly at the documented boundary, not scored."""
from __future__ import annotations

import math

import numpy as np
import xarray as xr

from sv import core

PROPERTY = "C20"
GEN = ["Guards"]
PROPS = ["ScoresVerif/Props/C20.lean"]
DRIVER_DEPS = ["ScoresVerif.Driver.C20Spec", "ScoresVerif.Driver.C20"]
LEVEL = "proof"
TRUSTED = ["tools/c20_audit.py classification of the guard sites that are NOT translated (probe-only / outside the property)",
           "tools/gen/Guards.py table: which `if …: raise` of which function is which guard, the substitutions of "
           "sub-expressions by scalar parameters (fcst.max() -> fcst_max, len(diffs) -> n, …) and the stripping of "
           ".any()/.all() (the function raises iff the pointwise guard fires for some element)",
           "the probe fixtures (otherwise valid arguments of each public function) in tools/sv/props/c20.py"]
ASSUMPTIONS = ["NaN-valued parameters are outside the property's quantifier (recorded in Props/C20.lean §4 and probed for "
               "information only)",
               "guards on dimension names, coordinates, dtypes, shapes, option combinations and data conditions (74 of the 153 "
               "`if …: raise` sites of the anchored files, listed one by one in notes/C20.md by tools/c20_audit.py) are not "
               "part of this property's list and are not modelled"]
MANIFEST = dict(
    level="proof",
    text="66 parameter guards are regenerated on every run from the `if ...: raise` statements of the listed public functions "
         "and their check helpers (check_alpha, check_huber_param, quantile/interval scores, _check_murphy_inputs, tw end-point "
         "checks, _check_firm_inputs, crps/brier/roc range and ordering checks, discretise, cdf precision, isotonic checks, FSS "
         "window, Diebold-Mariano h and confidence level, risk-matrix checks; since the guard-site audit also fill_cdf's method and its "
         "method-dependent min_nonnan (>= 2 for 'linear', >= 1 otherwise, also through add_thresholds), decreasing_cdfs tolerance, "
         "the enumerated string options of crps_cdf / crps_cdf_brier_decomposition / crps_for_ensemble / tail_tw_crps_for_ensemble / "
         "diebold_mariano / risk_matrix_score, the Dataset branch of brier_score, threshold counts, the warning-scaling-matrix "
         "checks) as Boolean functions of their scalar and string parameters; "
         "kernel-checked Lean theorems state for each: guard fires <-> parameter outside the documented domain (open (0,1), "
         "> 0, >= 0, 0 < a < b < 1, lower <= upper, a < b < c < d, [0,1] and (0,1) ranges, non-decreasing thresholds, "
         "1 <= window <= side, 0 < h < n, whole h, int >= 1, one of the documented strings, min_nonnan >= 2 resp. 1), with the lift to arrays (raises iff some element offends) and "
         "the +-inf end-point rules.  An exhaustive probe grid (about 3900 calls) drives the REAL public functions at {inside, "
         "just inside, on, just outside, outside} each boundary as python float/int, numpy float64/float32/int64 and arrays "
         "with one offending element at every position, and - for the value guards that accept a Dataset (check_binary behind "
         "brier_score / probability_of_detection / probability_of_false_detection, brier_score's and risk_matrix_score's [0,1] "
         "range and {0,1} checks) - Datasets of 2 and 3 variables with the offending element in the variable at every index "
         "(also hidden among NaNs, other variables all-NaN, mixed dimensions, float32 / int64 storage), and compares raise (ValueError subclass / TypeError) vs return with "
         "the translated guards (correspondence) and with the hand-written documented domains (oracle).",
    note="Trusted: Lean kernel; standard axioms; py2lean + tools/gen/Guards.py (the table naming which `if` is which guard, "
         "the substitution of sub-expressions like fcst.max() or len(diffs) by scalar parameters, stripping of existential "
         ".any()/not .all() wrappers - universal ones are refused); the probe fixtures.  13 guard sites are not translatable and covered by "
         "probing against the documented rule only: check_binary and the risk-matrix observation check (set based), "
         "coords_increasing (4 callers), cdf_values_within_bounds (fill_cdf), the functional of murphy_* (module-level list) and "
         "isotonic_fit (list with None), operator-valued options (brier_score_for_ensemble, FSS threshold_operator), the mode of "
         "comparative/binary_discretise (`else: raise`) and of check_dims.  tools/c20_audit.py enumerates every `if …: raise` of "
         "the anchored files and their check helpers (153 sites: 66 translated, 13 probe-only, 74 outside the property: "
         "dimension names, coordinates, dtypes, shapes, option combinations, data conditions - listed in notes/C20.md); its "
         "summary line is added to the evidence notes on every run.  murphy_score lower-cases `functional` before validating "
         "it (deliberate; murphy_thetas does not): the probe expects exactly that.  'Rejected before any result is returned' is observed (the call raises), not "
         "proved from control flow.  interval_score rejects interval_range within 2^-53 of 0 or 1 because the symmetric "
         "levels are computed in floating point first: tagged rounding-sensitive, see notes/C20.md.  NaN parameters are "
         "outside the quantifier (recorded: theorem nan_parameters).",
    technique="Lean 4 theorems over translator-regenerated guards + exhaustive boundary probing of the real functions",
    design="6/C20")
RULE = ("the probe grid: every validated parameter of every listed public function x {well inside, just inside, on, just "
        "outside, well outside} each boundary x {python float, python int, numpy float64/float32/int64} and, where the "
        "parameter may be an array, arrays with one offending element at each position; enumerated options x {every documented "
        "spelling, wrong case, empty, undocumented}; fill_cdf / add_thresholds: every method x min_nonnan in {-1, 0, 1, 2, 3}; "
        "Dataset-accepting value guards: 2 and 3 data variables x offending variable at every index x {plain, only non-NaN "
        "value of its variable, other variables all-NaN, mixed dimensions} x {float64, float32, int64}; "
        "exhaustive, no sampling; "
        "distinct = distinct (site, values, container); non-trivial = the call is in-domain and returns")

TINY = float(np.nextafter(0.0, 1.0))
BELOW1 = float(np.nextafter(1.0, 0.0))
ABOVE1 = float(np.nextafter(1.0, 2.0))
INF = float("inf")

POINTS = {
    "open01": [0.5, 1e-9, TINY, BELOW1, 0.25, 0.0, 1.0, 0, 1, -TINY, ABOVE1, -0.5, 1.5, 2, -1],
    "positive": [1.0, 1e-9, TINY, 2, 0.0, 0, -TINY, -1e-9, -1.0, -1],
    "nonneg": [0.0, 0, TINY, 1e-9, 1.0, 2, -TINY, -1e-9, -1.0, -1],
}


def variants(v):
    """the same number in every container type that can hold it exactly"""
    out = [("py-int" if isinstance(v, int) else "py-float", v)]
    if isinstance(v, int):
        out.append(("np.int64", np.int64(v)))
        out.append(("float", float(v)))
    else:
        out.append(("np.float64", np.float64(v)))
        if float(np.float32(v)) == v:
            out.append(("np.float32", np.float32(v)))
    return out


def S(v):
    if v is None:
        return None
    if isinstance(v, (bool, np.bool_)):
        return "1" if v else "0"
    return core.fl_str(float(v) if not isinstance(v, int) else v)


# ----------------------------------------------------------------------------- fixtures
def fixtures():
    import scores.categorical as sca
    import scores.continuous as sc
    import scores.probability as sp
    import scores.processing as spr
    import scores.processing.cdf as cdf
    from scores.emerging import matrix_weights_to_array, risk_matrix_score, weights_from_warning_scaling
    from scores.spatial import fss_2d_single_field
    from scores.stats.statistical_tests import diebold_mariano
    f = xr.DataArray([[1.0, 2.0, 3.0], [0.5, 4.0, 2.0]], dims=["a", "b"])
    o = xr.DataArray([[1.5, 2.0, 0.0], [0.5, 1.0, 3.0]], dims=["a", "b"])
    ident = lambda x: x
    sq = lambda x: x * x
    dbl = lambda x: 2 * x
    thr = [0.0, 1.0, 2.0, 3.0]
    cdf_f = xr.DataArray([[0.0, 0.3, 0.7, 1.0], [0.1, 0.2, 0.9, 1.0]], dims=["a", "threshold"], coords={"threshold": thr})
    obs1 = xr.DataArray([1.5, 0.5], dims=["a"])
    ens = xr.DataArray([[1.0, 2.0, 4.0], [0.0, 3.0, 5.0]], dims=["a", "member"])
    pf = xr.DataArray([0.1, 0.5, 0.9, 0.3], dims=["t"])
    bo = xr.DataArray([0.0, 1.0, 1.0, 0.0], dims=["t"])
    iso_f = np.array([1.0, 2.0, 3.0, 4.0, 5.0, 6.0])
    iso_o = np.array([1.5, 1.0, 3.5, 3.0, 6.0, 5.0])
    fld_f = np.arange(20, dtype=float).reshape(4, 5) / 20
    fld_o = (np.arange(20, dtype=float).reshape(4, 5)[::-1] / 20).copy()
    sev = [0, 1, 2]
    rf = xr.DataArray([[0.2, 0.6, 0.1], [0.9, 0.4, 0.0]], dims=["t", "sev"], coords={"sev": sev})
    ro = xr.DataArray([[1.0, 0.0, 0.0], [1.0, 1.0, 0.0]], dims=["t", "sev"], coords={"sev": sev})

    def dw(ths):
        return xr.DataArray(np.ones((len(ths), 3)), dims=["pt", "sev"], coords={"pt": list(ths), "sev": sev})

    def dm_series(hs, n=8):
        rng = np.random.RandomState(1)
        return xr.DataArray(rng.normal(size=(len(hs), n)), dims=["lead", "t"],
                            coords={"lead": list(range(len(hs))), "t": list(range(n)), "h": ("lead", list(hs))})
    scaling = np.array([[0, 2, 3, 3], [0, 1, 2, 3], [0, 1, 1, 2], [0, 0, 0, 0]])
    sites = []

    def scalar(guard, kind, name, call, pre=()):
        """one scalar parameter; guard arguments = pre + [v]"""
        for v in POINTS[kind]:
            for lab, cv in variants(v):
                sites.append(dict(site=name, guards=[(guard, list(pre) + [S(v)])], call=(lambda cv=cv: call(cv)),
                                  desc={"value": S(v), "container": lab}))

    scalar("check_alpha", "open01", "consistent_quantile_score.alpha", lambda v: sc.consistent_quantile_score(f, o, v, ident))
    scalar("check_alpha", "open01", "consistent_expectile_score.alpha", lambda v: sc.consistent_expectile_score(f, o, v, sq, dbl))
    scalar("check_alpha", "open01", "tw_quantile_score.alpha", lambda v: sc.tw_quantile_score(f, o, v, (0, 2)))
    scalar("check_alpha", "open01", "tw_expectile_score.alpha", lambda v: sc.tw_expectile_score(f, o, v, (0, 2)))
    scalar("check_huber_param", "positive", "consistent_huber_score.huber_param", lambda v: sc.consistent_huber_score(f, o, v, sq, dbl))
    scalar("check_huber_param", "positive", "tw_huber_loss.huber_param", lambda v: sc.tw_huber_loss(f, o, v, (0, 2)))
    scalar("quantile_score_alpha", "open01", "quantile_score.alpha", lambda v: sc.quantile_score(f, o, v))
    scalar("interval_range", "open01", "interval_score.interval_range", lambda v: sc.interval_score(f, f + 1, o, v))
    for s_ in sites:   # (1 - r) / 2 and (1 + r) / 2 are computed in floating point before the level check of
        if s_["site"] == "interval_score.interval_range":   # quantile_interval_score: for r within 2^-53 of 0 or 1 they collapse
            r_ = float(core.parse_fl(s_["desc"]["value"]))
            if 0 < r_ < 1 and not 0 < (1 - r_) / 2 < (1 + r_) / 2 < 1:
                s_["rounding"] = True
    scalar("murphy_alpha", "open01", "murphy_score.alpha", lambda v: sc.murphy_score(f, o, [1.0, 2.0], functional="quantile", alpha=v))
    scalar("murphy_huber_a", "positive", "murphy_score.huber_a",
           lambda v: sc.murphy_score(f, o, [1.0, 2.0], functional="huber", alpha=0.5, huber_a=v), pre=["1"])
    scalar("murphy_huber_a", "positive", "murphy_thetas.huber_a",
           lambda v: sc.murphy_thetas([f], o, "huber", huber_a=v), pre=["1"])
    scalar("murphy_left_limit_delta", "nonneg", "murphy_thetas.left_limit_delta",
           lambda v: sc.murphy_thetas([f], o, "quantile", left_limit_delta=v))
    scalar("firm_risk_parameter", "open01", "firm.risk_parameter", lambda v: sca.firm(f, o, v, [1.0, 2.0], [1.0, 1.0]))
    scalar("firm_weight_scalar", "positive", "firm.threshold_weights[scalar]", lambda v: sca.firm(f, o, 0.5, [1.0, 2.0], [1.0, v]))
    scalar("firm_discount_distance", "nonneg", "firm.discount_distance",
           lambda v: sca.firm(f, o, 0.5, [1.0, 2.0], [1.0, 1.0], discount_distance=v))
    scalar("crps_adjust_tolerance", "nonneg", "adjust_fcst_for_crps.decreasing_tolerance",
           lambda v: sp.adjust_fcst_for_crps(cdf_f, "threshold", obs1, decreasing_tolerance=v))
    scalar("discretise_abs_tolerance", "nonneg", "comparative_discretise.abs_tolerance",
           lambda v: spr.comparative_discretise(f, 1.0, ">=", abs_tolerance=v))
    scalar("discretise_abs_tolerance", "nonneg", "binary_discretise.abs_tolerance",
           lambda v: spr.binary_discretise(f, [1.0, 2.0], ">=", abs_tolerance=v))
    scalar("cdf_round_precision", "nonneg", "round_values.rounding_precision", lambda v: cdf.round_values(f, v))
    scalar("cdf_observed_precision", "nonneg", "observed_cdf.precision",
           lambda v: cdf.observed_cdf(obs1, "threshold", threshold_values=[0.0, 1.0, 2.0], precision=v))
    scalar("iso_quantile_level", "open01", "isotonic_fit.quantile_level",
           lambda v: sc.isotonic_fit(iso_f, iso_o, functional="quantile", quantile_level=v), pre=["1"])
    scalar("iso_confidence_level", "open01", "isotonic_fit.confidence_level",
           lambda v: sc.isotonic_fit(iso_f, iso_o, bootstraps=2, confidence_level=v))
    scalar("dm_confidence_level", "open01", "diebold_mariano.confidence_level",
           lambda v: diebold_mariano(dm_series([1, 2]), "lead", "h", confidence_level=v))

    # FIRM string option
    for s_ in ["upper", "lower", "Upper", "", "middle"]:
        sites.append(dict(site="firm.threshold_assignment", guards=[("firm_threshold_assignment", [{"str": s_}])],
                          call=(lambda s_=s_: sca.firm(f, o, 0.5, [1.0, 2.0], [1.0, 1.0], threshold_assignment="".join(list(s_)))),
                          desc={"value": s_, "container": "str"}))

    # bootstraps: a python int >= 1
    for v in [1, 2, 0, -1, 1.0, 2.5, np.int64(2), np.float64(1.0)]:
        sites.append(dict(site="isotonic_fit.bootstraps", guards=[("iso_bootstraps", [S(isinstance(v, int)), S(v)])],
                          call=(lambda v=v: sc.isotonic_fit(iso_f, iso_o, bootstraps=v)),
                          desc={"value": S(v), "container": type(v).__name__}))

    # quantile-interval levels
    lv = [0.0, TINY, 0.25, 0.5, 0.75, BELOW1, 1.0, -TINY, ABOVE1, 0, 1]
    for a in lv:
        for b in lv:
            for lab, conv in (("py", lambda x: x), ("np.float64", np.float64)):
                sites.append(dict(site="quantile_interval_score.levels", guards=[("qis_levels", [S(a), S(b)])],
                                  call=(lambda a=a, b=b, conv=conv: sc.quantile_interval_score(f, f + 1, o, conv(a), conv(b))),
                                  desc={"lower": S(a), "upper": S(b), "container": lab}))
    # lower quantile above upper in ONE element
    base_l = np.array([[0.0, 1.0, 2.0], [3.0, 4.0, 5.0]])
    for pos in range(6):
        for delta in [0.0, TINY * 0 + 2.0 ** -40, -2.0 ** -40, 1.0, -1.0]:
            up = base_l.copy()
            up.flat[pos] = base_l.flat[pos] + delta
            up2 = base_l + 1.0
            up2.flat[pos] = up.flat[pos]
            lo_x, up_x = xr.DataArray(base_l, dims=["a", "b"]), xr.DataArray(up2, dims=["a", "b"])
            g = [("qis_order", [S(x), S(y)]) for x, y in zip(base_l.flat, up2.flat)]
            sites.append(dict(site="quantile_interval_score.order", guards=g,
                              call=(lambda lo_x=lo_x, up_x=up_x: sc.quantile_interval_score(lo_x, up_x, o, 0.25, 0.75)),
                              desc={"pos": pos, "delta": S(delta), "container": "array"}))
            sites.append(dict(site="interval_score.order", guards=g,
                              call=(lambda lo_x=lo_x, up_x=up_x: sc.interval_score(lo_x, up_x, o, 0.5)),
                              desc={"pos": pos, "delta": S(delta), "container": "array"}))

    # threshold-weighted scores: rectangular weight
    ends = [(0.0, 1.0), (1.0, 1.0), (1.0, 0.0), (1.0, float(np.nextafter(1.0, 2.0))), (float(np.nextafter(1.0, 2.0)), 1.0),
            (-INF, 1.0), (0.0, INF), (-INF, INF), (0, 1), (1, 1), (2, 1)]
    for a, b in ends:
        for lab, conv in (("py", lambda x: x), ("np.float64", lambda x: np.float64(x)), ("xr0d", lambda x: xr.DataArray(float(x)))):
            for nm, fn in (("tw_squared_error", sc.tw_squared_error), ("tw_absolute_error", sc.tw_absolute_error)):
                sites.append(dict(site=nm + ".interval_where_one", guards=[("tw_rect_order", [S(a), S(b)])],
                                  call=(lambda a=a, b=b, conv=conv, fn=fn: fn(f, o, (conv(a), conv(b)))),
                                  desc={"a": S(a), "b": S(b), "container": lab}))
    for pos in range(3):
        for delta in [1.0, 0.0, -1.0, 2.0 ** -40, -2.0 ** -40]:
            av = np.array([0.0, 1.0, 2.0])
            bv = av + 1.0
            bv[pos] = av[pos] + delta
            ax, bx = xr.DataArray(av, dims=["b"]), xr.DataArray(bv, dims=["b"])
            sites.append(dict(site="tw_squared_error.interval_where_one[array]",
                              guards=[("tw_rect_order", [S(x), S(y)]) for x, y in zip(av, bv)],
                              call=(lambda ax=ax, bx=bx: sc.tw_squared_error(f, o, (ax, bx))),
                              desc={"pos": pos, "delta": S(delta), "container": "array"}))
    # trapezoidal weight: positive on (a, d), one on [b, c]
    quads = [(0.0, 1.0, 2.0, 3.0), (1.0, 1.0, 2.0, 3.0), (0.0, 1.0, 3.0, 3.0), (0.0, 2.0, 2.0, 3.0), (0.0, 2.0, 1.0, 3.0),
             (1.5, 1.0, 2.0, 3.0), (0.0, 1.0, 2.0, 1.5), (0.0, float(np.nextafter(0.0, 1.0)), 2.0, 3.0),
             (-INF, -INF, 2.0, 3.0), (-INF, 1.0, 2.0, 3.0), (0.0, 1.0, INF, INF), (0.0, 1.0, 2.0, INF), (-INF, -INF, INF, INF),
             (0.0, 1.0, 2.0, float(np.nextafter(2.0, 3.0))), (0, 1, 2, 3), (1, 1, 2, 3)]
    for a, b, c, d in quads:
        g = [("tw_trap_one_order", [S(b), S(c)]), ("tw_trap_inf_rule", [S(a), S(b), S(c), S(d)]),
             ("tw_trap_left", [S(a), S(b)]), ("tw_trap_right", [S(c), S(d)])]
        for lab, conv in (("py", lambda x: x), ("xr0d", lambda x: xr.DataArray(float(x)))):
            sites.append(dict(site="tw_squared_error.interval_where_positive", guards=g,
                              call=(lambda a=a, b=b, c=c, d=d, conv=conv: sc.tw_squared_error(
                                  f, o, (conv(b), conv(c)), interval_where_positive=(conv(a), conv(d)))),
                              desc={"a": S(a), "b": S(b), "c": S(c), "d": S(d), "container": lab}))

    # FIRM weights given as arrays with one offending element
    for pos in range(3):
        for w in [1.0, TINY, 0.0, -TINY, -1.0]:
            wv = np.array([1.0, 2.0, 0.5])
            wv[pos] = w
            wx = xr.DataArray(wv, dims=["b"])
            sites.append(dict(site="firm.threshold_weights[array]", guards=[("firm_weight_array", [S(x)]) for x in wv],
                              call=(lambda wx=wx: sca.firm(f, o, 0.5, [1.0, 2.0], [1.0, wx])),
                              desc={"pos": pos, "value": S(w), "container": "array"}))

    # CRPS for CDFs: negative threshold weight in one element
    for pos in range(4):
        for w in [1.0, 0.0, TINY, -TINY, -1.0]:
            wv = np.array([1.0, 1.0, 0.5, 1.0])
            wv[pos] = w
            wx = xr.DataArray(wv, dims=["threshold"], coords={"threshold": thr})
            sites.append(dict(site="crps_cdf.threshold_weight", guards=[("crps_cdf_weight_negative", [S(x)]) for x in wv],
                              call=(lambda wx=wx: sp.crps_cdf(cdf_f, obs1, threshold_weight=wx)),
                              desc={"pos": pos, "value": S(w), "container": "array"}))
    # interval threshold-weighted ensemble CRPS
    for a, b in [(0.0, 1.0), (1.0, 1.0), (1.0, 0.0), (1.0, ABOVE1), (ABOVE1, 1.0), (0, 1), (1, 1)]:
        for lab, conv in (("py", lambda x: x), ("np.float64", lambda x: np.float64(x))):
            sites.append(dict(site="interval_tw_crps_for_ensemble.thresholds", guards=[("crps_interval_tw_scalar", [S(a), S(b)])],
                              call=(lambda a=a, b=b, conv=conv: sp.interval_tw_crps_for_ensemble(ens, obs1, "member", conv(a), conv(b))),
                              desc={"lower": S(a), "upper": S(b), "container": lab}))
    for pos in range(2):
        for delta in [1.0, 0.0, -1.0, 2.0 ** -40, -2.0 ** -40]:
            lo = np.array([0.0, 1.0])
            up = lo + 1.0
            up[pos] = lo[pos] + delta
            lx, ux = xr.DataArray(lo, dims=["a"]), xr.DataArray(up, dims=["a"])
            sites.append(dict(site="interval_tw_crps_for_ensemble.thresholds[array]",
                              guards=[("crps_interval_tw_array", [S(x), S(y)]) for x, y in zip(lo, up)],
                              call=(lambda lx=lx, ux=ux: sp.interval_tw_crps_for_ensemble(ens, obs1, "member", lx, ux)),
                              desc={"pos": pos, "delta": S(delta), "container": "array"}))
    # LABELS class: the two threshold arrays carry the same station labels stored in a different order — the guard is
    # about the interval of each STATION (label), not about storage positions
    ens_l, obs_l = ens.assign_coords(a=[0, 1]), obs1.assign_coords(a=[0, 1])
    for lo, up in [([0.0, 1.0], [1.0, 2.0]), ([0.0, 1.5], [1.0, 2.0]), ([0.0, 2.5], [1.0, 2.0]), ([0.0, 1.0], [0.5, 0.75]),
                   ([0.0, 1.0], [0.5, 1.0]), ([2.0, 0.0], [3.0, 1.0])]:
        lx = xr.DataArray(lo, dims=["a"], coords={"a": [0, 1]})
        ux = xr.DataArray(up[::-1], dims=["a"], coords={"a": [1, 0]})
        sites.append(dict(site="interval_tw_crps_for_ensemble.thresholds[labelled array]",
                          guards=[("crps_interval_tw_array", [S(x), S(y)]) for x, y in zip(lo, up)],
                          call=(lambda lx=lx, ux=ux: sp.interval_tw_crps_for_ensemble(ens_l, obs_l, "member", lx, ux)),
                          desc={"lower": [S(x) for x in lo], "upper": [S(y) for y in up], "container": "labelled array, reversed storage"}))

    # probability forecasts outside [0, 1] in one element
    probs = [0.0, 1.0, TINY, BELOW1, -TINY, ABOVE1, -0.5, 1.5]
    for pos in range(4):
        for p in probs:
            pv = np.array([0.1, 0.5, 0.9, 0.3])
            pv[pos] = p
            px = xr.DataArray(pv, dims=["t"])
            rng_args = [S(float(pv.max())), S(float(pv.min()))]
            sites.append(dict(site="brier_score.fcst", guards=[("brier_fcst_range", rng_args)],
                              call=(lambda px=px: sp.brier_score(px, bo)), desc={"pos": pos, "value": S(p), "container": "array"}))
            sites.append(dict(site="roc_curve_data.fcst", guards=[("roc_fcst_range", rng_args)],
                              call=(lambda px=px: sp.roc_curve_data(px, bo, [0.0, 0.5, 1.0])),
                              desc={"pos": pos, "value": S(p), "container": "array"}))
    for pos in range(3):
        for p in probs:
            tv = [0.0, 0.5, 1.0]
            tv[pos] = p
            g = [("roc_thresholds_range", [S(max(tv)), S(min(tv))])] + \
                [("roc_thresholds_monotonic", [S(x), S(y)]) for x, y in zip(tv[:-1], tv[1:])]
            for lab, conv in (("list", list), ("np.array", np.array), ("tuple", tuple)):
                sites.append(dict(site="roc_curve_data.thresholds", guards=g,
                                  call=(lambda tv=tv, conv=conv: sp.roc_curve_data(pf, bo, conv(tv))),
                                  desc={"thresholds": [S(x) for x in tv], "container": lab}))
    for tv in [[0.2, 0.2, 0.6], [0.2, 0.6, 0.6], [0.6, 0.2, 0.8], [0.2, 0.8, 0.6], [0.2, float(np.nextafter(0.2, 0)), 0.9]]:
        g = [("roc_thresholds_range", [S(max(tv)), S(min(tv))])] + \
            [("roc_thresholds_monotonic", [S(x), S(y)]) for x, y in zip(tv[:-1], tv[1:])]
        sites.append(dict(site="roc_curve_data.thresholds[order]", guards=g, call=(lambda tv=tv: sp.roc_curve_data(pf, bo, tv)),
                          desc={"thresholds": [S(x) for x in tv], "container": "list"}))
        g2 = [("binary_discretise_monotonic", [S(x), S(y)]) for x, y in zip(tv[:-1], tv[1:])]
        sites.append(dict(site="binary_discretise.thresholds[order]", guards=g2,
                          call=(lambda tv=tv: spr.binary_discretise(pf, tv, ">=")), desc={"thresholds": [S(x) for x in tv], "container": "list"}))
    # non-binary observations (set-based check: translator-inapplicable, probed against the documented rule)
    for pos in range(4):
        for v in [0.0, 1.0, float("nan"), 0.5, 2.0, -1.0, TINY, BELOW1]:
            ov = np.array([0.0, 1.0, 1.0, 0.0])
            ov[pos] = v
            ox = xr.DataArray(ov, dims=["t"])
            bad = not (math.isnan(v) or v in (0.0, 1.0))
            sites.append(dict(site="brier_score.obs[binary]", guards=[], pyexpect=bad, call=(lambda ox=ox: sp.brier_score(pf, ox)),
                              desc={"pos": pos, "value": S(v), "container": "array"}))
            sites.append(dict(site="roc_curve_data.obs[binary]", guards=[], pyexpect=bad,
                              call=(lambda ox=ox: sp.roc_curve_data(pf, ox, [0.0, 0.5, 1.0])),
                              desc={"pos": pos, "value": S(v), "container": "array"}))
    # non-increasing threshold coordinates of a CDF (coords_increasing: translator-inapplicable)
    for tc in [[0.0, 1.0, 2.0, 3.0], [0.0, 1.0, 1.0, 3.0], [0.0, 2.0, 1.0, 3.0], [3.0, 2.0, 1.0, 0.0], [0.0, 1.0, float(np.nextafter(1.0, 2.0)), 3.0]]:
        cx = xr.DataArray([[0.0, 0.3, 0.7, 1.0], [0.1, 0.2, 0.9, 1.0]], dims=["a", "threshold"], coords={"threshold": tc})
        bad = not all(y > x for x, y in zip(tc[:-1], tc[1:]))
        sites.append(dict(site="crps_cdf.threshold_coords", guards=[], pyexpect=bad, call=(lambda cx=cx: sp.crps_cdf(cx, obs1)),
                          desc={"coords": [S(x) for x in tc], "container": "coords"}))

    # isotonic weights: one non-positive element
    for pos in range(6):
        for w in [1.0, TINY, 0.0, -TINY, -1.0]:
            wv = np.ones(6)
            wv[pos] = w
            sites.append(dict(site="isotonic_fit.weight", guards=[("iso_weight_positive", [S(x)]) for x in wv],
                              call=(lambda wv=wv: sc.isotonic_fit(iso_f, iso_o, weight=wv)),
                              desc={"pos": pos, "value": S(w), "container": "array"}))

    # FSS window: 1 <= w <= side on a 4 x 5 field
    for w0 in [0, 1, 2, 4, 5, -1]:
        for w1 in [0, 1, 3, 5, 6, -1]:
            for lab, conv in (("py", int), ("np.int64", np.int64)):
                sites.append(dict(site="fss_2d_single_field.window_size", guards=[("fss_window", [S(w0), S(w1), "4", "5"])],
                                  call=(lambda w0=w0, w1=w1, conv=conv: fss_2d_single_field(
                                      fld_f, fld_o, event_threshold=0.5, window_size=(conv(w0), conv(w1)))),
                                  desc={"w0": w0, "w1": w1, "container": lab}))

    # Diebold-Mariano: h must be a positive whole number below the series length (8 valid points per series)
    for h in [1, 2, 7, 8, 9, 0, -1, 1.5, 7.0, 8.0]:
        g = [("dm_h_integer", [S(h)]), ("dm_h_positive", [S(h)]), ("dm_h_below_length", ["8", S(h)]), ("dm_stat_h", [S(h), "8"])]
        for method in ("HG", "HLN"):
            sites.append(dict(site="diebold_mariano.h", guards=g,
                              call=(lambda h=h, method=method: diebold_mariano(dm_series([1, h]), "lead", "h", method=method)),
                              desc={"h": S(h), "container": "coord", "method": method}))

    # risk matrix score
    for pos in range(6):
        for p in probs:
            pv = np.array([[0.2, 0.6, 0.1], [0.9, 0.4, 0.0]])
            pv.flat[pos] = p
            px = xr.DataArray(pv, dims=["t", "sev"], coords={"sev": sev})
            sites.append(dict(site="risk_matrix_score.fcst", guards=[("risk_fcst_range", [S(float(pv.max())), S(float(pv.min()))])],
                              call=(lambda px=px: risk_matrix_score(px, ro, dw([0.1, 0.5]), "sev", "pt")),
                              desc={"pos": pos, "value": S(p), "container": "array"}))
    for pos in range(3):
        for p in [0.5, TINY, BELOW1, 0.0, 1.0, -TINY, ABOVE1, -0.5, 1.5]:
            tv = [0.2, 0.4, 0.7]
            tv[pos] = p
            args = [S(min(tv)), S(max(tv))]
            sites.append(dict(site="risk_matrix_score.prob_thresholds", guards=[("risk_prob_thresholds", args)],
                              call=(lambda tv=tv: risk_matrix_score(rf, ro, dw(tv), "sev", "pt")),
                              desc={"thresholds": [S(x) for x in tv], "container": "coords"}))
            sites.append(dict(site="matrix_weights_to_array.prob_threshold_coords", guards=[("risk_matrix_prob_thresholds", args)],
                              call=(lambda tv=tv: matrix_weights_to_array(np.ones((3, 3)), "sev", sev, "pt", tv)),
                              desc={"thresholds": [S(x) for x in tv], "container": "list"}))
            sites.append(dict(site="weights_from_warning_scaling.prob_threshold_coords", guards=[("risk_scaling_prob_thresholds", args)],
                              call=(lambda tv=tv: weights_from_warning_scaling(scaling, [1, 2, 3], "sev", sev, "pt", tv)),
                              desc={"thresholds": [S(x) for x in tv], "container": "list"}))
    for pos in range(3):
        for w in [1.0, TINY, 0.0, -TINY, -1.0, 0, 2]:
            wv = [1.0, 2.0, 3.0]
            wv[pos] = w
            sites.append(dict(site="weights_from_warning_scaling.assessment_weights", guards=[("risk_assessment_weights", [S(min(wv))])],
                              call=(lambda wv=wv: weights_from_warning_scaling(scaling, wv, "sev", sev, "pt", [0.1, 0.3, 0.5])),
                              desc={"weights": [S(x) for x in wv], "container": "list"}))
    # ================================================================== added after the guard-site audit
    # (tools/c20_audit.py, notes/C20.md): enumerated options, counts, fill_cdf's method-dependent min_nonnan, …
    # A string parameter of a guard travels as {"str": …} inside the guard's argument list; the calls get freshly
    # built str objects.
    def Sx(s_):
        return {"str": s_}

    def fresh(s_):
        return "".join(list(s_)) if isinstance(s_, str) else s_

    def add(site, call, desc, guards=(), spec_guards=None, pyexpect=None, theorem=None):
        d = dict(site=site, guards=list(guards), call=call, desc=desc)
        if spec_guards is not None:
            d["spec_guards"] = list(spec_guards)
        if pyexpect is not None:
            d["pyexpect"] = pyexpect
        if theorem:
            d["theorem"] = theorem
        sites.append(d)

    # fill_cdf / add_thresholds: every method x min_nonnan in {-1, 0, 1, 2, 3} (minimum 2 for "linear", 1 otherwise)
    fc = xr.DataArray([[0.0, np.nan, 0.4, np.nan, 1.0], [np.nan, 0.2, np.nan, np.nan, np.nan], [np.nan] * 5],
                      dims=["a", "x"], coords={"x": [0, 1, 2, 3, 4]})
    methods = ["linear", "step", "forward", "backward"]
    for m in methods:
        for k in [-1, 0, 1, 2, 3]:
            for lab, conv in (("py-int", int), ("np.int64", np.int64)):
                g = [("fill_cdf_method", [Sx(m)]), ("fill_cdf_min_nonnan_other", [S(k), Sx(m)]),
                     ("fill_cdf_min_nonnan_linear", [S(k), Sx(m)])]
                add("fill_cdf.min_nonnan", (lambda m=m, k=k, conv=conv: cdf.fill_cdf(fc, "x", fresh(m), conv(k))),
                    {"method": m, "value": S(k), "container": lab}, guards=g,
                    spec_guards=[("fill_cdf_method", [Sx(m)]), ("fill_cdf_min_nonnan", [S(k), Sx(m)])], theorem="fill_cdf_min_nonnan_iff")
                add("add_thresholds.min_nonnan",
                    (lambda m=m, k=k, conv=conv: cdf.add_thresholds(fc, "x", [0.5, 2.5], fresh(m), min_nonnan=conv(k))),
                    {"method": m, "value": S(k), "container": lab}, guards=g,
                    spec_guards=[("add_thresholds_fill_method", [Sx(m)]), ("fill_cdf_min_nonnan", [S(k), Sx(m)])],
                    theorem="fill_cdf_min_nonnan_iff")
    for k in [-1, 0, 1, 2, 3]:   # no filling: min_nonnan is not used
        add("add_thresholds.min_nonnan", (lambda k=k: cdf.add_thresholds(fc, "x", [0.5, 2.5], fresh("none"), min_nonnan=k)),
            {"method": "none", "value": S(k), "container": "py-int"}, spec_guards=[("add_thresholds_fill_method", [Sx("none")])])
    for m in methods + ["Linear", "", "none", "nearest", "steps"]:
        add("fill_cdf.method", (lambda m=m: cdf.fill_cdf(fc, "x", fresh(m), 2)), {"value": m, "container": "str"},
            guards=[("fill_cdf_method", [Sx(m)])])
        if m != "none":
            add("add_thresholds.fill_method", (lambda m=m: cdf.add_thresholds(fc, "x", [0.5], fresh(m), min_nonnan=2)),
                {"value": m, "container": "str"}, guards=[("fill_cdf_method", [Sx(m)])],
                spec_guards=[("add_thresholds_fill_method", [Sx(m)])])
    # fill_cdf: CDF values outside [0, 1] in one element (cdf_values_within_bounds: a helper call, not translated)
    for pos in range(8):
        for p in probs + [float("nan")]:
            cv = np.array([[0.0, 0.3, 0.7, 1.0], [0.1, np.nan, 0.9, 1.0]])
            cv.flat[pos] = p
            cx = xr.DataArray(cv, dims=["a", "threshold"], coords={"threshold": thr})
            add("fill_cdf.cdf[values]", (lambda cx=cx: cdf.fill_cdf(cx, "threshold", "linear", 2)),
                {"pos": pos, "value": S(p), "container": "array"},
                spec_guards=[("cdf_values_range", [S(float(np.nanmax(cv))), S(float(np.nanmin(cv)))])])
    # decreasing_cdfs: tolerance (check_nan_decreasing_inputs) and threshold coordinates
    scalar("cdf_decreasing_tolerance", "nonneg", "decreasing_cdfs.tolerance", lambda v: cdf.decreasing_cdfs(cdf_f, "threshold", v))
    coord_lists = [[0.0, 1.0, 2.0, 3.0], [0.0, 1.0, 1.0, 3.0], [0.0, 2.0, 1.0, 3.0], [3.0, 2.0, 1.0, 0.0],
                   [0.0, 1.0, float(np.nextafter(1.0, 2.0)), 3.0]]
    for tc in coord_lists:
        cx = xr.DataArray([[0.0, 0.3, 0.7, 1.0], [0.1, 0.2, 0.9, 1.0]], dims=["a", "threshold"], coords={"threshold": tc})
        bad = not all(y > x for x, y in zip(tc[:-1], tc[1:]))
        d = {"coords": [S(x) for x in tc], "container": "coords"}
        add("decreasing_cdfs.threshold_coords", (lambda cx=cx: cdf.decreasing_cdfs(cx, "threshold", 0.0)), d, pyexpect=bad)
        add("crps_cdf_brier_decomposition.threshold_coords", (lambda cx=cx: sp.crps_cdf_brier_decomposition(cx, obs1)), d, pyexpect=bad)
        wx = xr.DataArray([1.0, 1.0, 0.5, 1.0], dims=["threshold"], coords={"threshold": tc})
        add("crps_cdf.threshold_weight_coords", (lambda wx=wx: sp.crps_cdf(cdf_f, obs1, threshold_weight=wx)), d, pyexpect=bad)
    # crps_cdf: enumerated options and the number of thresholds
    w_ok = xr.DataArray([1.0, 1.0, 0.5, 1.0], dims=["threshold"], coords={"threshold": thr})
    for m in methods + ["Linear", "", "none", "nearest"]:
        add("crps_cdf.fcst_fill_method", (lambda m=m: sp.crps_cdf(cdf_f, obs1, fcst_fill_method=fresh(m))),
            {"value": m, "container": "str"}, guards=[("crps_cdf_fcst_fill_method", [Sx(m)])])
        add("crps_cdf.threshold_weight_fill_method",
            (lambda m=m: sp.crps_cdf(cdf_f, obs1, threshold_weight=w_ok, threshold_weight_fill_method=fresh(m))),
            {"value": m, "weight": True, "container": "str"}, guards=[("crps_cdf_weight_fill_method", ["1", Sx(m)])])
        add("crps_cdf_brier_decomposition.fcst_fill_method",
            (lambda m=m: sp.crps_cdf_brier_decomposition(cdf_f, obs1, fcst_fill_method=fresh(m))),
            {"value": m, "container": "str"}, guards=[("crps_cdf_brier_fcst_fill_method", [Sx(m)])])
    for m in ["exact", "trapz", "Exact", "", "simpson"]:
        add("crps_cdf.integration_method", (lambda m=m: sp.crps_cdf(cdf_f, obs1, integration_method=fresh(m))),
            {"value": m, "container": "str"}, guards=[("crps_cdf_integration_method", [Sx(m)])])
    for n_thr in [1, 2, 3]:
        cx = xr.DataArray(np.array([[0.2, 0.6, 1.0], [0.1, 0.5, 0.9]])[:, :n_thr], dims=["a", "threshold"],
                          coords={"threshold": [0.0, 1.0, 2.0][:n_thr]})
        add("crps_cdf.fcst[threshold count]", (lambda cx=cx: sp.crps_cdf(cx, obs1)), {"value": S(n_thr), "container": "shape"},
            guards=[("crps_cdf_threshold_count", [S(n_thr)])])
    # ensemble CRPS: method / tail
    for m in ["ecdf", "fair", "ECDF", "", "unfair"]:
        g = [("crps_ensemble_method", [Sx(m)])]
        add("crps_for_ensemble.method", (lambda m=m: sp.crps_for_ensemble(ens, obs1, "member", method=fresh(m))),
            {"value": m, "container": "str"}, guards=g)
        add("tail_tw_crps_for_ensemble.method", (lambda m=m: sp.tail_tw_crps_for_ensemble(ens, obs1, "member", 1.0, method=fresh(m))),
            {"value": m, "container": "str"}, guards=g)
        add("interval_tw_crps_for_ensemble.method",
            (lambda m=m: sp.interval_tw_crps_for_ensemble(ens, obs1, "member", 0.0, 1.0, method=fresh(m))),
            {"value": m, "container": "str"}, guards=g)
    for m in ["upper", "lower", "Upper", "", "both"]:
        add("tail_tw_crps_for_ensemble.tail", (lambda m=m: sp.tail_tw_crps_for_ensemble(ens, obs1, "member", 1.0, tail=fresh(m))),
            {"value": m, "container": "str"}, guards=[("tail_tw_crps_tail", [Sx(m)])])
    # brier_score with a Dataset forecast: its own range guard
    for pos in range(4):
        for p in probs:
            pv = np.array([0.1, 0.5, 0.9, 0.3])
            pv[pos] = p
            ds = xr.Dataset({"u": pf, "v": xr.DataArray(pv, dims=["t"])})
            add("brier_score.fcst[Dataset]", (lambda ds=ds: sp.brier_score(ds, bo)), {"pos": pos, "value": S(p), "container": "dataset"},
                guards=[("brier_fcst_range_dataset", [S(float(max(pv.max(), 0.9))), S(float(min(pv.min(), 0.1)))])])
    # Diebold-Mariano options
    for m in ["HG", "HLN", "hg", "", "DM"]:
        add("diebold_mariano.method", (lambda m=m: diebold_mariano(dm_series([1, 2]), "lead", "h", method=fresh(m))),
            {"value": m, "container": "str"}, guards=[("dm_method", [Sx(m)])])
    for m in ["normal", "t", "T", "", "chi2"]:
        add("diebold_mariano.statistic_distribution",
            (lambda m=m: diebold_mariano(dm_series([1, 2]), "lead", "h", statistic_distribution=fresh(m))),
            {"value": m, "container": "str"}, guards=[("dm_statistic_distribution", [Sx(m)])])
    # risk matrix: threshold_assignment, non-binary observations, warning scaling matrix
    for m in ["upper", "lower", "Upper", "", "middle"]:
        add("risk_matrix_score.threshold_assignment",
            (lambda m=m: risk_matrix_score(rf, ro, dw([0.1, 0.5]), "sev", "pt", threshold_assignment=fresh(m))),
            {"value": m, "container": "str"}, guards=[("risk_threshold_assignment", [Sx(m)])])
    for pos in range(6):
        for v in [0.0, 1.0, float("nan"), 0.5, 2.0, -1.0, TINY, BELOW1]:
            ov = np.array([[1.0, 0.0, 0.0], [1.0, 1.0, 0.0]])
            ov.flat[pos] = v
            ox = xr.DataArray(ov, dims=["t", "sev"], coords={"sev": sev})
            add("risk_matrix_score.obs[binary]", (lambda ox=ox: risk_matrix_score(rf, ox, dw([0.1, 0.5]), "sev", "pt")),
                {"pos": pos, "value": S(v), "container": "array"}, pyexpect=not (math.isnan(v) or v in (0.0, 1.0)))
    mats = {"base": [[0, 2, 3, 3], [0, 1, 2, 3], [0, 1, 1, 2], [0, 0, 0, 0]],
            "flat": [[0, 1, 1, 1], [0, 1, 1, 1], [0, 1, 1, 1], [0, 0, 0, 0]],
            "negative entry": [[0, 2, 3, 3], [0, 1, 2, 3], [0, -1, 1, 2], [0, 0, 0, 0]],
            "row decreases": [[0, 2, 3, 3], [0, 2, 1, 3], [0, 1, 1, 2], [0, 0, 0, 0]],
            "column increases": [[0, 1, 3, 3], [0, 2, 2, 3], [0, 1, 1, 2], [0, 0, 0, 0]],
            "all zero": [[0, 0, 0, 0]] * 4}
    for lab, mat in mats.items():
        for aw in ([1, 2], [1, 2, 3], [1, 2, 3, 4]):
            mx = np.array(mat)
            g = [("risk_scaling_min", [S(int(mx.min()))]), ("risk_scaling_rows", [S(int(np.diff(mx, axis=1).min()))]),
                 ("risk_scaling_columns", [S(int(np.diff(mx, axis=0).max()))]),
                 ("risk_assessment_weights_count", [S(len(aw)), S(int(mx.max()))])]
            add("weights_from_warning_scaling.scaling_matrix",
                (lambda mx=mx, aw=aw: weights_from_warning_scaling(mx, aw, "sev", sev, "pt", [0.1, 0.3, 0.5])),
                {"matrix": lab, "n_weights": len(aw), "container": "matrix"}, guards=g)
    # FIRM: at least one category threshold
    for n_thr in [0, 1, 2]:
        add("firm.categorical_thresholds[count]",
            (lambda n_thr=n_thr: sca.firm(f, o, 0.5, [1.0, 2.0][:n_thr], [1.0, 1.0][:n_thr])),
            {"value": S(n_thr), "container": "list"}, guards=[("firm_threshold_count", [S(n_thr)])])
    # enumerated options whose guard the translator cannot take (module-level list, list with None, function objects,
    # `else: raise` at the end of an elif chain, dict of modes): probed against the documented list
    import operator
    for m in ["quantile", "huber", "expectile", "Quantile", "", "mean"]:
        bad = m not in ("quantile", "huber", "expectile")
        # murphy_score lower-cases `functional` on purpose before validating it (murphy_thetas does not): notes/C20.md
        add("murphy_score.functional", (lambda m=m: sc.murphy_score(f, o, [1.0, 2.0], functional=fresh(m), alpha=0.5, huber_a=1.0)),
            {"value": m, "container": "str"}, pyexpect=m.lower() not in ("quantile", "huber", "expectile"))
        add("murphy_thetas.functional", (lambda m=m: sc.murphy_thetas([f], o, fresh(m), huber_a=1.0)),
            {"value": m, "container": "str"}, pyexpect=bad)
    for m in ["mean", "quantile", None, "Mean", "", "median"]:
        add("isotonic_fit.functional",
            (lambda m=m: sc.isotonic_fit(iso_f, iso_o, functional=fresh(m), quantile_level=0.5, solver=(np.mean if m is None else None))),
            {"value": str(m), "container": "str"}, pyexpect=m not in ("mean", "quantile", None))
    for nm, op in [("ge", operator.ge), ("gt", operator.gt), ("le", operator.le), ("lt", operator.lt), ("eq", operator.eq),
                   ("ne", operator.ne), ("add", operator.add), ("np.greater", np.greater)]:
        add("brier_score_for_ensemble.event_threshold_operator",
            (lambda op=op: sp.brier_score_for_ensemble(ens, obs1, "member", 2.0, event_threshold_operator=op)),
            {"value": nm, "container": "operator"}, pyexpect=nm not in ("ge", "gt", "le", "lt"))
    for m in [">=", ">", "<=", "<", "==", "!=", "=>", "", "ge", "=", operator.ge, operator.gt, operator.le, operator.lt,
              operator.eq, operator.ne, operator.add, max]:
        ok = m in (">=", ">", "<=", "<", "==", "!=") if isinstance(m, str) else \
            any(m is x for x in (operator.ge, operator.gt, operator.le, operator.lt, operator.eq, operator.ne))
        d = {"value": m if isinstance(m, str) else "operator." + m.__name__, "container": "str" if isinstance(m, str) else "operator"}
        add("comparative_discretise.mode", (lambda m=m: spr.comparative_discretise(f, 1.0, fresh(m))), d, pyexpect=not ok)
        add("binary_discretise.mode", (lambda m=m: spr.binary_discretise(f, [1.0, 2.0], fresh(m))), d, pyexpect=not ok)
    import scores.utils as su
    dims_for = {"equal": ["a", "b"], "subset": ["a", "b", "c"], "superset": ["a"], "proper subset": ["a", "b", "c"],
                "proper superset": ["a"], "disjoint": ["c"], None: ["a", "b"], "Equal": ["a", "b"], "": ["a", "b"], "same": ["a", "b"],
                "strict subset": ["a", "b", "c"]}
    for m, dd in dims_for.items():
        add("check_dims.mode", (lambda m=m, dd=dd: su.check_dims(f, dd, mode=fresh(m))), {"value": str(m), "container": "str"},
            pyexpect=m in ("Equal", "", "same", "strict subset"))
    for nm, op in [("np.greater", np.greater), ("np.greater_equal", np.greater_equal), ("np.less", np.less),
                   ("np.less_equal", np.less_equal), ("None", None), ("np.equal", np.equal), ("operator.gt", operator.gt),
                   ("np.add", np.add)]:
        add("fss_2d_single_field.threshold_operator",
            (lambda op=op: fss_2d_single_field(fld_f, fld_o, event_threshold=0.5, window_size=(2, 2), threshold_operator=op)),
            {"value": nm, "container": "operator"}, pyexpect=nm in ("np.equal", "operator.gt", "np.add"))
    # ================================================================== guards on Dataset input with SEVERAL data variables
    # The value guards that accept an xr.Dataset (check_binary: brier_score obs, probability_of_detection /
    # probability_of_false_detection fcst and obs, also called directly; the [0, 1] range guard of brier_score's Dataset
    # branch; risk_matrix_score's fcst range and obs {0, 1} check, which go through to_array) must reject iff SOME non-NaN
    # element of SOME variable is outside the documented set, wherever that variable sits: 2 and 3 variables whose
    # insertion order is not the alphabetical one, the single offending element in the variable at every index (first,
    # middle, last), at a moving position, plainly / as the only non-NaN value of its variable / with every other
    # variable all-NaN / in a variable with fewer dimensions than the others (to_array broadcasts it), stored as float64,
    # float32 or int64.  Expected outcome from the exact values put in (never from the library).
    ds_names = ["zeta", "alpha", "mid"]
    bin_pat = [0.0, 1.0, 1.0, 0.0]
    prob_pat = [0.1, 0.5, 0.9, 0.3]

    def ds_build(n_vars, k, v, layout, pos, pat, dtype="float64"):
        """Dataset of n_vars variables (named ds_names, inserted in that order); variable k carries the value v at
        position pos; returns (dataset, all values put in)"""
        dvars, allv = {}, []
        for j in range(n_vars):
            two_d = layout == "mixed-dims" and j != k
            col = [pat[(i + j) % 4] for i in range(4)]
            if j == k:
                if layout == "among-nans":
                    col = [float("nan")] * 4
                col[pos] = v
            elif layout == "others-all-nan":
                col = [float("nan")] * 4
            arr = np.array(col, dtype=float)
            if j == k and dtype != "float64":
                arr = arr.astype(dtype)
            allv += col
            if two_d:
                arr = np.stack([arr, arr], axis=1)
                dvars["".join(list(ds_names[j]))] = xr.DataArray(arr, dims=["t", "x"])
            else:
                dvars["".join(list(ds_names[j]))] = xr.DataArray(arr, dims=["t"])
        return xr.Dataset(dvars), allv

    def ds_partner(ds_, pat):
        """an always-valid Dataset with the same variables, dimensions and order"""
        return xr.Dataset({n_: xr.DataArray(np.array([pat[i % 4] for i in range(ds_[n_].size)]).reshape(ds_[n_].shape),
                                            dims=ds_[n_].dims) for n_ in ds_.data_vars})

    def nonnan(vals):
        return [x for x in vals if not (isinstance(x, float) and math.isnan(x))]

    bin_values = [0.0, 1.0, float("nan"), 0.5, 2.0, -1.0, TINY, BELOW1]
    ds_cases = []   # (n_vars, k, layout, dtype, value)
    for n_vars in (2, 3):
        for k in range(n_vars):
            for layout in ("plain", "among-nans", "others-all-nan", "mixed-dims"):
                for v in bin_values:
                    ds_cases.append((n_vars, k, layout, "float64", v))
            for v in [0.0, 1.0, 0.5, 2.0, -1.0]:
                ds_cases.append((n_vars, k, "plain", "float32", v))
            for v in [0, 1, 2, -1, 7]:
                ds_cases.append((n_vars, k, "plain", "int64", v))
                ds_cases.append((n_vars, k, "mixed-dims", "int64", v))
    for idx, (n_vars, k, layout, dtype, v) in enumerate(ds_cases):
        pos = idx % 4
        dsb, allv = ds_build(n_vars, k, v, layout, pos, bin_pat, dtype)
        bad = any(x not in (0, 1) for x in nonnan(allv))
        good_b, good_p = ds_partner(dsb, bin_pat), ds_partner(dsb, prob_pat)
        d = {"n_vars": n_vars, "var_index": k, "var": ds_names[k], "layout": layout, "dtype": dtype, "pos": pos, "value": S(v),
             "container": "dataset[multi-var]"}
        add("check_binary.data[Dataset]", (lambda dsb=dsb: su.check_binary(dsb, "".join(["o", "bs"]))), d, pyexpect=bad)
        add("brier_score.obs[binary, Dataset]", (lambda dsb=dsb, good_p=good_p: sp.brier_score(good_p, dsb)), d, pyexpect=bad)
        add("probability_of_detection.obs[binary, Dataset]",
            (lambda dsb=dsb, good_b=good_b: sca.probability_of_detection(good_b, dsb)), d, pyexpect=bad)
        add("probability_of_detection.fcst[binary, Dataset]",
            (lambda dsb=dsb, good_b=good_b: sca.probability_of_detection(dsb, good_b)), d, pyexpect=bad)
        add("probability_of_false_detection.obs[binary, Dataset]",
            (lambda dsb=dsb, good_b=good_b: sca.probability_of_false_detection(good_b, dsb)), d, pyexpect=bad)
        add("probability_of_false_detection.fcst[binary, Dataset]",
            (lambda dsb=dsb, good_b=good_b: sca.probability_of_false_detection(dsb, good_b)), d, pyexpect=bad)
    # the [0, 1] range guard of brier_score's Dataset branch: the out-of-range probability in every variable
    idx = 0
    for n_vars in (2, 3):
        for k in range(n_vars):
            for layout in ("plain", "among-nans", "others-all-nan", "mixed-dims"):
                for p in probs:
                    idx += 1
                    dsp, allv = ds_build(n_vars, k, p, layout, idx % 4, prob_pat)
                    vals = nonnan(allv)
                    good_b = ds_partner(dsp, bin_pat)
                    add("brier_score.fcst[Dataset, multi-var]", (lambda dsp=dsp, good_b=good_b: sp.brier_score(dsp, good_b)),
                        {"n_vars": n_vars, "var_index": k, "var": ds_names[k], "layout": layout, "pos": idx % 4, "value": S(p),
                         "container": "dataset[multi-var]"},
                        guards=[("brier_fcst_range_dataset", [S(max(vals)), S(min(vals))])])
    # risk_matrix_score with Dataset fcst / obs (to_array): fcst range and obs {0, 1} in every variable
    rf_v = [[0.2, 0.6, 0.1], [0.9, 0.4, 0.0]]
    ro_v = [[1.0, 0.0, 0.0], [1.0, 1.0, 0.0]]

    def risk_ds(n_vars, k, v, pos, base, among_nans):
        dvars, allv = {}, []
        for j in range(n_vars):
            arr = np.array(base, dtype=float)
            if j == k:
                if among_nans:
                    arr[:] = np.nan
                arr.flat[pos] = v
            allv += [float(x) for x in arr.flat]
            dvars["".join(list(ds_names[j]))] = xr.DataArray(arr, dims=["t", "sev"], coords={"sev": sev})
        return xr.Dataset(dvars), allv

    idx = 0
    for n_vars in (2, 3):
        for k in range(n_vars):
            for among in (False, True):
                rf_ok, _ = risk_ds(n_vars, -1, 0.0, 0, rf_v, False)
                ro_ok, _ = risk_ds(n_vars, -1, 0.0, 0, ro_v, False)
                for p in probs:
                    idx += 1
                    dsf, allv = risk_ds(n_vars, k, p, idx % 6, rf_v, among)
                    vals = nonnan(allv)
                    add("risk_matrix_score.fcst[Dataset, multi-var]",
                        (lambda dsf=dsf, ro_ok=ro_ok: risk_matrix_score(dsf, ro_ok, dw([0.1, 0.5]), "sev", "pt")),
                        {"n_vars": n_vars, "var_index": k, "var": ds_names[k], "layout": "among-nans" if among else "plain",
                         "pos": idx % 6, "value": S(p), "container": "dataset[multi-var]"},
                        guards=[("risk_fcst_range", [S(max(vals)), S(min(vals))])])
                for v in bin_values:
                    idx += 1
                    dso, allv = risk_ds(n_vars, k, v, idx % 6, ro_v, among)
                    add("risk_matrix_score.obs[binary, Dataset]",
                        (lambda dso=dso, rf_ok=rf_ok: risk_matrix_score(rf_ok, dso, dw([0.1, 0.5]), "sev", "pt")),
                        {"n_vars": n_vars, "var_index": k, "var": ds_names[k], "layout": "among-nans" if among else "plain",
                         "pos": idx % 6, "value": S(v), "container": "dataset[multi-var]"},
                        pyexpect=any(x not in (0, 1) for x in nonnan(allv)))
    return sites


# ----------------------------------------------------------------------------- running probes
def outcome(call):
    import warnings
    try:
        with warnings.catch_warnings():
            warnings.simplefilter("ignore")
            with np.errstate(all="ignore"):
                r = call()
                if hasattr(r, "compute"):
                    r.compute()
        return "returns"
    except Exception as ex:  # noqa: BLE001
        c = core.exc_class(ex)
        return "rejects" if c in ("ValueError", "TypeError") else "fails:" + type(ex).__name__ + ":" + str(ex)[:120]


def has_special(args):
    return any(a in ("inf", "-inf", "nan") for a in args if a is not None)


def guards_of(s, spec):
    """the guards of a site: translated ones for the model; for the oracle the documented domains, which are keyed like
    the guards unless the site names them separately (`spec_guards`: several guards share ONE documented rule, or the
    guard is not translated at all)"""
    return s.get("spec_guards", s["guards"]) if spec else s["guards"]


def decide(sites, spec):
    """expected 'rejects' / 'returns' per site from the Lean guard table (model) or the documented domains (spec);
    None when the oracle has no opinion (infinite end points are decided by the model only)"""
    ops, spans = [], []
    for s in sites:
        mine = []
        for g, args in guards_of(s, spec):
            if spec and (g == "tw_trap_inf_rule" or has_special(args)):
                continue
            a = {"name": g, "args": [x for x in args if not isinstance(x, dict)]}
            strs = [x["str"] for x in args if isinstance(x, dict)]   # string parameters (enumerated options)
            if strs:
                a["strs"] = strs
            mine.append({"op": "c20.domain" if spec else "c20.guard", "args": a})
        spans.append((len(ops), len(ops) + len(mine)))
        ops += mine
    outs = run(ops, spec)
    res = []
    for s, (a, b) in zip(sites, spans):
        if "pyexpect" in s:
            res.append("rejects" if s["pyexpect"] else "returns")
            continue
        vals = outs[a:b]
        if any(isinstance(v, dict) and "no translated guard" in str(v.get("fail")) for v in vals):
            res.append(None)   # translator inapplicable for this guard on the current source: probing (oracle) only
            continue
        if any(isinstance(v, dict) for v in vals):
            raise RuntimeError(f"driver: {vals}")
        if spec:
            n_skipped = len(guards_of(s, True)) - (b - a)
            if any(v is False for v in vals):
                res.append("rejects")
            elif n_skipped and any(has_special(args) for _, args in guards_of(s, True)):
                res.append(None)
            else:
                res.append("returns")
        else:
            res.append("rejects" if any(v is True for v in vals) else "returns")
    return res


def run(ops, spec):
    if not ops:
        return []
    if not spec:
        return core.run_driver("C20", ops)
    try:
        return core.run_driver("C20S", ops)
    except RuntimeError:
        with core.BuildLock():
            core.lake_build(["ScoresVerif.Driver.Loop", "ScoresVerif.Driver.C20Spec"])
        return core.run_driver("C20S", ops)


_cache = {}


def probe_all():
    if "sites" not in _cache:
        sites = fixtures()
        for s in sites:
            s["observed"] = outcome(s["call"])
        _cache["sites"] = sites
    return _cache["sites"]


def case_of(s):
    c = {"site": s["site"], "guards": [[g, a] for g, a in s["guards"]], **s["desc"]}
    if "spec_guards" in s:
        c["documented"] = [[g, a] for g, a in s["spec_guards"]]
    return c


def compare(ctx, batch, kind, sites, expected):
    for s, exp in zip(sites, expected):
        c = case_of(s)
        ctx.case(batch, c, nontrivial=(s["observed"] == "returns"))
        ctx.tag(s["site"].split(".")[0])
        ctx.tag("container:" + str(s["desc"].get("container")))
        ctx.tag("observed:" + s["observed"].split(":")[0])
        if exp is None:
            ctx.tag("oracle-silent(infinite end point)" if kind == "property" else "model-silent(guard not translated)")
            continue
        if s["observed"] != exp and s.get("rounding"):
            ctx.tag("rounding-sensitive-skipped")   # decided purely by float rounding (guide: not a violation); see notes/C20.md
            continue
        if s["observed"] != exp:
            sig = "accepted-out-of-domain" if exp == "rejects" and s["observed"] == "returns" else \
                  "rejected-in-domain" if exp == "returns" and s["observed"] == "rejects" else "wrong-exception-class"
            ctx.fail(batch, kind, s["site"], sig, c, observed=s["observed"], expected=exp,
                     tags={"site": s["site"], "container": s["desc"].get("container")},
                     theorem=s.get("theorem") or ((s["guards"][0][0] + "_iff") if s["guards"] else None))


def correspondence(ctx):
    sites = probe_all()
    ctx.exhaustive.append(f"the whole probe grid ({len(sites)} calls of the real functions)")
    model_sites = [s for s in sites if s["guards"]]
    compare(ctx, "probe-vs-translated-guards", "correspondence", model_sites, decide(model_sites, spec=False))
    # every guard of the table must be exercised on both sides
    names = core.run_driver("C20", [{"op": "c20.names", "args": {}}])[0]
    used = {g for s in sites for g, _ in s["guards"]}
    missing = sorted(set(names) - used)
    if missing:
        ctx.notes.append(f"translated guards without a probe: {missing}")
    try:   # coverage audit of the guard sites of the current tree (information; a new guard site is not a violation)
        import c20_audit
        ctx.notes.append("guard-site audit: " + c20_audit.summary(c20_audit.audit()))
    except Exception as ex:  # noqa: BLE001
        ctx.notes.append(f"guard-site audit not available: {type(ex).__name__}: {ex}")
    excs = core.run_driver("C20", [{"op": "c20.exceptions", "args": {}}])[0]
    bad = {k: v for k, v in excs.items() if v not in ("ValueError", "DimensionError", "TypeError")}
    ctx.case("exception-classes", {"classes": sorted(set(excs.values()))})
    if bad:
        ctx.fail("exception-classes", "correspondence", "guards", "undocumented-exception-class", bad, observed=bad,
                 expected="ValueError | DimensionError | TypeError")


def oracle(ctx, boost):
    sites = probe_all()
    compare(ctx, "probe-vs-documented-domain", "property", sites, decide(sites, spec=True))
    # NaN parameters: outside the quantifier, recorded only
    import scores.continuous as sc
    f = xr.DataArray([1.0, 2.0], dims=["a"])
    rec = {"quantile_score(alpha=nan)": outcome(lambda: sc.quantile_score(f, f, float("nan"))),
           "quantile_interval_score(levels=(nan, 0.5))": outcome(lambda: sc.quantile_interval_score(f, f + 1, f, float("nan"), 0.5)),
           "interval_score(interval_range=nan)": outcome(lambda: sc.interval_score(f, f + 1, f, float("nan")))}
    ctx.notes.append(f"NaN-valued parameters (outside the property's quantifier, recorded only): {rec}")


def replay(ctx, payload):
    case = payload["case"]
    sites = probe_all()
    for s in sites:
        if core.canon(case_of(s)) == case:
            exp = decide([s], spec=True)[0]
            return exp is not None and s["observed"] != exp
    return True
