"""C10 — threshold-weighted scores are weighted integrals of elementary scores."""
from __future__ import annotations

import itertools
import json
import math
import os
from fractions import Fraction

import numpy as np
import xarray as xr

from sv import core

PROPERTY = "C10"
GEN = ["ThresholdWeighted"]
PROPS = ["ScoresVerif/Props/C10.lean", "ScoresVerif/Props/C10Bridge.lean", "ScoresVerif/Props/C10Model.lean"]
DRIVER_DEPS = ["ScoresVerif.Driver.C10", "ScoresVerif.Driver.C10Spec"]
AUDIT_FILES = ["ScoresVerif/Lemmas/Quad.lean", "ScoresVerif/Lemmas/Bridge.lean", "ScoresVerif/Lemmas/ThresholdWeighted.lean", "ScoresVerif/Lemmas/C10Model.lean", "ScoresVerif/Spec/Quad.lean",
               "ScoresVerif/Spec/ThresholdWeighted.lean", "ScoresVerif/Model/ThresholdWeighted.lean",
               "ScoresVerif/Driver/C10.lean", "ScoresVerif/Driver/C10Spec.lean"]
LEVEL = "proof"
TRUSTED = ["Spec.Quad.integral as the meaning of the integral: open 3-point Newton-Cotes (Milne) rule on every cell of the "
           "kink-complete grid — PROVED equal to Mathlib's Lebesgue interval integral for integrands that are cubic on "
           "each open cell (Lemmas/Bridge.lean, Props/C10Bridge.lean: tw_*_{rect,trap}_eq_lebesgue); no longer a trusted fact",
           "hand model of _auxiliary_funcs (validation, end-point replacement over the batch, xarray min/max skipna, "
           "Python builtin min/max) is tied by differential testing only",
           "the frame of the public functions (gather_dimensions, apply_weights, mean) is outside C10: scores are compared "
           "per forecast case with preserve_dims='all'"]
ASSUMPTIONS = ["forecasts / observations / end points are multiples of 1/2 or 1/4 of small magnitude (float + - * and comparisons "
               "exact); quotients by (b-a), (d-c), 3 compared to 1e-9", "NaN end points are not generated",
               "fcst and obs carry the same coordinates in the same stored order (F11 belongs to C04)",
               "float rounding is not modelled"]
MANIFEST = dict(
    level="proof",
    text="Kernel-checked Lean theorems about definitions regenerated on every run from threshold_weighted_impl.py (_g_j_rect, _phi_j_rect, "
         "_phi_j_prime_rect, _g_j_trap, _phi_j_trap, _phi_j_prime_trap, the 0.5 / 2 rescalings of the five tw_* wrappers) and "
         "consistent_impl.py (kernels of consistent_quantile/expectile/huber_score, parameter guards), for all rational forecasts, "
         "observations, end points, alpha and Huber parameters: g and phi/4 are the first and second antiderivative of the rectangular "
         "and of the trapezoidal weight on every cell (phi' = 4g); hence tw_quantile_score, tw_absolute_error, tw_expectile_score, "
         "tw_squared_error and tw_huber_loss equal the exact integral over [min(x,y), max(x,y)] of weight x Murphy elementary score "
         "(normalisations 1, 2, 2, 4, 2), for both shapes and for infinite end points replaced by any finite value beyond the data; "
         "weight 1 gives (x-y)^2, |x-y|, pinball, asymmetric squared and Huber loss; two half-lines, and a trapezoid with its two "
         "complementary ramps, give scores that sum to the unweighted score; consistent_* scores with non-decreasing g / convex phi "
         "with subgradient phi' are >= 0 and 0 at x = y, and the tw g / phi of both shapes satisfy these hypotheses. Tied to the "
         "code by the translator plus a differential check of the helpers, the consistent kernels and the whole tw_* pipeline "
         "(hand model of _auxiliary_funcs) and an independent oracle: Lean Spec integrals evaluated exhaustively on a 7-point lattice "
         "for x, y and all 114 admissible finite/infinite end-point choices, quadrature of the real murphy_score values, "
         "partition-of-unity / weight-one / non-negativity relations between implementation runs, scalar vs array vs mixed end points.",
    note="Trusted: Lean kernel; propext/Classical.choice/Quot.sound; py2lean translator; SV.Fl (IEEE minus rounding, overflow, signed "
         "zero); the integral is Spec.Quad.integral = open 3-point Newton-Cotes rule on each cell of the kink-complete grid (exact "
         "for piecewise cubics) and is proved equal to Mathlib's intervalIntegral of weight x elementary score (Props/C10Bridge.lean). Modelled and only compared (not proved): _auxiliary_funcs "
         "(validation, replacement of +-inf by min/max(data, other end) -+ 1 over the batch, array / mixed end points) - the "
         "theorems hold for ANY finite replacement beyond the two data points; that the replacement is beyond the data is "
         "proved for the hand model of the rectangular branch (endpoint_replacement_model_rect) and checked by the differential "
         "harness for both branches. Not modelled: gather_dimensions / apply_weights / mean (scores compared per case with "
         "preserve_dims='all'), NaN end points, coordinate alignment (C04), float rounding (inputs are dyadic, quotients to 1e-9). "
         "A `<` <-> `<=` flip at a kink where the pieces agree is recognised as harmless by the tie lemmas.",
    technique="Lean 4 theorems over translator-regenerated definitions (generic cell-wise antiderivative calculus) + differential "
              "correspondence + exhaustive lattice oracle against the Lean Spec",
    design="6/C10")
RULE = ("cases (x, y, weight shape, end points, alpha, huber parameter): exhaustive over a 7-point lattice for x, y and every "
        "increasing choice of finite / infinite end points from it (all 9 / 25 relative positions incl. equalities), then random "
        "dyadic batches with 50% of values copied from an end point or from the other operand, end points as scalars or as "
        "arrays over one or both dimensions; distinct = distinct (x, y, shape, end points, parameters); non-trivial = x, y not NaN "
        "and not in the malformed stream")

NAN = float("nan")
INF = float("inf")
FUNCS = ["tw_squared_error", "tw_absolute_error", "tw_quantile_score", "tw_expectile_score", "tw_huber_loss"]
THEOREM_OF = {"tw_squared_error": "tw_squared_error_rect_eq_integral", "tw_absolute_error": "tw_absolute_error_rect_eq_integral",
              "tw_quantile_score": "tw_quantile_rect_eq_integral", "tw_expectile_score": "tw_expectile_rect_eq_integral",
              "tw_huber_loss": "tw_huber_rect_eq_integral"}
LATTICE = [-1.0, -0.5, 0.0, 0.5, 1.0, 1.5, 2.0]
ALPHAS = [0.5, 0.25, 0.75, 0.3, 0.125, 0.9]
HUBERS = [0.5, 1.0, 0.25, 2.0, 3.5]


def S(x):
    return core.fl_str(x)


# ------------------------------------------------------------------------------------------------ configurations
# a configuration: {"shape": "rect"|"trap", "ends": [e...], "dims": [d...]}; ends[i] is a float (scalar end point) or a
# nested list (array end point) whose dimensions are dims[i] (subset of ("s","k")).  rect: ends = [a, b];
# trap: ends = [a, b, c, d] with interval_where_positive = (a, d), interval_where_one = (b, c).
def as_arg(e, dims):
    if isinstance(e, list):
        return xr.DataArray(np.array(e, dtype=float), dims=list(dims))
    return e


def tw_args(cfg):
    ends = [as_arg(e, d) for e, d in zip(cfg["ends"], cfg["dims"])]
    if cfg["shape"] == "rect":
        return (ends[0], ends[1]), None
    return (ends[1], ends[2]), (ends[0], ends[3])


def broadcast_ends(cfg, shape):
    """end points per forecast case: array (S, K, n_ends)"""
    Sn, Kn = shape
    cols = []
    for e, d in zip(cfg["ends"], cfg["dims"]):
        if isinstance(e, list):
            a = np.array(e, dtype=float)
            d = tuple(d)
            if d == ("s",):
                a = a[:, None]
            elif d == ("k",):
                a = a[None, :]
            elif d == ("k", "s"):
                a = a.T
            cols.append(np.broadcast_to(a, (Sn, Kn)))
        else:
            cols.append(np.full((Sn, Kn), float(e)))
    return np.stack(cols, axis=-1)


def da(arr):
    return xr.DataArray(np.array(arr, dtype=float), dims=["s", "k"])


def call_tw(name, fc, ob, cfg, alpha, huber, **kw):
    import scores.continuous as sc
    one, pos = tw_args(cfg)
    args = [fc, ob]
    if name in ("tw_quantile_score", "tw_expectile_score"):
        args.append(alpha)
    if name == "tw_huber_loss":
        args.append(huber)
    kw.setdefault("preserve_dims", "all")
    return getattr(sc, name)(*args, interval_where_one=one, interval_where_positive=pos, **kw)


def impl_all(fc, ob, cfg, alpha, huber, names=FUNCS):
    out = {}
    f, o = da(fc), da(ob)
    with np.errstate(all="ignore"):
        for n in names:
            try:
                r = call_tw(n, f, o, cfg, alpha, huber)
                out[n] = np.asarray(r.transpose("s", "k").values, dtype=float)
            except Exception as ex:  # noqa: BLE001
                out[n] = ex
    return out


def model_op(fc, ob, cfg, alpha, huber):
    fc = np.asarray(fc, dtype=float)
    ob = np.asarray(ob, dtype=float)
    e = broadcast_ends(cfg, fc.shape)
    return {"op": "c10.model", "args": {
        "shape": cfg["shape"], "fcst": [S(v) for v in fc.ravel()], "obs": [S(v) for v in ob.ravel()],
        "ends": [[S(v) for v in row] for row in e.reshape(-1, e.shape[-1])], "alpha": S(alpha), "huber": S(huber)}}


def spec_ops(fc, ob, cfg, alpha, huber):
    """one c10.spec op per forecast case with finite x, y (None otherwise)"""
    fc = np.asarray(fc, dtype=float)
    ob = np.asarray(ob, dtype=float)
    e = broadcast_ends(cfg, fc.shape).reshape(-1, len(cfg["ends"]))
    ops = []
    for i, (x, y) in enumerate(zip(fc.ravel(), ob.ravel())):
        if math.isnan(x) or math.isnan(y):
            ops.append(None)
            continue
        ops.append({"op": "c10.spec", "args": {"shape": cfg["shape"], "ends": [S(v) for v in e[i]], "x": S(x), "y": S(y),
                                               "alpha": S(alpha), "huber": S(huber)}})
    return ops


# ------------------------------------------------------------------------------------------------ generators
def lattice_configs(shape):
    """every admissible choice of scalar end points from the lattice, finite or infinite"""
    out = []
    L = LATTICE
    if shape == "rect":
        for a, b in itertools.combinations(L, 2):
            out.append([a, b])
        for b in L:
            out.append([-INF, b])
        for a in L:
            out.append([a, INF])
        out.append([-INF, INF])
    else:
        for q in itertools.combinations(L, 4):
            out.append(list(q))
        for c, d in itertools.combinations(L, 2):
            out.append([-INF, -INF, c, d])
        for a, b in itertools.combinations(L, 2):
            out.append([a, b, INF, INF])
        out.append([-INF, -INF, INF, INF])
    return [{"shape": shape, "ends": e, "dims": [()] * len(e)} for e in out]


def lattice_points():
    xs = [[x for x in LATTICE for _ in LATTICE]]
    ys = [[y for _ in LATTICE for y in LATTICE]]
    return np.array(xs, dtype=float), np.array(ys, dtype=float)


def draw_sorted(rng, n, lo=-8, hi=12, den=2):
    vals = set()
    while len(vals) < n:
        vals.add(rng.randint(lo, hi) / den)
    return sorted(vals)


def gen_scalar_ends(rng, shape):
    if shape == "rect":
        a, b = draw_sorted(rng, 2)
        r = rng.random()
        if r < 0.2:
            a = -INF
        elif r < 0.4:
            b = INF
        elif r < 0.5:
            a, b = -INF, INF
        return [a, b]
    a, b, c, d = draw_sorted(rng, 4)
    r = rng.random()
    if r < 0.2:
        a = b = -INF
    elif r < 0.4:
        c = d = INF
    elif r < 0.5:
        a = b = -INF
        c = d = INF
    return [a, b, c, d]


def gen_cfg(rng, shape, Sn, Kn):
    """end points as scalars (45%), all as arrays over s, k or both (25%, per entry an admissible tuple, possibly
    infinite), or any mixture of scalar and array end points (30%; F16 regression)"""
    n = 2 if shape == "rect" else 4
    r = rng.random()
    if r < 0.45:
        return {"shape": shape, "ends": gen_scalar_ends(rng, shape), "dims": [()] * n}
    dims = rng.choice([("s",), ("k",), ("s", "k")])
    shp = tuple({"s": Sn, "k": Kn}[d] for d in dims)
    cnt = int(np.prod(shp))
    arr = lambda vals: np.array(vals, dtype=float).reshape(shp).tolist()
    if r < 0.70:
        rows = [gen_scalar_ends(rng, shape) for _ in range(cnt)]
        return {"shape": shape, "ends": [arr([rw[i] for rw in rows]) for i in range(n)], "dims": [dims] * n}
    # mixed: a base tuple with gaps >= 2, array columns perturbed by 0 / +-1/2 (order preserved), infinite values kept
    base = [2.0 * v for v in draw_sorted(rng, n, lo=-3, hi=5, den=1)]
    q = rng.random()
    if shape == "rect":
        if q < 0.25:
            base[0] = -INF
        elif q < 0.5:
            base[1] = INF
    else:
        if q < 0.2:
            base[0] = base[1] = -INF
        elif q < 0.4:
            base[2] = base[3] = INF
    k = rng.randint(1, n - 1)
    arr_cols = set(rng.sample(range(n), k))
    ends, ds = [], []
    for i in range(n):
        if i in arr_cols:
            ends.append(arr([base[i] + (rng.choice([0.0, 0.5, -0.5]) if math.isfinite(base[i]) else 0.0) for _ in range(cnt)]))
            ds.append(dims)
        else:
            ends.append(base[i]); ds.append(())
    return {"shape": shape, "ends": ends, "dims": ds}


def gen_beyond(rng, shape, Sn, Kn):
    """an infinite end point on one side and every finite end point on the OTHER side of all the data, so that the
    `other end` term of min/max(data, other end) -+ 1 decides the replacement (the weight vanishes on the data range)"""
    n = 2 if shape == "rect" else 4
    left_inf = rng.random() < 0.5
    off = lambda: rng.choice([0.0, 0.25, 0.5, 1.0, 2.0])
    if shape == "rect":
        e = rng.randint(-6, 6) / 2
        ends = [-INF, e] if left_inf else [e, INF]
        lo_data = e if left_inf else None
        hi_data = None if left_inf else e
    else:
        # the ramp is wider than 1 and every data point lies at least 1 inside it, counted from the flat side:
        # then ONLY the `other end` term keeps the replaced end point on the correct side of the ramp
        e = rng.randint(-6, 6) / 2
        wdt = rng.choice([1.5, 2.0, 3.0, 4.0])
        ends = [-INF, -INF, e, e + wdt] if left_inf else [e - wdt, e, INF, INF]
        lo_data = e + 1 if left_inf else None
        hi_data = None if left_inf else e - 1
    if left_inf:
        fc = np.array([[lo_data + off() for _ in range(Kn)] for _ in range(Sn)])
        ob = np.array([[lo_data + off() for _ in range(Kn)] for _ in range(Sn)])
    else:
        fc = np.array([[hi_data - off() for _ in range(Kn)] for _ in range(Sn)])
        ob = np.array([[hi_data - off() for _ in range(Kn)] for _ in range(Sn)])
    dims = [()] * n
    if rng.random() < 0.4:       # the same end points as arrays over s
        ends = [[e] * Sn for e in ends]
        dims = [("s",)] * n
    return {"shape": shape, "ends": ends, "dims": dims}, fc, ob


def gen_malformed(rng, shape):
    """end points that `_auxiliary_funcs` must reject with ValueError"""
    if shape == "rect":
        a, b = draw_sorted(rng, 2)
        return rng.choice([[b, a], [a, a], [INF, INF], [-INF, -INF], [a, -INF], [INF, b]])
    a, b, c, d = draw_sorted(rng, 4)
    return rng.choice([[a, c, b, d], [a, b, b, d], [b, a, c, d], [a, a, c, d], [a, b, d, c], [a, b, c, c],
                       [-INF, b, c, d], [a, b, c, INF], [a, -INF, c, d], [a, b, INF, d], [-INF, -INF, c, c]])


def finite_ends(cfg):
    out = []
    for e in cfg["ends"]:
        for v in (np.array(e, dtype=float).ravel() if isinstance(e, list) else [e]):
            if math.isfinite(v):
                out.append(float(v))
    return out


def gen_data(rng, cfg, Sn, Kn, nan_p=0.08, extra=()):
    """forecasts / observations: 50% copied from an end point, the other operand, or end point +- huber"""
    pool = finite_ends(cfg) + list(extra)
    fc = np.zeros((Sn, Kn))
    ob = np.zeros((Sn, Kn))
    for i in range(Sn):
        for k in range(Kn):
            x = rng.choice(pool) if (pool and rng.random() < 0.4) else rng.randint(-10, 14) / 2
            r = rng.random()
            if r < 0.15:
                y = x
            elif r < 0.5 and pool:
                y = rng.choice(pool)
            else:
                y = rng.randint(-10, 14) / 2
            if rng.random() < nan_p:
                x = NAN
            if rng.random() < nan_p:
                y = NAN
            fc[i, k], ob[i, k] = x, y
    return fc, ob


def desc_case(cfg, e_row, x, y, alpha, huber):
    return {"shape": cfg["shape"], "ends": [S(v) for v in e_row], "x": S(x), "y": S(y), "alpha": S(alpha), "huber": S(huber)}


def position_tag(e_row, x, y):
    """relative position of (x, y) to the finite end points: '<', '=' or '>' counts"""
    fin = [v for v in e_row if math.isfinite(v)]
    on = sum(1 for v in fin if v == x) + sum(1 for v in fin if v == y)
    return "on-endpoint" if on else ("tie" if x == y else "off-endpoint")


# ------------------------------------------------------------------------------------------------ comparison
def compare_batch(ctx, batch, kind, cfg, fc, ob, alpha, huber, impl, expected, forms_tag="scalar", malformed=False):
    """expected: either {"err": ...} for the whole batch, or per function a list of protocol strings / {"err":...};
    entries may be None (no expectation, e.g. NaN input handled by the model only)"""
    fc = np.asarray(fc, dtype=float)
    ob = np.asarray(ob, dtype=float)
    e = broadcast_ends(cfg, fc.shape).reshape(-1, len(cfg["ends"]))
    xs, ys = fc.ravel(), ob.ravel()
    whole_err = isinstance(expected, dict) and "err" in expected
    for i in range(len(xs)):
        ctx.case(batch, desc_case(cfg, e[i], xs[i], ys[i], alpha, huber),
                 nontrivial=not (malformed or math.isnan(xs[i]) or math.isnan(ys[i])))
        ctx.tag(cfg["shape"] + ":" + position_tag(e[i], xs[i], ys[i]))
    ctx.tag("ends:" + forms_tag)
    if any(not math.isfinite(v) for v in e.ravel()):
        ctx.tag("infinite-end-point")
    for n in FUNCS:
        got = impl[n]
        exp = expected if whole_err else expected.get(n)
        if exp is None:
            continue
        if isinstance(exp, dict) and "err" in exp:
            if isinstance(got, Exception) and core.exc_class(got) == exp["err"]:
                continue
            ctx.fail(batch, kind, n, "missing-" + exp["err"], {"cfg": cfg, "fcst": fc.tolist(), "obs": ob.tolist(),
                                                              "alpha": alpha, "huber": huber},
                     observed=core.exc_class(got) if isinstance(got, Exception) else "a value", expected=exp["err"],
                     tags={"function": n, "shape": cfg["shape"], "ends": forms_tag})
            continue
        if isinstance(got, Exception):
            ctx.fail(batch, kind, n, "exception:" + type(got).__name__,
                     {"cfg": cfg, "fcst": fc.tolist(), "obs": ob.tolist(), "alpha": alpha, "huber": huber},
                     observed=f"{type(got).__name__}: {got}"[:200], expected="values",
                     tags={"function": n, "shape": cfg["shape"], "ends": forms_tag})
            continue
        g = got.ravel()
        for i in range(len(xs)):
            if exp[i] is None:
                continue
            if not core.close(g[i], exp[i]):
                ctx.fail(batch, kind, n, "value", dict(desc_case(cfg, e[i], xs[i], ys[i], alpha, huber), function=n,
                                                       ends_given_as=forms_tag),
                         observed=float(g[i]), expected=exp[i],
                         tags={"function": n, "shape": cfg["shape"], "ends": forms_tag,
                               "position": position_tag(e[i], xs[i], ys[i])},
                         theorem=THEOREM_OF.get(n, "").replace("rect", cfg["shape"]))
                break


def forms_of(cfg):
    return "scalar" if all(not isinstance(e, list) for e in cfg["ends"]) else \
        ("array" if all(isinstance(e, list) for e in cfg["ends"]) else "mixed")


# ------------------------------------------------------------------------------------------------ tie X
G_MENU = {"id": lambda x: x, "cube": lambda x: x ** 3, "step": lambda x: (x >= 0).where(x.notnull()) * 1.0}
PHI_MENU = {"sq": (lambda x: x ** 2, lambda x: 2 * x), "quart": (lambda x: x ** 4, lambda x: 4 * x ** 3),
            "abs": (lambda x: abs(x), lambda x: np.sign(x))}


def menu_funcs():
    from scores.continuous import threshold_weighted_impl as twi
    import functools
    g = dict(G_MENU)
    g["rect"] = functools.partial(twi._g_j_rect, 0.0, 2.0)
    phi = dict(PHI_MENU)
    phi["rect"] = (functools.partial(twi._phi_j_rect, 0.0, 2.0), functools.partial(twi._phi_j_prime_rect, 0.0, 2.0))
    return g, phi


def corr_helpers(ctx, ops, todo):
    """the six translated auxiliary functions called directly"""
    from scores.continuous import threshold_weighted_impl as twi
    rng = ctx.rng
    for _ in range(ctx.n(40, 400)):
        shape = rng.choice(["rect", "trap"])
        ends = draw_sorted(rng, 2 if shape == "rect" else 4)
        xs = [rng.choice(ends) if rng.random() < 0.45 else rng.randint(-10, 14) / 2 for _ in range(6)] + [NAN]
        xa = xr.DataArray(np.array(xs), dims=["k"])
        with np.errstate(all="ignore"):
            if shape == "rect":
                got = {"g": twi._g_j_rect(*ends, xa), "phi": twi._phi_j_rect(*ends, xa), "phi_prime": twi._phi_j_prime_rect(*ends, xa)}
            else:
                got = {"g": twi._g_j_trap(*ends, xa), "phi": twi._phi_j_trap(*ends, xa), "phi_prime": twi._phi_j_prime_trap(*ends, xa)}
        for i, x in enumerate(xs):
            ops.append({"op": "c10.aux", "args": {"ends": [S(v) for v in ends], "x": S(x)}})
            todo.append(("aux", shape, ends, x, {k: float(v.values[i]) for k, v in got.items()}))


def corr_consistent(ctx, ops, todo):
    import scores.continuous as sc
    rng = ctx.rng
    gm, pm = menu_funcs()
    for _ in range(ctx.n(60, 600)):
        fn = rng.choice(["quantile", "expectile", "huber"])
        fam = rng.choice(list(gm if fn == "quantile" else pm))
        bad = rng.random() < 0.12
        if fn == "huber":
            p = rng.choice([0.0, -1.0, -0.5]) if bad else rng.choice(HUBERS)
        else:
            p = rng.choice([0.0, 1.0, -0.25, 1.5]) if bad else rng.choice(ALPHAS)
        n = rng.randint(1, 6)
        fc = [rng.randint(-8, 8) / 2 for _ in range(n)]
        ob = [fc[i] if rng.random() < 0.25 else (fc[i] + rng.choice([-1, 1]) * p if rng.random() < 0.2 else rng.randint(-8, 8) / 2)
              for i in range(n)]
        for arr in (fc, ob):
            for i in range(n):
                if rng.random() < 0.07:
                    arr[i] = NAN
        f, o = xr.DataArray(np.array(fc), dims=["k"]), xr.DataArray(np.array(ob), dims=["k"])
        try:
            with np.errstate(all="ignore"):
                if fn == "quantile":
                    r = sc.consistent_quantile_score(f, o, p, gm[fam], preserve_dims="all")
                elif fn == "expectile":
                    r = sc.consistent_expectile_score(f, o, p, pm[fam][0], pm[fam][1], preserve_dims="all")
                else:
                    r = sc.consistent_huber_score(f, o, p, pm[fam][0], pm[fam][1], preserve_dims="all")
            got = np.asarray(r.values, dtype=float).tolist()
        except Exception as ex:  # noqa: BLE001
            got = ex
        for i in range(n):
            ops.append({"op": "c10.cons", "args": {"fn": fn, "fam": fam, "fcst": S(fc[i]), "obs": S(ob[i]), "param": S(p)}})
            todo.append(("cons", fn, fam, (fc[i], ob[i], p), got if isinstance(got, Exception) else got[i], bad))


def pipeline_batches(ctx, n_batches, malformed_share=0.12):
    rng = ctx.rng
    out = []
    for _ in range(n_batches):
        shape = rng.choice(["rect", "trap"])
        Sn, Kn = rng.choice([(1, 1), (1, 4), (2, 3), (3, 2), (2, 1), (3, 3)])
        alpha = rng.choice(ALPHAS)
        huber = rng.choice(HUBERS)
        malformed = rng.random() < malformed_share
        if malformed:
            r = rng.random()
            if r < 0.6:
                e = gen_malformed(rng, shape)
                cfg = {"shape": shape, "ends": e, "dims": [()] * len(e)}
            elif r < 0.8:
                cfg = gen_cfg(rng, shape, Sn, Kn)
                alpha = rng.choice([0.0, 1.0, -0.5, 2.0])
            else:
                cfg = gen_cfg(rng, shape, Sn, Kn)
                huber = rng.choice([0.0, -1.0])
        else:
            cfg = gen_cfg(rng, shape, Sn, Kn)
        fc, ob = gen_data(rng, cfg, Sn, Kn, extra=[v + s * huber for v in finite_ends(cfg)[:2] for s in (-1, 1)])
        if not malformed and rng.random() < 0.15:
            cfg, fc, ob = gen_beyond(rng, shape, Sn, Kn)
        if rng.random() < 0.04:
            fc[:] = NAN
        out.append((cfg, fc, ob, alpha, huber, malformed))
    return out


def correspondence(ctx):
    ops, todo = [], []
    corr_helpers(ctx, ops, todo)
    corr_consistent(ctx, ops, todo)
    batches = pipeline_batches(ctx, ctx.n(60, 700))
    for cfg, fc, ob, alpha, huber, _ in batches:
        ops.append(model_op(fc, ob, cfg, alpha, huber))
    res = core.run_driver("C10", ops)
    k = 0
    for t in todo:
        r = res[k]; k += 1
        if t[0] == "aux":
            _, shape, ends, x, got = t
            ctx.case("aux-functions", {"shape": shape, "ends": ends, "x": S(x)}, nontrivial=not math.isnan(x))
            ctx.tag("aux:" + ("nan" if math.isnan(x) else ("on-endpoint" if x in ends else "off")))
            for key in ("g", "phi", "phi_prime"):
                if not core.close(got[key], r[key]):
                    ctx.fail("aux-functions", "correspondence", f"_{key}_j_{shape}", "value", {"shape": shape, "ends": ends, "x": S(x)},
                             observed=got[key], expected=r[key], tags={"function": key, "shape": shape})
        else:
            _, fn, fam, (f, o, p), got, bad = t
            ctx.case("consistent-kernels", {"fn": fn, "fam": fam, "fcst": S(f), "obs": S(o), "param": S(p)},
                     nontrivial=not (bad or math.isnan(f) or math.isnan(o)))
            ctx.tag("consistent:" + fn)
            if isinstance(r, dict) and "err" in r:
                if not (isinstance(got, Exception) and core.exc_class(got) == r["err"]):
                    ctx.fail("consistent-kernels", "correspondence", f"consistent_{fn}_score", "missing-" + r["err"],
                             {"fn": fn, "fam": fam, "param": p}, observed=repr(got)[:100], expected=r["err"], tags={"function": fn})
            elif isinstance(got, Exception):
                ctx.fail("consistent-kernels", "correspondence", f"consistent_{fn}_score", "exception:" + type(got).__name__,
                         {"fn": fn, "fam": fam, "fcst": f, "obs": o, "param": p}, observed=str(got)[:200], expected=r, tags={"function": fn})
            elif not core.close(got, r):
                ctx.fail("consistent-kernels", "correspondence", f"consistent_{fn}_score", "value",
                         {"fn": fn, "fam": fam, "fcst": S(f), "obs": S(o), "param": S(p)}, observed=got, expected=r,
                         tags={"function": fn, "fam": fam})
    for cfg, fc, ob, alpha, huber, malformed in batches:
        r = res[k]; k += 1
        impl = impl_all(fc, ob, cfg, alpha, huber)
        if malformed:
            ctx.tag("malformed-stream")
        compare_batch(ctx, "tw-pipeline-vs-model", "correspondence", cfg, fc, ob, alpha, huber, impl,
                      r if "err" in r else {n: r[n] for n in FUNCS}, forms_tag=forms_of(cfg), malformed=malformed)


# ------------------------------------------------------------------------------------------------ the property oracle
def spec_expected(ctx, cases):
    """cases: list of (cfg, fc, ob, alpha, huber) -> list of {fn: [str|None]} from the Lean Spec (integrals)"""
    ops, index = [], []
    for ci, (cfg, fc, ob, alpha, huber) in enumerate(cases):
        for pi, op in enumerate(spec_ops(fc, ob, cfg, alpha, huber)):
            if op is not None:
                ops.append(op)
                index.append((ci, pi))
    res = core.run_driver("C10spec", ops)
    out = [{n: [None] * np.asarray(c[1]).size for n in FUNCS} for c in cases]
    for (ci, pi), r in zip(index, res):
        for n in FUNCS:
            out[ci][n][pi] = r[n]
    return out


def oracle_integral(ctx, boost):
    """tw_* on the implementation = Lean Spec integral of weight x elementary score"""
    rng = ctx.rng
    cases = []
    lx, ly = lattice_points()
    full = ctx.thorough or boost
    lat_params = [(0.25, 0.5), (0.5, 1.0), (0.75, 0.25), (0.3, 1.5)] if ctx.thorough else [(0.25, 0.5), (0.75, 1.0)]
    n_scalar = 0
    for shape in ("rect", "trap"):
        cfgs = lattice_configs(shape)
        n = len(cfgs[0]["ends"])
        # (i) every lattice weight at once: end points as arrays over "s" (one row of the batch per weight)
        packed = {"shape": shape, "ends": [[c["ends"][i] for c in cfgs] for i in range(n)], "dims": [("s",)] * n}
        px = np.repeat(lx, len(cfgs), axis=0)
        py = np.repeat(ly, len(cfgs), axis=0)
        for (al, hu) in (lat_params if full else lat_params[:2]):
            cases.append((packed, px, py, al, hu))
        # (ii) the same weights given as scalars, one batch each (quick tier: a random dozen per shape)
        chosen = cfgs if full else rng.sample(cfgs, 6)
        for ci, cfg in enumerate(chosen):
            for (al, hu) in (lat_params if full else [lat_params[ci % 2]]):
                cases.append((cfg, lx, ly, al, hu))
                n_scalar += 1
    ctx.exhaustive.append(f"x, y over the 7-point lattice {LATTICE} x every admissible end-point choice from it incl. +-inf "
                          f"(36 rectangular, 78 trapezoidal weights) = 5586 (x, y, weight) triples, 5 scores each, end points as "
                          f"arrays; {n_scalar} of the (weight, parameter) batches also with scalar end points")
    for cfg, fc, ob, alpha, huber, malformed in pipeline_batches(ctx, ctx.n(40, 600) * (3 if boost else 1), malformed_share=0.0):
        mask = np.isnan(fc) | np.isnan(ob)
        fc = np.where(mask, 0.0, fc); ob = np.where(mask, 0.0, ob)   # NaN handling belongs to tie X / C02
        cases.append((cfg, fc, ob, alpha, huber))
    exp = spec_expected(ctx, cases)
    for (cfg, fc, ob, alpha, huber), e in zip(cases, exp):
        impl = impl_all(fc, ob, cfg, alpha, huber)
        compare_batch(ctx, "impl-vs-integral-spec", "property", cfg, fc, ob, alpha, huber, impl, e, forms_tag=forms_of(cfg))
    return cases


def milne_nodes(grid):
    nodes = []
    for p, q in zip(grid, grid[1:]):
        nodes += [p + (q - p) / 4, p + (q - p) / 2, p + 3 * (q - p) / 4]
    return nodes


def oracle_murphy(ctx, boost):
    """tw_* = quadrature of weight x the REAL murphy_score values (relation between implementation runs; weights and grid
    from the Lean Spec)"""
    from scores.continuous import murphy_score
    rng = ctx.rng
    norm = {"tw_squared_error": ("expectile", 4, 0.5), "tw_absolute_error": ("quantile", 2, 0.5), "tw_quantile_score": ("quantile", 1, None),
            "tw_expectile_score": ("expectile", 2, None), "tw_huber_loss": ("huber", 2, 0.5)}
    pts = []
    for _ in range(ctx.n(25, 300) * (3 if boost else 1)):
        shape = rng.choice(["rect", "trap"])
        e = gen_scalar_ends(rng, shape)
        cfg = {"shape": shape, "ends": e, "dims": [()] * len(e)}
        fc, ob = gen_data(rng, cfg, 1, 1, nan_p=0.0)
        pts.append((cfg, float(fc[0, 0]), float(ob[0, 0]), rng.choice(ALPHAS), rng.choice(HUBERS)))
    gops = []
    for cfg, x, y, alpha, huber in pts:
        base = {"shape": cfg["shape"], "ends": [S(v) for v in cfg["ends"]], "x": S(x), "y": S(y)}
        gops.append({"op": "c10.grid", "args": dict(base, extra=[])})
        gops.append({"op": "c10.grid", "args": dict(base, extra=[S(y - huber), S(y + huber)])})
    grids = core.run_driver("C10spec", gops)
    wops, nodes_all = [], []
    for i, (cfg, x, y, alpha, huber) in enumerate(pts):
        for gr in (grids[2 * i], grids[2 * i + 1]):
            nodes = milne_nodes([Fraction(s) for s in gr])
            nodes_all.append(nodes)
            wops.append({"op": "c10.weight", "args": {"shape": cfg["shape"], "ends": [S(v) for v in cfg["ends"]],
                                                      "thetas": [S(t) for t in nodes]}})
    weights = core.run_driver("C10spec", wops)
    for i, (cfg, x, y, alpha, huber) in enumerate(pts):
        impl = impl_all([[x]], [[y]], cfg, alpha, huber)
        fx, oy = xr.DataArray([x], dims=["k"]), xr.DataArray([y], dims=["k"])
        ctx.case("tw-vs-murphy-quadrature", desc_case(cfg, cfg["ends"], x, y, alpha, huber))
        for n in FUNCS:
            functional, factor, fixed_alpha = norm[n]
            al = fixed_alpha if fixed_alpha is not None else alpha
            which = 2 * i + (1 if functional == "huber" else 0)
            nodes = nodes_all[which]
            w = [Fraction(s) for s in weights[which]]
            gr = [Fraction(s) for s in grids[which]]
            if not nodes:
                continue
            ms = murphy_score(fx, oy, [float(t) for t in nodes], functional=functional, alpha=al,
                              huber_a=(huber if functional == "huber" else None), preserve_dims="all")["total"]
            mv = np.asarray(ms.transpose("theta", "k").values, dtype=float)[:, 0]
            tot = 0.0
            for c, (p, q) in enumerate(zip(gr, gr[1:])):
                f = [float(w[3 * c + j]) * mv[3 * c + j] for j in range(3)]
                tot += float(q - p) / 3 * (2 * f[0] - f[1] + 2 * f[2])
            got = impl[n]
            if isinstance(got, Exception):
                ctx.fail("tw-vs-murphy-quadrature", "property", n, "exception:" + type(got).__name__,
                         desc_case(cfg, cfg["ends"], x, y, alpha, huber), observed=str(got)[:200], expected=factor * tot,
                         tags={"function": n, "shape": cfg["shape"]})
            elif not core.close_ff(got[0, 0], factor * tot, rtol=1e-8, atol=1e-10):
                ctx.fail("tw-vs-murphy-quadrature", "property", n, "tw-differs-from-murphy-integral",
                         dict(desc_case(cfg, cfg["ends"], x, y, alpha, huber), function=n), observed=float(got[0, 0]),
                         expected=factor * tot, tags={"function": n, "shape": cfg["shape"]}, theorem=THEOREM_OF[n])


def unweighted_reference(fc, ob, alpha, huber):
    """the standard scores computed by the library itself where it has them (mse / mae / quantile_score)"""
    import scores.continuous as sc
    f, o = da(fc), da(ob)
    return {"tw_squared_error": sc.mse(f, o, preserve_dims="all").values, "tw_absolute_error": sc.mae(f, o, preserve_dims="all").values,
            "tw_quantile_score": sc.quantile_score(f, o, alpha, preserve_dims="all").values}


def oracle_relations(ctx, boost):
    """weight-one reduction, partition of unity, non-negativity / zero at x = y, scalar vs array end points"""
    rng = ctx.rng
    n = ctx.n(14, 120) * (2 if boost else 1)
    std_ops, std_cases = [], []
    for it in range(n):
        Sn, Kn = rng.choice([(2, 4), (3, 3), (4, 2)])
        names = FUNCS if (ctx.thorough or boost) else rng.sample(FUNCS, 2)
        alpha, huber = rng.choice(ALPHAS), rng.choice(HUBERS)
        a, b, c, d = draw_sorted(rng, 4)
        dummy = {"shape": "trap", "ends": [a, b, c, d], "dims": [()] * 4}
        fc, ob = gen_data(rng, dummy, Sn, Kn, nan_p=0.0, extra=[a + huber, d - huber])
        sc = lambda e: {"shape": "rect" if len(e) == 2 else "trap", "ends": e, "dims": [()] * len(e)}
        one = impl_all(fc, ob, sc([-INF, INF]), alpha, huber, names)
        one_t = impl_all(fc, ob, sc([-INF, -INF, INF, INF]), alpha, huber, names)
        # --- weight one = the standard scores (Spec closed forms + the library's own mse / mae / quantile_score)
        for x, y in zip(fc.ravel(), ob.ravel()):
            std_ops.append({"op": "c10.std", "args": {"x": S(x), "y": S(y), "alpha": S(alpha), "huber": S(huber)}})
        std_cases.append((fc, ob, alpha, huber, one, one_t, names))
        # --- partition of unity: two half-lines at b
        left = impl_all(fc, ob, sc([-INF, b]), alpha, huber, names)
        right = impl_all(fc, ob, sc([b, INF]), alpha, huber, names)
        # --- trapezoid + its two complementary ramps
        mid = impl_all(fc, ob, sc([a, b, c, d]), alpha, huber, names)
        lramp = impl_all(fc, ob, sc([-INF, -INF, a, b]), alpha, huber, names)
        rramp = impl_all(fc, ob, sc([c, d, INF, INF]), alpha, huber, names)
        # --- the same end points as arrays
        arr_cfg = {"shape": "trap", "ends": [np.full((Sn,), v).tolist() for v in (a, b, c, d)], "dims": [("s",)] * 4}
        mid_arr = impl_all(fc, ob, arr_cfg, alpha, huber, names)
        case = {"fcst": fc.tolist(), "obs": ob.tolist(), "a": a, "b": b, "c": c, "d": d, "alpha": alpha, "huber": huber}
        ctx.case("partition-of-unity", case)
        ctx.case("nonnegative-zero-at-equality", case)
        ctx.case("scalar-vs-array-end-points", case)
        for nme in names:
            vals = [one[nme], one_t[nme], left[nme], right[nme], mid[nme], lramp[nme], rramp[nme], mid_arr[nme]]
            bad = [v for v in vals if isinstance(v, Exception)]
            if bad:
                ctx.fail("partition-of-unity", "property", nme, "exception:" + type(bad[0]).__name__, case, observed=str(bad[0])[:200],
                         expected="values", tags={"function": nme})
                continue
            def allclose(u, v):
                return all(core.close_ff(p, q, rtol=1e-9, atol=1e-10) for p, q in zip(np.ravel(u), np.ravel(v)))
            if not allclose(left[nme] + right[nme], one[nme]):
                ctx.fail("partition-of-unity", "property", nme, "half-lines-do-not-sum-to-unweighted", dict(case, split=b),
                         observed=(left[nme] + right[nme]).tolist(), expected=one[nme].tolist(), tags={"function": nme, "partition": "half-lines"},
                         theorem="partition_half_lines")
            if not allclose(lramp[nme] + mid[nme] + rramp[nme], one[nme]):
                ctx.fail("partition-of-unity", "property", nme, "trapezoid-and-ramps-do-not-sum-to-unweighted", case,
                         observed=(lramp[nme] + mid[nme] + rramp[nme]).tolist(), expected=one[nme].tolist(),
                         tags={"function": nme, "partition": "trapezoid+ramps"}, theorem="partition_trapezoid_ramps")
            if not allclose(one[nme], one_t[nme]):
                ctx.fail("partition-of-unity", "property", nme, "weight-one-rect-vs-trap-differ", case, observed=one_t[nme].tolist(),
                         expected=one[nme].tolist(), tags={"function": nme})
            if not allclose(mid[nme], mid_arr[nme]):
                ctx.fail("scalar-vs-array-end-points", "property", nme, "array-end-points-differ-from-scalars", case,
                         observed=mid_arr[nme].tolist(), expected=mid[nme].tolist(), tags={"function": nme})
            for v, lab in ((left[nme], "left"), (right[nme], "right"), (mid[nme], "trap"), (lramp[nme], "lramp"), (rramp[nme], "rramp")):
                if np.any(np.ravel(v) < -1e-9):
                    ctx.fail("nonnegative-zero-at-equality", "property", nme, "negative-score", dict(case, weight=lab), observed=v.tolist(),
                             expected=">= 0", tags={"function": nme}, theorem="tw_nonneg_rect / tw_nonneg_trap")
                eq = np.ravel(fc == ob)
                if np.any(np.abs(np.ravel(v)[eq]) > 1e-9):
                    ctx.fail("nonnegative-zero-at-equality", "property", nme, "nonzero-at-fcst-equals-obs", dict(case, weight=lab),
                             observed=v.tolist(), expected="0 where fcst == obs", tags={"function": nme}, theorem="tw_nonneg_rect / tw_nonneg_trap (zero at x = y)")
    std = core.run_driver("C10spec", std_ops)
    k = 0
    for fc, ob, alpha, huber, one, one_t, names in std_cases:
        m = fc.size
        rows = std[k:k + m]; k += m
        ref = unweighted_reference(fc, ob, alpha, huber)
        ctx.case("weight-one-reduction", {"fcst": fc.tolist(), "obs": ob.tolist(), "alpha": alpha, "huber": huber})
        for nme in names:
            got = one[nme]
            if isinstance(got, Exception):
                continue   # reported above
            g = got.ravel()
            for i in range(m):
                okspec = core.close(g[i], rows[i][nme])
                oklib = nme not in ref or core.close_ff(g[i], np.ravel(ref[nme])[i])
                if not (okspec and oklib):
                    ctx.fail("weight-one-reduction", "property", nme, "weight-one-differs-from-standard-score",
                             {"x": S(fc.ravel()[i]), "y": S(ob.ravel()[i]), "alpha": S(alpha), "huber": S(huber), "function": nme,
                              "shape": "rect", "ends": ["-inf", "inf"]},
                             observed=float(g[i]), expected=rows[i][nme], tags={"function": nme}, theorem="weight_one_" + nme)
                    break


def oracle_consistent(ctx, boost):
    """consistent_* with convex phi (phi' a subgradient) / non-decreasing g: >= 0 and 0 at fcst == obs"""
    import scores.continuous as sc
    rng = ctx.rng
    gm, pm = menu_funcs()
    for _ in range(ctx.n(60, 600) * (3 if boost else 1)):
        fn = rng.choice(["quantile", "expectile", "huber"])
        fam = rng.choice(list(gm if fn == "quantile" else pm))
        p = rng.choice(HUBERS) if fn == "huber" else rng.choice(ALPHAS)
        n = rng.randint(2, 6)
        fc = [rng.randint(-8, 8) / 2 for _ in range(n)]
        ob = [fc[i] if rng.random() < 0.3 else rng.randint(-8, 8) / 2 for i in range(n)]
        f, o = xr.DataArray(np.array(fc), dims=["k"]), xr.DataArray(np.array(ob), dims=["k"])
        case = {"fn": fn, "fam": fam, "fcst": fc, "obs": ob, "param": p}
        ctx.case("consistent-nonnegative", case)
        try:
            if fn == "quantile":
                r = sc.consistent_quantile_score(f, o, p, gm[fam], preserve_dims="all")
            elif fn == "expectile":
                r = sc.consistent_expectile_score(f, o, p, pm[fam][0], pm[fam][1], preserve_dims="all")
            else:
                r = sc.consistent_huber_score(f, o, p, pm[fam][0], pm[fam][1], preserve_dims="all")
            v = np.asarray(r.values, dtype=float)
        except Exception as ex:  # noqa: BLE001
            ctx.fail("consistent-nonnegative", "property", f"consistent_{fn}_score", "exception:" + type(ex).__name__, case,
                     observed=str(ex)[:200], expected="values", tags={"function": fn})
            continue
        eq = np.array(fc) == np.array(ob)
        if np.any(v < -1e-9) or np.any(np.abs(v[eq]) > 1e-9):
            ctx.fail("consistent-nonnegative", "property", f"consistent_{fn}_score",
                     "negative-score" if np.any(v < -1e-9) else "nonzero-at-fcst-equals-obs", case, observed=v.tolist(),
                     expected=">= 0, and 0 where fcst == obs", tags={"function": fn, "fam": fam}, theorem=f"consistent_{fn}_nonneg")


def oracle_mixed(ctx):
    """tuples mixing array and scalar end points give the value of the broadcast scalar (F16, fixed in 59f483d: regression)"""
    rng = ctx.rng
    for _ in range(ctx.n(12, 80)):
        Sn, Kn = 2, 3
        shape = rng.choice(["rect", "rect", "trap"])
        n = 2 if shape == "rect" else 4
        e = gen_scalar_ends(rng, shape)
        ref = {"shape": shape, "ends": e, "dims": [()] * n}
        k = rng.randint(1, n - 1)
        cols = set(rng.sample(range(n), k))
        mixed = {"shape": shape, "ends": [[e[i]] * Sn if i in cols else e[i] for i in range(n)],
                 "dims": [("s",) if i in cols else () for i in range(n)]}
        fc, ob = gen_data(rng, ref, Sn, Kn, nan_p=0.0)
        alpha, huber = rng.choice(ALPHAS), rng.choice(HUBERS)
        got, exp = impl_all(fc, ob, mixed, alpha, huber), impl_all(fc, ob, ref, alpha, huber)
        form = "".join("A" if i in cols else "s" for i in range(n))
        case = {"fcst": fc.tolist(), "obs": ob.tolist(), "cfg": mixed, "alpha": alpha, "huber": huber}
        ctx.case("mixed-endpoint-forms", case)
        ctx.tag("mixed-forms:" + form)
        for nme in FUNCS:
            if isinstance(got[nme], Exception):
                ctx.fail("mixed-endpoint-forms", "property", "_auxiliary_funcs", "exception:" + type(got[nme]).__name__, case,
                         observed=str(got[nme])[:200], expected="the value for the broadcast scalar",
                         tags={"endpoint_forms": form, "function": nme})
                break
            if not isinstance(exp[nme], Exception) and not np.allclose(got[nme], exp[nme], rtol=1e-9, atol=1e-12):
                ctx.fail("mixed-endpoint-forms", "property", nme, "mixed-forms-differ", case, observed=got[nme].tolist(),
                         expected=exp[nme].tolist(), tags={"function": nme, "endpoint_forms": form})


def oracle(ctx, boost):
    oracle_integral(ctx, boost)
    oracle_murphy(ctx, boost)
    oracle_relations(ctx, boost)
    oracle_consistent(ctx, boost)
    oracle_mixed(ctx)


# ------------------------------------------------------------------------------------------------ replay
def replay(ctx, payload):
    case = payload.get("case") or {}
    sig = payload.get("signature", "")
    ctx2 = core.Ctx("C10", "quick", 0)
    if "x" in case and "ends" in case and "shape" in case:
        ends = [float(core.parse_fl(s)) for s in case["ends"]]
        cfg = {"shape": case["shape"], "ends": ends, "dims": [()] * len(ends)}
        x, y = float(Fraction(case["x"])), float(Fraction(case["y"]))
        alpha, huber = float(Fraction(case["alpha"])), float(Fraction(case["huber"]))
        fc, ob = [[x]], [[y]]
        impl = impl_all(fc, ob, cfg, alpha, huber)
        if sig == "weight-one-differs-from-standard-score":
            r = core.run_driver("C10spec", [{"op": "c10.std", "args": {"x": S(x), "y": S(y), "alpha": S(alpha), "huber": S(huber)}}])[0]
            exp = {n: [r[n]] for n in FUNCS}
        else:
            exp = spec_expected(ctx2, [(cfg, np.array(fc), np.array(ob), alpha, huber)])[0]
        compare_batch(ctx2, "replay", "property", cfg, fc, ob, alpha, huber, impl, exp)
        site = payload.get("site")
        return any(f["site"] == site for f in ctx2.failures) if site in FUNCS else bool(ctx2.failures)
    if "cfg" in case and "fcst" in case:
        cfg = case["cfg"]
        cfg["dims"] = [tuple(d) for d in cfg["dims"]]
        cfg["ends"] = [e if isinstance(e, list) else float(core.parse_fl(e) if isinstance(e, str) else e) for e in cfg["ends"]]
        fc, ob = np.array(case["fcst"], dtype=float), np.array(case["obs"], dtype=float)
        alpha, huber = float(case["alpha"]), float(case["huber"])
        impl = impl_all(fc, ob, cfg, alpha, huber)
        if sig.startswith("exception:"):
            return any(isinstance(v, Exception) for v in impl.values())
        if sig.startswith("missing-"):
            return not all(isinstance(v, Exception) for v in impl.values())
        mask = np.isnan(fc) | np.isnan(ob)
        exp = spec_expected(ctx2, [(cfg, np.where(mask, 0.0, fc), np.where(mask, 0.0, ob), alpha, huber)])[0]
        compare_batch(ctx2, "replay", "property", cfg, np.where(mask, 0.0, fc), np.where(mask, 0.0, ob), alpha, huber,
                      impl_all(np.where(mask, 0.0, fc), np.where(mask, 0.0, ob), cfg, alpha, huber), exp)
        return bool(ctx2.failures)
    if "a" in case and "fcst" in case:      # relation batches: rerun the relations on this one batch
        fc, ob = np.array(case["fcst"], dtype=float), np.array(case["obs"], dtype=float)
        a, b, c, d = (float(case[k]) for k in "abcd")
        alpha, huber = float(case["alpha"]), float(case["huber"])
        sc = lambda e: {"shape": "rect" if len(e) == 2 else "trap", "ends": e, "dims": [()] * len(e)}
        one = impl_all(fc, ob, sc([-INF, INF]), alpha, huber)
        parts = {"half": [impl_all(fc, ob, sc([-INF, b]), alpha, huber), impl_all(fc, ob, sc([b, INF]), alpha, huber)],
                 "trap": [impl_all(fc, ob, sc([-INF, -INF, a, b]), alpha, huber), impl_all(fc, ob, sc([a, b, c, d]), alpha, huber),
                          impl_all(fc, ob, sc([c, d, INF, INF]), alpha, huber)]}
        for nme in FUNCS:
            for ps in parts.values():
                vs = [p[nme] for p in ps] + [one[nme]]
                if any(isinstance(v, Exception) for v in vs):
                    return True
                if not np.allclose(sum(vs[:-1]), vs[-1], rtol=1e-9, atol=1e-10):
                    return True
                for v in vs[:-1]:
                    if np.any(v < -1e-9) or np.any(np.abs(v[fc == ob]) > 1e-9):
                        return True
        return False
    if "fn" in case and "fam" in case:
        import scores.continuous as scc
        gm, pm = menu_funcs()
        f, o = xr.DataArray(np.array(case["fcst"], dtype=float), dims=["k"]), xr.DataArray(np.array(case["obs"], dtype=float), dims=["k"])
        fn, fam, p = case["fn"], case["fam"], float(case["param"])
        try:
            if fn == "quantile":
                r = scc.consistent_quantile_score(f, o, p, gm[fam], preserve_dims="all")
            elif fn == "expectile":
                r = scc.consistent_expectile_score(f, o, p, pm[fam][0], pm[fam][1], preserve_dims="all")
            else:
                r = scc.consistent_huber_score(f, o, p, pm[fam][0], pm[fam][1], preserve_dims="all")
        except Exception:  # noqa: BLE001
            return True
        v = np.asarray(r.values, dtype=float)
        return bool(np.any(v < -1e-9) or np.any(np.abs(v[f.values == o.values]) > 1e-9))
    return True
