"""C10 — threshold-weighted scores are weighted integrals of elementary scores."""
from __future__ import annotations

import itertools
import json
import math
import os
from fractions import Fraction

import numpy as np
import xarray as xr

from sv import core

PROPERTY = "C10"
GEN = ["ThresholdWeighted"]
PROPS = ["ScoresVerif/Props/C10.lean", "ScoresVerif/Props/C10Bridge.lean", "ScoresVerif/Props/C10Model.lean"]
DRIVER_DEPS = ["ScoresVerif.Driver.C10", "ScoresVerif.Driver.C10Spec"]
AUDIT_FILES = ["ScoresVerif/Lemmas/Quad.lean", "ScoresVerif/Lemmas/Bridge.lean", "ScoresVerif/Lemmas/ThresholdWeighted.lean", "ScoresVerif/Lemmas/C10Model.lean", "ScoresVerif/Spec/Quad.lean",
               "ScoresVerif/Spec/ThresholdWeighted.lean", "ScoresVerif/Model/ThresholdWeighted.lean",
               "ScoresVerif/Driver/C10.lean", "ScoresVerif/Driver/C10Spec.lean"]
LEVEL = "proof"
TRUSTED = ["Spec.Quad.integral as the meaning of the integral: open 3-point Newton-Cotes (Milne) rule on every cell of the "
           "kink-complete grid — PROVED equal to Mathlib's Lebesgue interval integral for integrands that are cubic on "
           "each open cell (Lemmas/Bridge.lean, Props/C10Bridge.lean: tw_*_{rect,trap}_eq_lebesgue); no longer a trusted fact",
           "hand model of _auxiliary_funcs (validation, end-point replacement over the batch, xarray min/max skipna, "
           "Python builtin min/max) is tied by differential testing only",
           "the frame of the public functions (gather_dimensions, mean) is not modelled in Lean: the batches "
           "band-end-points-vs-integral-spec / label-order-vs-integral-spec compare the result BY LABEL with the exact mean "
           "(Fractions, in the harness) of the Lean Spec integrals over the reduced data dimensions; apply_weights is outside C10",
           "the option weights= of the tw_* functions is not modelled in Lean: batch weights-option-vs-integral-spec compares the result "
           "with the exact mean (Fractions, in the harness) of weight x Lean Spec integral, for finite weights >= 0 (NaN / negative "
           "weights belong to C03)"]
ASSUMPTIONS = ["forecasts / observations / end points are multiples of 1/2 or 1/4 of small magnitude (float + - * and comparisons "
               "exact); quotients by (b-a), (d-c), 3 compared to 1e-9", "NaN end points are not generated",
               "regular batches: no coordinates (positional); batches band-end-points-vs-integral-spec / label-order-vs-integral-spec: "
               "labelled forecasts / observations / end-point arrays in different stored orders and dimension orders, end points along a "
               "'band' dimension the data lack; end-point ARRAYS whose labels are stored in another order than the data or than another "
               "end-point array raise ValueError on the unchanged tree (candidate finding C10-EPORDER, notes/C10.md O4)",
               "float rounding is not modelled",
               "storage dtypes: forecasts / observations stored as int64 / int32 / int16 / int8 / float32 / mixed hold values exactly "
               "representable in the dtype; the model value is that exact number (int64 7 = 7, float32 0.5 = 1/2); magnitudes <= 7 "
               "(int8) / <= 12 in the regular typed batches; narrow integers near the limits of their dtype only in the batch "
               "narrow-int-dtype-range (notes/C10.md O3); float32 END POINTS and unsigned dtypes are not generated"]
MANIFEST = dict(
    level="proof",
    text="Kernel-checked Lean theorems about definitions regenerated on every run from threshold_weighted_impl.py (_g_j_rect, _phi_j_rect, "
         "_phi_j_prime_rect, _g_j_trap, _phi_j_trap, _phi_j_prime_trap, the 0.5 / 2 rescalings of the five tw_* wrappers) and "
         "consistent_impl.py (kernels of consistent_quantile/expectile/huber_score, parameter guards), for all rational forecasts, "
         "observations, end points, alpha and Huber parameters: g and phi/4 are the first and second antiderivative of the rectangular "
         "and of the trapezoidal weight on every cell (phi' = 4g); hence tw_quantile_score, tw_absolute_error, tw_expectile_score, "
         "tw_squared_error and tw_huber_loss equal the exact integral over [min(x,y), max(x,y)] of weight x Murphy elementary score "
         "(normalisations 1, 2, 2, 4, 2), for both shapes and for infinite end points replaced by any finite value beyond the data; "
         "weight 1 gives (x-y)^2, |x-y|, pinball, asymmetric squared and Huber loss; two half-lines, and a trapezoid with its two "
         "complementary ramps, give scores that sum to the unweighted score; consistent_* scores with non-decreasing g / convex phi "
         "with subgradient phi' are >= 0 and 0 at x = y, and the tw g / phi of both shapes satisfy these hypotheses. Tied to the "
         "code by the translator plus a differential check of the helpers, the consistent kernels and the whole tw_* pipeline "
         "(hand model of _auxiliary_funcs) and an independent oracle: Lean Spec integrals evaluated exhaustively on a 7-point lattice "
         "for x, y and all 114 admissible finite/infinite end-point choices, quadrature of the real murphy_score values, "
         "partition-of-unity / weight-one / non-negativity relations between implementation runs, scalar vs array vs mixed end points; "
         "end points as arrays along a 'band' dimension the data lack (several weights in one call), along data dimensions, 2-D and "
         "mixed with scalars, for every tw_* function with default dims, reduce_dims / preserve_dims lists and 'all' (the result keeps "
         "the band dimension, every band = exact mean of the Lean integrals for that band's end points, a weight-1 band = the "
         "unweighted score), and labelled forecasts / observations / end points in different stored orders and dimension orders, "
         "compared by label; the option weights= (arrays along data dimensions or a dimension of their own) for every tw_* function and "
         "every way of naming the kept dimensions: result = exact mean of weight x Lean integral.",
    note="Trusted: Lean kernel; propext/Classical.choice/Quot.sound; py2lean translator; SV.Fl (IEEE minus rounding, overflow, signed "
         "zero); the integral is Spec.Quad.integral = open 3-point Newton-Cotes rule on each cell of the kink-complete grid (exact "
         "for piecewise cubics) and is proved equal to Mathlib's intervalIntegral of weight x elementary score (Props/C10Bridge.lean). Modelled and only compared (not proved): _auxiliary_funcs "
         "(validation, replacement of +-inf by min/max(data, other end) -+ 1 over the batch, array / mixed end points) - the "
         "theorems hold for ANY finite replacement beyond the two data points; that the replacement is beyond the data is "
         "proved for the hand model of the rectangular branch (endpoint_replacement_model_rect) and checked by the differential "
         "harness for both branches. Not modelled in Lean: gather_dimensions / mean (the harness averages the exact Lean integrals "
         "over the reduced data dimensions itself), apply_weights, NaN end points, float rounding (inputs are dyadic, quotients to "
         "1e-9); coordinate alignment is exercised by label (batch label-order-vs-integral-spec; known candidate C10-EPORDER). "
         "A `<` <-> `<=` flip at a kink where the pieces agree is recognised as harmless by the tie lemmas.",
    technique="Lean 4 theorems over translator-regenerated definitions (generic cell-wise antiderivative calculus) + differential "
              "correspondence + exhaustive lattice oracle against the Lean Spec",
    design="6/C10")
RULE = ("cases (x, y, weight shape, end points, alpha, huber parameter): exhaustive over a 7-point lattice for x, y and every "
        "increasing choice of finite / infinite end points from it (all 9 / 25 relative positions incl. equalities), then random "
        "dyadic batches with 50% of values copied from an end point or from the other operand, end points as scalars or as "
        "arrays over one or both dimensions; typed batches: the same with forecasts / observations stored as int64 / int32 / int16 / "
        "int8 / float32 / mixed pairs (integers 0..6 x 8 non-integer weights exhaustively, then random, end points on the quarter "
        "grid, integer-valued ones also as Python int / int64 arrays); layout batches: per run every (function, way of naming the "
        "kept dimensions) with end points along a band dimension (all / mixed with scalars / with data-dimension arrays / 2-D), and "
        "every function with forecasts and observations in different stored label orders and dimension orders against scalar, band, "
        "data-dimension (common order / own order) end points; weights batch: per run every (function, way of naming the kept "
        "dimensions) with weights= along s, k, both (either dimension order) or a dimension of their own, values in {0, 1/4, .., 3}, never "
        "constant; distinct = distinct (x, y, shape, end points, parameters, "
        "storage dtypes, layout); non-trivial = x, y not NaN and not in the malformed stream")

NAN = float("nan")
INF = float("inf")
FUNCS = ["tw_squared_error", "tw_absolute_error", "tw_quantile_score", "tw_expectile_score", "tw_huber_loss"]
THEOREM_OF = {"tw_squared_error": "tw_squared_error_rect_eq_integral", "tw_absolute_error": "tw_absolute_error_rect_eq_integral",
              "tw_quantile_score": "tw_quantile_rect_eq_integral", "tw_expectile_score": "tw_expectile_rect_eq_integral",
              "tw_huber_loss": "tw_huber_rect_eq_integral"}
LATTICE = [-1.0, -0.5, 0.0, 0.5, 1.0, 1.5, 2.0]
ALPHAS = [0.5, 0.25, 0.75, 0.3, 0.125, 0.9]
HUBERS = [0.5, 1.0, 0.25, 2.0, 3.5]


def S(x):
    return core.fl_str(x)


# ------------------------------------------------------------------------------------------------ configurations
# a configuration: {"shape": "rect"|"trap", "ends": [e...], "dims": [d...]}; ends[i] is a float (scalar end point) or a
# nested list (array end point) whose dimensions are dims[i] (subset of ("s","k")).  rect: ends = [a, b];
# trap: ends = [a, b, c, d] with interval_where_positive = (a, d), interval_where_one = (b, c).
def as_arg(e, dims, int_forms=False):
    """int_forms: an integer-valued finite end point is passed as a Python int (scalar) / an int64 array (all entries
    integer-valued and finite) instead of float / float64 — the same VALUE in another type"""
    if isinstance(e, list):
        a = np.array(e, dtype=float)
        if int_forms and np.all(np.isfinite(a)) and np.all(a == np.round(a)):
            a = a.astype("int64")
        return xr.DataArray(a, dims=list(dims))
    if int_forms and math.isfinite(e) and float(e) == round(e):
        return int(e)
    return e


def tw_args(cfg):
    ends = [as_arg(e, d, cfg.get("int_forms", False)) for e, d in zip(cfg["ends"], cfg["dims"])]
    if cfg["shape"] == "rect":
        return (ends[0], ends[1]), None
    return (ends[1], ends[2]), (ends[0], ends[3])


def broadcast_ends(cfg, shape):
    """end points per forecast case: array (S, K, n_ends)"""
    Sn, Kn = shape
    cols = []
    for e, d in zip(cfg["ends"], cfg["dims"]):
        if isinstance(e, list):
            a = np.array(e, dtype=float)
            d = tuple(d)
            if d == ("s",):
                a = a[:, None]
            elif d == ("k",):
                a = a[None, :]
            elif d == ("k", "s"):
                a = a.T
            cols.append(np.broadcast_to(a, (Sn, Kn)))
        else:
            cols.append(np.full((Sn, Kn), float(e)))
    return np.stack(cols, axis=-1)


def da(arr, dtype=None):
    """dtype: storage dtype of the array; the VALUES must be exactly representable in it (asserted)"""
    a = np.array(arr, dtype=float)
    if dtype is not None and dtype != "float64":
        t = a.astype(dtype)
        if not np.array_equal(t.astype(float), a, equal_nan=True):
            raise AssertionError(f"harness: values {a.tolist()} are not exactly representable as {dtype}")
        a = t
    return xr.DataArray(a, dims=["s", "k"])


def call_tw(name, fc, ob, cfg, alpha, huber, **kw):
    import scores.continuous as sc
    one, pos = tw_args(cfg)
    args = [fc, ob]
    if name in ("tw_quantile_score", "tw_expectile_score"):
        args.append(alpha)
    if name == "tw_huber_loss":
        args.append(huber)
    kw.setdefault("preserve_dims", "all")
    return getattr(sc, name)(*args, interval_where_one=one, interval_where_positive=pos, **kw)


def impl_all(fc, ob, cfg, alpha, huber, names=FUNCS, dtypes=None):
    out = {}
    f, o = (da(fc), da(ob)) if dtypes is None else (da(fc, dtypes[0]), da(ob, dtypes[1]))
    with np.errstate(all="ignore"):
        for n in names:
            try:
                r = call_tw(n, f, o, cfg, alpha, huber)
                out[n] = np.asarray(r.transpose("s", "k").values, dtype=float)
            except Exception as ex:  # noqa: BLE001
                out[n] = ex
    return out


def model_op(fc, ob, cfg, alpha, huber):
    fc = np.asarray(fc, dtype=float)
    ob = np.asarray(ob, dtype=float)
    e = broadcast_ends(cfg, fc.shape)
    return {"op": "c10.model", "args": {
        "shape": cfg["shape"], "fcst": [S(v) for v in fc.ravel()], "obs": [S(v) for v in ob.ravel()],
        "ends": [[S(v) for v in row] for row in e.reshape(-1, e.shape[-1])], "alpha": S(alpha), "huber": S(huber)}}


def spec_ops(fc, ob, cfg, alpha, huber):
    """one c10.spec op per forecast case with finite x, y (None otherwise)"""
    fc = np.asarray(fc, dtype=float)
    ob = np.asarray(ob, dtype=float)
    e = broadcast_ends(cfg, fc.shape).reshape(-1, len(cfg["ends"]))
    ops = []
    for i, (x, y) in enumerate(zip(fc.ravel(), ob.ravel())):
        if math.isnan(x) or math.isnan(y):
            ops.append(None)
            continue
        ops.append({"op": "c10.spec", "args": {"shape": cfg["shape"], "ends": [S(v) for v in e[i]], "x": S(x), "y": S(y),
                                               "alpha": S(alpha), "huber": S(huber)}})
    return ops


# ------------------------------------------------------------------------------------------------ generators
def lattice_configs(shape):
    """every admissible choice of scalar end points from the lattice, finite or infinite"""
    out = []
    L = LATTICE
    if shape == "rect":
        for a, b in itertools.combinations(L, 2):
            out.append([a, b])
        for b in L:
            out.append([-INF, b])
        for a in L:
            out.append([a, INF])
        out.append([-INF, INF])
    else:
        for q in itertools.combinations(L, 4):
            out.append(list(q))
        for c, d in itertools.combinations(L, 2):
            out.append([-INF, -INF, c, d])
        for a, b in itertools.combinations(L, 2):
            out.append([a, b, INF, INF])
        out.append([-INF, -INF, INF, INF])
    return [{"shape": shape, "ends": e, "dims": [()] * len(e)} for e in out]


def lattice_points():
    xs = [[x for x in LATTICE for _ in LATTICE]]
    ys = [[y for _ in LATTICE for y in LATTICE]]
    return np.array(xs, dtype=float), np.array(ys, dtype=float)


def draw_sorted(rng, n, lo=-8, hi=12, den=2):
    vals = set()
    while len(vals) < n:
        vals.add(rng.randint(lo, hi) / den)
    return sorted(vals)


def gen_scalar_ends(rng, shape):
    if shape == "rect":
        a, b = draw_sorted(rng, 2)
        r = rng.random()
        if r < 0.2:
            a = -INF
        elif r < 0.4:
            b = INF
        elif r < 0.5:
            a, b = -INF, INF
        return [a, b]
    a, b, c, d = draw_sorted(rng, 4)
    r = rng.random()
    if r < 0.2:
        a = b = -INF
    elif r < 0.4:
        c = d = INF
    elif r < 0.5:
        a = b = -INF
        c = d = INF
    return [a, b, c, d]


def gen_cfg(rng, shape, Sn, Kn):
    """end points as scalars (45%), all as arrays over s, k or both (25%, per entry an admissible tuple, possibly
    infinite), or any mixture of scalar and array end points (30%; F16 regression)"""
    n = 2 if shape == "rect" else 4
    r = rng.random()
    if r < 0.45:
        return {"shape": shape, "ends": gen_scalar_ends(rng, shape), "dims": [()] * n}
    dims = rng.choice([("s",), ("k",), ("s", "k")])
    shp = tuple({"s": Sn, "k": Kn}[d] for d in dims)
    cnt = int(np.prod(shp))
    arr = lambda vals: np.array(vals, dtype=float).reshape(shp).tolist()
    if r < 0.70:
        rows = [gen_scalar_ends(rng, shape) for _ in range(cnt)]
        return {"shape": shape, "ends": [arr([rw[i] for rw in rows]) for i in range(n)], "dims": [dims] * n}
    # mixed: a base tuple with gaps >= 2, array columns perturbed by 0 / +-1/2 (order preserved), infinite values kept
    base = [2.0 * v for v in draw_sorted(rng, n, lo=-3, hi=5, den=1)]
    q = rng.random()
    if shape == "rect":
        if q < 0.25:
            base[0] = -INF
        elif q < 0.5:
            base[1] = INF
    else:
        if q < 0.2:
            base[0] = base[1] = -INF
        elif q < 0.4:
            base[2] = base[3] = INF
    k = rng.randint(1, n - 1)
    arr_cols = set(rng.sample(range(n), k))
    ends, ds = [], []
    for i in range(n):
        if i in arr_cols:
            ends.append(arr([base[i] + (rng.choice([0.0, 0.5, -0.5]) if math.isfinite(base[i]) else 0.0) for _ in range(cnt)]))
            ds.append(dims)
        else:
            ends.append(base[i]); ds.append(())
    return {"shape": shape, "ends": ends, "dims": ds}


def gen_beyond(rng, shape, Sn, Kn):
    """an infinite end point on one side and every finite end point on the OTHER side of all the data, so that the
    `other end` term of min/max(data, other end) -+ 1 decides the replacement (the weight vanishes on the data range)"""
    n = 2 if shape == "rect" else 4
    left_inf = rng.random() < 0.5
    off = lambda: rng.choice([0.0, 0.25, 0.5, 1.0, 2.0])
    if shape == "rect":
        e = rng.randint(-6, 6) / 2
        ends = [-INF, e] if left_inf else [e, INF]
        lo_data = e if left_inf else None
        hi_data = None if left_inf else e
    else:
        # the ramp is wider than 1 and every data point lies at least 1 inside it, counted from the flat side:
        # then ONLY the `other end` term keeps the replaced end point on the correct side of the ramp
        e = rng.randint(-6, 6) / 2
        wdt = rng.choice([1.5, 2.0, 3.0, 4.0])
        ends = [-INF, -INF, e, e + wdt] if left_inf else [e - wdt, e, INF, INF]
        lo_data = e + 1 if left_inf else None
        hi_data = None if left_inf else e - 1
    if left_inf:
        fc = np.array([[lo_data + off() for _ in range(Kn)] for _ in range(Sn)])
        ob = np.array([[lo_data + off() for _ in range(Kn)] for _ in range(Sn)])
    else:
        fc = np.array([[hi_data - off() for _ in range(Kn)] for _ in range(Sn)])
        ob = np.array([[hi_data - off() for _ in range(Kn)] for _ in range(Sn)])
    dims = [()] * n
    if rng.random() < 0.4:       # the same end points as arrays over s
        ends = [[e] * Sn for e in ends]
        dims = [("s",)] * n
    return {"shape": shape, "ends": ends, "dims": dims}, fc, ob


def gen_malformed(rng, shape):
    """end points that `_auxiliary_funcs` must reject with ValueError"""
    if shape == "rect":
        a, b = draw_sorted(rng, 2)
        return rng.choice([[b, a], [a, a], [INF, INF], [-INF, -INF], [a, -INF], [INF, b]])
    a, b, c, d = draw_sorted(rng, 4)
    return rng.choice([[a, c, b, d], [a, b, b, d], [b, a, c, d], [a, a, c, d], [a, b, d, c], [a, b, c, c],
                       [-INF, b, c, d], [a, b, c, INF], [a, -INF, c, d], [a, b, INF, d], [-INF, -INF, c, c]])


def finite_ends(cfg):
    out = []
    for e in cfg["ends"]:
        for v in (np.array(e, dtype=float).ravel() if isinstance(e, list) else [e]):
            if math.isfinite(v):
                out.append(float(v))
    return out


def gen_data(rng, cfg, Sn, Kn, nan_p=0.08, extra=()):
    """forecasts / observations: 50% copied from an end point, the other operand, or end point +- huber"""
    pool = finite_ends(cfg) + list(extra)
    fc = np.zeros((Sn, Kn))
    ob = np.zeros((Sn, Kn))
    for i in range(Sn):
        for k in range(Kn):
            x = rng.choice(pool) if (pool and rng.random() < 0.4) else rng.randint(-10, 14) / 2
            r = rng.random()
            if r < 0.15:
                y = x
            elif r < 0.5 and pool:
                y = rng.choice(pool)
            else:
                y = rng.randint(-10, 14) / 2
            if rng.random() < nan_p:
                x = NAN
            if rng.random() < nan_p:
                y = NAN
            fc[i, k], ob[i, k] = x, y
    return fc, ob


def desc_case(cfg, e_row, x, y, alpha, huber):
    return {"shape": cfg["shape"], "ends": [S(v) for v in e_row], "x": S(x), "y": S(y), "alpha": S(alpha), "huber": S(huber)}


def position_tag(e_row, x, y):
    """relative position of (x, y) to the finite end points: '<', '=' or '>' counts"""
    fin = [v for v in e_row if math.isfinite(v)]
    on = sum(1 for v in fin if v == x) + sum(1 for v in fin if v == y)
    return "on-endpoint" if on else ("tie" if x == y else "off-endpoint")


# ------------------------------------------------------------------------------------------------ comparison
def compare_batch(ctx, batch, kind, cfg, fc, ob, alpha, huber, impl, expected, forms_tag="scalar", malformed=False,
                  extra=None, tagger=None):
    """expected: either {"err": ...} for the whole batch, or per function a list of protocol strings / {"err":...};
    entries may be None (no expectation, e.g. NaN input handled by the model only).
    extra: further fields of the case (storage dtypes, integer end-point forms), recorded in every case / failure and in the
    tags; tagger(i, function) -> further tags of a value failure at position i"""
    extra = dict(extra or {})
    fc = np.asarray(fc, dtype=float)
    ob = np.asarray(ob, dtype=float)
    e = broadcast_ends(cfg, fc.shape).reshape(-1, len(cfg["ends"]))
    xs, ys = fc.ravel(), ob.ravel()
    whole_err = isinstance(expected, dict) and "err" in expected
    for i in range(len(xs)):
        ctx.case(batch, dict(desc_case(cfg, e[i], xs[i], ys[i], alpha, huber), **extra),
                 nontrivial=not (malformed or math.isnan(xs[i]) or math.isnan(ys[i])))
        ctx.tag(cfg["shape"] + ":" + position_tag(e[i], xs[i], ys[i]))
    ctx.tag("ends:" + forms_tag)
    if any(not math.isfinite(v) for v in e.ravel()):
        ctx.tag("infinite-end-point")
    for n in FUNCS:
        got = impl[n]
        exp = expected if whole_err else expected.get(n)
        if exp is None:
            continue
        if isinstance(exp, dict) and "err" in exp:
            if isinstance(got, Exception) and core.exc_class(got) == exp["err"]:
                continue
            ctx.fail(batch, kind, n, "missing-" + exp["err"], dict({"cfg": cfg, "fcst": fc.tolist(), "obs": ob.tolist(),
                                                                   "alpha": alpha, "huber": huber}, **extra),
                     observed=core.exc_class(got) if isinstance(got, Exception) else "a value", expected=exp["err"],
                     tags=dict({"function": n, "shape": cfg["shape"], "ends": forms_tag}, **extra))
            continue
        if isinstance(got, Exception):
            ctx.fail(batch, kind, n, "exception:" + type(got).__name__,
                     dict({"cfg": cfg, "fcst": fc.tolist(), "obs": ob.tolist(), "alpha": alpha, "huber": huber}, **extra),
                     observed=f"{type(got).__name__}: {got}"[:200], expected="values",
                     tags=dict({"function": n, "shape": cfg["shape"], "ends": forms_tag}, **extra))
            continue
        g = got.ravel()
        for i in range(len(xs)):
            if exp[i] is None:
                continue
            if not core.close(g[i], exp[i]):
                ctx.fail(batch, kind, n, "value", dict(desc_case(cfg, e[i], xs[i], ys[i], alpha, huber), function=n,
                                                       ends_given_as=forms_tag, **extra),
                         observed=float(g[i]), expected=exp[i],
                         tags=dict({"function": n, "shape": cfg["shape"], "ends": forms_tag,
                                    "position": position_tag(e[i], xs[i], ys[i])}, **extra,
                                   **(tagger(i, n) if tagger else {})),
                         theorem=THEOREM_OF.get(n, "").replace("rect", cfg["shape"]))
                if tagger is None:      # with per-position tags every failing position is reported
                    break


def forms_of(cfg):
    return "scalar" if all(not isinstance(e, list) for e in cfg["ends"]) else \
        ("array" if all(isinstance(e, list) for e in cfg["ends"]) else "mixed")


# ------------------------------------------------------------------------------------------------ tie X
G_MENU = {"id": lambda x: x, "cube": lambda x: x ** 3, "step": lambda x: (x >= 0).where(x.notnull()) * 1.0}
PHI_MENU = {"sq": (lambda x: x ** 2, lambda x: 2 * x), "quart": (lambda x: x ** 4, lambda x: 4 * x ** 3),
            "abs": (lambda x: abs(x), lambda x: np.sign(x))}


def menu_funcs():
    from scores.continuous import threshold_weighted_impl as twi
    import functools
    g = dict(G_MENU)
    g["rect"] = functools.partial(twi._g_j_rect, 0.0, 2.0)
    phi = dict(PHI_MENU)
    phi["rect"] = (functools.partial(twi._phi_j_rect, 0.0, 2.0), functools.partial(twi._phi_j_prime_rect, 0.0, 2.0))
    return g, phi


def corr_helpers(ctx, ops, todo):
    """the six translated auxiliary functions called directly"""
    from scores.continuous import threshold_weighted_impl as twi
    rng = ctx.rng
    for _ in range(ctx.n(40, 400)):
        shape = rng.choice(["rect", "trap"])
        ends = draw_sorted(rng, 2 if shape == "rect" else 4)
        xs = [rng.choice(ends) if rng.random() < 0.45 else rng.randint(-10, 14) / 2 for _ in range(6)] + [NAN]
        xa = xr.DataArray(np.array(xs), dims=["k"])
        with np.errstate(all="ignore"):
            if shape == "rect":
                got = {"g": twi._g_j_rect(*ends, xa), "phi": twi._phi_j_rect(*ends, xa), "phi_prime": twi._phi_j_prime_rect(*ends, xa)}
            else:
                got = {"g": twi._g_j_trap(*ends, xa), "phi": twi._phi_j_trap(*ends, xa), "phi_prime": twi._phi_j_prime_trap(*ends, xa)}
        for i, x in enumerate(xs):
            ops.append({"op": "c10.aux", "args": {"ends": [S(v) for v in ends], "x": S(x)}})
            todo.append(("aux", shape, ends, x, {k: float(v.values[i]) for k, v in got.items()}))


def corr_consistent(ctx, ops, todo):
    import scores.continuous as sc
    rng = ctx.rng
    gm, pm = menu_funcs()
    for _ in range(ctx.n(60, 600)):
        fn = rng.choice(["quantile", "expectile", "huber"])
        fam = rng.choice(list(gm if fn == "quantile" else pm))
        bad = rng.random() < 0.12
        if fn == "huber":
            p = rng.choice([0.0, -1.0, -0.5]) if bad else rng.choice(HUBERS)
        else:
            p = rng.choice([0.0, 1.0, -0.25, 1.5]) if bad else rng.choice(ALPHAS)
        n = rng.randint(1, 6)
        fc = [rng.randint(-8, 8) / 2 for _ in range(n)]
        ob = [fc[i] if rng.random() < 0.25 else (fc[i] + rng.choice([-1, 1]) * p if rng.random() < 0.2 else rng.randint(-8, 8) / 2)
              for i in range(n)]
        for arr in (fc, ob):
            for i in range(n):
                if rng.random() < 0.07:
                    arr[i] = NAN
        f, o = xr.DataArray(np.array(fc), dims=["k"]), xr.DataArray(np.array(ob), dims=["k"])
        try:
            with np.errstate(all="ignore"):
                if fn == "quantile":
                    r = sc.consistent_quantile_score(f, o, p, gm[fam], preserve_dims="all")
                elif fn == "expectile":
                    r = sc.consistent_expectile_score(f, o, p, pm[fam][0], pm[fam][1], preserve_dims="all")
                else:
                    r = sc.consistent_huber_score(f, o, p, pm[fam][0], pm[fam][1], preserve_dims="all")
            got = np.asarray(r.values, dtype=float).tolist()
        except Exception as ex:  # noqa: BLE001
            got = ex
        for i in range(n):
            ops.append({"op": "c10.cons", "args": {"fn": fn, "fam": fam, "fcst": S(fc[i]), "obs": S(ob[i]), "param": S(p)}})
            todo.append(("cons", fn, fam, (fc[i], ob[i], p), got if isinstance(got, Exception) else got[i], bad))


def pipeline_batches(ctx, n_batches, malformed_share=0.12):
    rng = ctx.rng
    out = []
    for _ in range(n_batches):
        shape = rng.choice(["rect", "trap"])
        Sn, Kn = rng.choice([(1, 1), (1, 4), (2, 3), (3, 2), (2, 1), (3, 3)])
        alpha = rng.choice(ALPHAS)
        huber = rng.choice(HUBERS)
        malformed = rng.random() < malformed_share
        if malformed:
            r = rng.random()
            if r < 0.6:
                e = gen_malformed(rng, shape)
                cfg = {"shape": shape, "ends": e, "dims": [()] * len(e)}
            elif r < 0.8:
                cfg = gen_cfg(rng, shape, Sn, Kn)
                alpha = rng.choice([0.0, 1.0, -0.5, 2.0])
            else:
                cfg = gen_cfg(rng, shape, Sn, Kn)
                huber = rng.choice([0.0, -1.0])
        else:
            cfg = gen_cfg(rng, shape, Sn, Kn)
        fc, ob = gen_data(rng, cfg, Sn, Kn, extra=[v + s * huber for v in finite_ends(cfg)[:2] for s in (-1, 1)])
        if not malformed and rng.random() < 0.15:
            cfg, fc, ob = gen_beyond(rng, shape, Sn, Kn)
        if rng.random() < 0.04:
            fc[:] = NAN
        out.append((cfg, fc, ob, alpha, huber, malformed))
    return out


def correspondence(ctx):
    ops, todo = [], []
    corr_helpers(ctx, ops, todo)
    corr_consistent(ctx, ops, todo)
    batches = pipeline_batches(ctx, ctx.n(60, 700))
    for cfg, fc, ob, alpha, huber, _ in batches:
        ops.append(model_op(fc, ob, cfg, alpha, huber))
    res = core.run_driver("C10", ops)
    k = 0
    for t in todo:
        r = res[k]; k += 1
        if t[0] == "aux":
            _, shape, ends, x, got = t
            ctx.case("aux-functions", {"shape": shape, "ends": ends, "x": S(x)}, nontrivial=not math.isnan(x))
            ctx.tag("aux:" + ("nan" if math.isnan(x) else ("on-endpoint" if x in ends else "off")))
            for key in ("g", "phi", "phi_prime"):
                if not core.close(got[key], r[key]):
                    ctx.fail("aux-functions", "correspondence", f"_{key}_j_{shape}", "value", {"shape": shape, "ends": ends, "x": S(x)},
                             observed=got[key], expected=r[key], tags={"function": key, "shape": shape})
        else:
            _, fn, fam, (f, o, p), got, bad = t
            ctx.case("consistent-kernels", {"fn": fn, "fam": fam, "fcst": S(f), "obs": S(o), "param": S(p)},
                     nontrivial=not (bad or math.isnan(f) or math.isnan(o)))
            ctx.tag("consistent:" + fn)
            if isinstance(r, dict) and "err" in r:
                if not (isinstance(got, Exception) and core.exc_class(got) == r["err"]):
                    ctx.fail("consistent-kernels", "correspondence", f"consistent_{fn}_score", "missing-" + r["err"],
                             {"fn": fn, "fam": fam, "param": p}, observed=repr(got)[:100], expected=r["err"], tags={"function": fn})
            elif isinstance(got, Exception):
                ctx.fail("consistent-kernels", "correspondence", f"consistent_{fn}_score", "exception:" + type(got).__name__,
                         {"fn": fn, "fam": fam, "fcst": f, "obs": o, "param": p}, observed=str(got)[:200], expected=r, tags={"function": fn})
            elif not core.close(got, r):
                ctx.fail("consistent-kernels", "correspondence", f"consistent_{fn}_score", "value",
                         {"fn": fn, "fam": fam, "fcst": S(f), "obs": S(o), "param": S(p)}, observed=got, expected=r,
                         tags={"function": fn, "fam": fam})
    for cfg, fc, ob, alpha, huber, malformed in batches:
        r = res[k]; k += 1
        impl = impl_all(fc, ob, cfg, alpha, huber)
        if malformed:
            ctx.tag("malformed-stream")
        compare_batch(ctx, "tw-pipeline-vs-model", "correspondence", cfg, fc, ob, alpha, huber, impl,
                      r if "err" in r else {n: r[n] for n in FUNCS}, forms_tag=forms_of(cfg), malformed=malformed)


# ------------------------------------------------------------------------------------------------ the property oracle
def spec_expected(ctx, cases):
    """cases: list of (cfg, fc, ob, alpha, huber) -> list of {fn: [str|None]} from the Lean Spec (integrals)"""
    ops, index = [], []
    for ci, (cfg, fc, ob, alpha, huber) in enumerate(cases):
        for pi, op in enumerate(spec_ops(fc, ob, cfg, alpha, huber)):
            if op is not None:
                ops.append(op)
                index.append((ci, pi))
    res = core.run_driver("C10spec", ops)
    out = [{n: [None] * np.asarray(c[1]).size for n in FUNCS} for c in cases]
    for (ci, pi), r in zip(index, res):
        for n in FUNCS:
            out[ci][n][pi] = r[n]
    return out


def oracle_integral(ctx, boost):
    """tw_* on the implementation = Lean Spec integral of weight x elementary score"""
    rng = ctx.rng
    cases = []
    lx, ly = lattice_points()
    full = ctx.thorough or boost
    lat_params = [(0.25, 0.5), (0.5, 1.0), (0.75, 0.25), (0.3, 1.5)] if ctx.thorough else [(0.25, 0.5), (0.75, 1.0)]
    n_scalar = 0
    for shape in ("rect", "trap"):
        cfgs = lattice_configs(shape)
        n = len(cfgs[0]["ends"])
        # (i) every lattice weight at once: end points as arrays over "s" (one row of the batch per weight)
        packed = {"shape": shape, "ends": [[c["ends"][i] for c in cfgs] for i in range(n)], "dims": [("s",)] * n}
        px = np.repeat(lx, len(cfgs), axis=0)
        py = np.repeat(ly, len(cfgs), axis=0)
        for (al, hu) in (lat_params if full else lat_params[:2]):
            cases.append((packed, px, py, al, hu))
        # (ii) the same weights given as scalars, one batch each (quick tier: a random dozen per shape)
        chosen = cfgs if full else rng.sample(cfgs, 6)
        for ci, cfg in enumerate(chosen):
            for (al, hu) in (lat_params if full else [lat_params[ci % 2]]):
                cases.append((cfg, lx, ly, al, hu))
                n_scalar += 1
    ctx.exhaustive.append(f"x, y over the 7-point lattice {LATTICE} x every admissible end-point choice from it incl. +-inf "
                          f"(36 rectangular, 78 trapezoidal weights) = 5586 (x, y, weight) triples, 5 scores each, end points as "
                          f"arrays; {n_scalar} of the (weight, parameter) batches also with scalar end points")
    for cfg, fc, ob, alpha, huber, malformed in pipeline_batches(ctx, ctx.n(40, 600) * (3 if boost else 1), malformed_share=0.0):
        mask = np.isnan(fc) | np.isnan(ob)
        fc = np.where(mask, 0.0, fc); ob = np.where(mask, 0.0, ob)   # NaN handling belongs to tie X / C02
        cases.append((cfg, fc, ob, alpha, huber))
    exp = spec_expected(ctx, cases)
    for (cfg, fc, ob, alpha, huber), e in zip(cases, exp):
        impl = impl_all(fc, ob, cfg, alpha, huber)
        compare_batch(ctx, "impl-vs-integral-spec", "property", cfg, fc, ob, alpha, huber, impl, e, forms_tag=forms_of(cfg))
    return cases


def milne_nodes(grid):
    nodes = []
    for p, q in zip(grid, grid[1:]):
        nodes += [p + (q - p) / 4, p + (q - p) / 2, p + 3 * (q - p) / 4]
    return nodes


def oracle_murphy(ctx, boost):
    """tw_* = quadrature of weight x the REAL murphy_score values (relation between implementation runs; weights and grid
    from the Lean Spec)"""
    from scores.continuous import murphy_score
    rng = ctx.rng
    norm = {"tw_squared_error": ("expectile", 4, 0.5), "tw_absolute_error": ("quantile", 2, 0.5), "tw_quantile_score": ("quantile", 1, None),
            "tw_expectile_score": ("expectile", 2, None), "tw_huber_loss": ("huber", 2, 0.5)}
    pts = []
    for _ in range(ctx.n(25, 300) * (3 if boost else 1)):
        shape = rng.choice(["rect", "trap"])
        e = gen_scalar_ends(rng, shape)
        cfg = {"shape": shape, "ends": e, "dims": [()] * len(e)}
        fc, ob = gen_data(rng, cfg, 1, 1, nan_p=0.0)
        pts.append((cfg, float(fc[0, 0]), float(ob[0, 0]), rng.choice(ALPHAS), rng.choice(HUBERS)))
    gops = []
    for cfg, x, y, alpha, huber in pts:
        base = {"shape": cfg["shape"], "ends": [S(v) for v in cfg["ends"]], "x": S(x), "y": S(y)}
        gops.append({"op": "c10.grid", "args": dict(base, extra=[])})
        gops.append({"op": "c10.grid", "args": dict(base, extra=[S(y - huber), S(y + huber)])})
    grids = core.run_driver("C10spec", gops)
    wops, nodes_all = [], []
    for i, (cfg, x, y, alpha, huber) in enumerate(pts):
        for gr in (grids[2 * i], grids[2 * i + 1]):
            nodes = milne_nodes([Fraction(s) for s in gr])
            nodes_all.append(nodes)
            wops.append({"op": "c10.weight", "args": {"shape": cfg["shape"], "ends": [S(v) for v in cfg["ends"]],
                                                      "thetas": [S(t) for t in nodes]}})
    weights = core.run_driver("C10spec", wops)
    for i, (cfg, x, y, alpha, huber) in enumerate(pts):
        impl = impl_all([[x]], [[y]], cfg, alpha, huber)
        fx, oy = xr.DataArray([x], dims=["k"]), xr.DataArray([y], dims=["k"])
        ctx.case("tw-vs-murphy-quadrature", desc_case(cfg, cfg["ends"], x, y, alpha, huber))
        for n in FUNCS:
            functional, factor, fixed_alpha = norm[n]
            al = fixed_alpha if fixed_alpha is not None else alpha
            which = 2 * i + (1 if functional == "huber" else 0)
            nodes = nodes_all[which]
            w = [Fraction(s) for s in weights[which]]
            gr = [Fraction(s) for s in grids[which]]
            if not nodes:
                continue
            ms = murphy_score(fx, oy, [float(t) for t in nodes], functional=functional, alpha=al,
                              huber_a=(huber if functional == "huber" else None), preserve_dims="all")["total"]
            mv = np.asarray(ms.transpose("theta", "k").values, dtype=float)[:, 0]
            tot = 0.0
            for c, (p, q) in enumerate(zip(gr, gr[1:])):
                f = [float(w[3 * c + j]) * mv[3 * c + j] for j in range(3)]
                tot += float(q - p) / 3 * (2 * f[0] - f[1] + 2 * f[2])
            got = impl[n]
            if isinstance(got, Exception):
                ctx.fail("tw-vs-murphy-quadrature", "property", n, "exception:" + type(got).__name__,
                         desc_case(cfg, cfg["ends"], x, y, alpha, huber), observed=str(got)[:200], expected=factor * tot,
                         tags={"function": n, "shape": cfg["shape"]})
            elif not core.close_ff(got[0, 0], factor * tot, rtol=1e-8, atol=1e-10):
                ctx.fail("tw-vs-murphy-quadrature", "property", n, "tw-differs-from-murphy-integral",
                         dict(desc_case(cfg, cfg["ends"], x, y, alpha, huber), function=n), observed=float(got[0, 0]),
                         expected=factor * tot, tags={"function": n, "shape": cfg["shape"]}, theorem=THEOREM_OF[n])


def unweighted_reference(fc, ob, alpha, huber):
    """the standard scores computed by the library itself where it has them (mse / mae / quantile_score)"""
    import scores.continuous as sc
    f, o = da(fc), da(ob)
    return {"tw_squared_error": sc.mse(f, o, preserve_dims="all").values, "tw_absolute_error": sc.mae(f, o, preserve_dims="all").values,
            "tw_quantile_score": sc.quantile_score(f, o, alpha, preserve_dims="all").values}


def oracle_relations(ctx, boost):
    """weight-one reduction, partition of unity, non-negativity / zero at x = y, scalar vs array end points"""
    rng = ctx.rng
    n = ctx.n(14, 120) * (2 if boost else 1)
    std_ops, std_cases = [], []
    for it in range(n):
        Sn, Kn = rng.choice([(2, 4), (3, 3), (4, 2)])
        names = FUNCS if (ctx.thorough or boost) else rng.sample(FUNCS, 2)
        alpha, huber = rng.choice(ALPHAS), rng.choice(HUBERS)
        a, b, c, d = draw_sorted(rng, 4)
        dummy = {"shape": "trap", "ends": [a, b, c, d], "dims": [()] * 4}
        fc, ob = gen_data(rng, dummy, Sn, Kn, nan_p=0.0, extra=[a + huber, d - huber])
        sc = lambda e: {"shape": "rect" if len(e) == 2 else "trap", "ends": e, "dims": [()] * len(e)}
        one = impl_all(fc, ob, sc([-INF, INF]), alpha, huber, names)
        one_t = impl_all(fc, ob, sc([-INF, -INF, INF, INF]), alpha, huber, names)
        # --- weight one = the standard scores (Spec closed forms + the library's own mse / mae / quantile_score)
        for x, y in zip(fc.ravel(), ob.ravel()):
            std_ops.append({"op": "c10.std", "args": {"x": S(x), "y": S(y), "alpha": S(alpha), "huber": S(huber)}})
        std_cases.append((fc, ob, alpha, huber, one, one_t, names))
        # --- partition of unity: two half-lines at b
        left = impl_all(fc, ob, sc([-INF, b]), alpha, huber, names)
        right = impl_all(fc, ob, sc([b, INF]), alpha, huber, names)
        # --- trapezoid + its two complementary ramps
        mid = impl_all(fc, ob, sc([a, b, c, d]), alpha, huber, names)
        lramp = impl_all(fc, ob, sc([-INF, -INF, a, b]), alpha, huber, names)
        rramp = impl_all(fc, ob, sc([c, d, INF, INF]), alpha, huber, names)
        # --- the same end points as arrays
        arr_cfg = {"shape": "trap", "ends": [np.full((Sn,), v).tolist() for v in (a, b, c, d)], "dims": [("s",)] * 4}
        mid_arr = impl_all(fc, ob, arr_cfg, alpha, huber, names)
        case = {"fcst": fc.tolist(), "obs": ob.tolist(), "a": a, "b": b, "c": c, "d": d, "alpha": alpha, "huber": huber}
        ctx.case("partition-of-unity", case)
        ctx.case("nonnegative-zero-at-equality", case)
        ctx.case("scalar-vs-array-end-points", case)
        for nme in names:
            vals = [one[nme], one_t[nme], left[nme], right[nme], mid[nme], lramp[nme], rramp[nme], mid_arr[nme]]
            bad = [v for v in vals if isinstance(v, Exception)]
            if bad:
                ctx.fail("partition-of-unity", "property", nme, "exception:" + type(bad[0]).__name__, case, observed=str(bad[0])[:200],
                         expected="values", tags={"function": nme})
                continue
            def allclose(u, v):
                return all(core.close_ff(p, q, rtol=1e-9, atol=1e-10) for p, q in zip(np.ravel(u), np.ravel(v)))
            if not allclose(left[nme] + right[nme], one[nme]):
                ctx.fail("partition-of-unity", "property", nme, "half-lines-do-not-sum-to-unweighted", dict(case, split=b),
                         observed=(left[nme] + right[nme]).tolist(), expected=one[nme].tolist(), tags={"function": nme, "partition": "half-lines"},
                         theorem="partition_half_lines")
            if not allclose(lramp[nme] + mid[nme] + rramp[nme], one[nme]):
                ctx.fail("partition-of-unity", "property", nme, "trapezoid-and-ramps-do-not-sum-to-unweighted", case,
                         observed=(lramp[nme] + mid[nme] + rramp[nme]).tolist(), expected=one[nme].tolist(),
                         tags={"function": nme, "partition": "trapezoid+ramps"}, theorem="partition_trapezoid_ramps")
            if not allclose(one[nme], one_t[nme]):
                ctx.fail("partition-of-unity", "property", nme, "weight-one-rect-vs-trap-differ", case, observed=one_t[nme].tolist(),
                         expected=one[nme].tolist(), tags={"function": nme})
            if not allclose(mid[nme], mid_arr[nme]):
                ctx.fail("scalar-vs-array-end-points", "property", nme, "array-end-points-differ-from-scalars", case,
                         observed=mid_arr[nme].tolist(), expected=mid[nme].tolist(), tags={"function": nme})
            for v, lab in ((left[nme], "left"), (right[nme], "right"), (mid[nme], "trap"), (lramp[nme], "lramp"), (rramp[nme], "rramp")):
                if np.any(np.ravel(v) < -1e-9):
                    ctx.fail("nonnegative-zero-at-equality", "property", nme, "negative-score", dict(case, weight=lab), observed=v.tolist(),
                             expected=">= 0", tags={"function": nme}, theorem="tw_nonneg_rect / tw_nonneg_trap")
                eq = np.ravel(fc == ob)
                if np.any(np.abs(np.ravel(v)[eq]) > 1e-9):
                    ctx.fail("nonnegative-zero-at-equality", "property", nme, "nonzero-at-fcst-equals-obs", dict(case, weight=lab),
                             observed=v.tolist(), expected="0 where fcst == obs", tags={"function": nme}, theorem="tw_nonneg_rect / tw_nonneg_trap (zero at x = y)")
    std = core.run_driver("C10spec", std_ops)
    k = 0
    for fc, ob, alpha, huber, one, one_t, names in std_cases:
        m = fc.size
        rows = std[k:k + m]; k += m
        ref = unweighted_reference(fc, ob, alpha, huber)
        ctx.case("weight-one-reduction", {"fcst": fc.tolist(), "obs": ob.tolist(), "alpha": alpha, "huber": huber})
        for nme in names:
            got = one[nme]
            if isinstance(got, Exception):
                continue   # reported above
            g = got.ravel()
            for i in range(m):
                okspec = core.close(g[i], rows[i][nme])
                oklib = nme not in ref or core.close_ff(g[i], np.ravel(ref[nme])[i])
                if not (okspec and oklib):
                    ctx.fail("weight-one-reduction", "property", nme, "weight-one-differs-from-standard-score",
                             {"x": S(fc.ravel()[i]), "y": S(ob.ravel()[i]), "alpha": S(alpha), "huber": S(huber), "function": nme,
                              "shape": "rect", "ends": ["-inf", "inf"]},
                             observed=float(g[i]), expected=rows[i][nme], tags={"function": nme}, theorem="weight_one_" + nme)
                    break


def oracle_consistent(ctx, boost):
    """consistent_* with convex phi (phi' a subgradient) / non-decreasing g: >= 0 and 0 at fcst == obs"""
    import scores.continuous as sc
    rng = ctx.rng
    gm, pm = menu_funcs()
    for _ in range(ctx.n(60, 600) * (3 if boost else 1)):
        fn = rng.choice(["quantile", "expectile", "huber"])
        fam = rng.choice(list(gm if fn == "quantile" else pm))
        p = rng.choice(HUBERS) if fn == "huber" else rng.choice(ALPHAS)
        n = rng.randint(2, 6)
        fc = [rng.randint(-8, 8) / 2 for _ in range(n)]
        ob = [fc[i] if rng.random() < 0.3 else rng.randint(-8, 8) / 2 for i in range(n)]
        f, o = xr.DataArray(np.array(fc), dims=["k"]), xr.DataArray(np.array(ob), dims=["k"])
        case = {"fn": fn, "fam": fam, "fcst": fc, "obs": ob, "param": p}
        ctx.case("consistent-nonnegative", case)
        try:
            if fn == "quantile":
                r = sc.consistent_quantile_score(f, o, p, gm[fam], preserve_dims="all")
            elif fn == "expectile":
                r = sc.consistent_expectile_score(f, o, p, pm[fam][0], pm[fam][1], preserve_dims="all")
            else:
                r = sc.consistent_huber_score(f, o, p, pm[fam][0], pm[fam][1], preserve_dims="all")
            v = np.asarray(r.values, dtype=float)
        except Exception as ex:  # noqa: BLE001
            ctx.fail("consistent-nonnegative", "property", f"consistent_{fn}_score", "exception:" + type(ex).__name__, case,
                     observed=str(ex)[:200], expected="values", tags={"function": fn})
            continue
        eq = np.array(fc) == np.array(ob)
        if np.any(v < -1e-9) or np.any(np.abs(v[eq]) > 1e-9):
            ctx.fail("consistent-nonnegative", "property", f"consistent_{fn}_score",
                     "negative-score" if np.any(v < -1e-9) else "nonzero-at-fcst-equals-obs", case, observed=v.tolist(),
                     expected=">= 0, and 0 where fcst == obs", tags={"function": fn, "fam": fam}, theorem=f"consistent_{fn}_nonneg")


def oracle_mixed(ctx):
    """tuples mixing array and scalar end points give the value of the broadcast scalar (F16, fixed in 59f483d: regression)"""
    rng = ctx.rng
    for _ in range(ctx.n(12, 80)):
        Sn, Kn = 2, 3
        shape = rng.choice(["rect", "rect", "trap"])
        n = 2 if shape == "rect" else 4
        e = gen_scalar_ends(rng, shape)
        ref = {"shape": shape, "ends": e, "dims": [()] * n}
        k = rng.randint(1, n - 1)
        cols = set(rng.sample(range(n), k))
        mixed = {"shape": shape, "ends": [[e[i]] * Sn if i in cols else e[i] for i in range(n)],
                 "dims": [("s",) if i in cols else () for i in range(n)]}
        fc, ob = gen_data(rng, ref, Sn, Kn, nan_p=0.0)
        alpha, huber = rng.choice(ALPHAS), rng.choice(HUBERS)
        got, exp = impl_all(fc, ob, mixed, alpha, huber), impl_all(fc, ob, ref, alpha, huber)
        form = "".join("A" if i in cols else "s" for i in range(n))
        case = {"fcst": fc.tolist(), "obs": ob.tolist(), "cfg": mixed, "alpha": alpha, "huber": huber}
        ctx.case("mixed-endpoint-forms", case)
        ctx.tag("mixed-forms:" + form)
        for nme in FUNCS:
            if isinstance(got[nme], Exception):
                ctx.fail("mixed-endpoint-forms", "property", "_auxiliary_funcs", "exception:" + type(got[nme]).__name__, case,
                         observed=str(got[nme])[:200], expected="the value for the broadcast scalar",
                         tags={"endpoint_forms": form, "function": nme})
                break
            if not isinstance(exp[nme], Exception) and not np.allclose(got[nme], exp[nme], rtol=1e-9, atol=1e-12):
                ctx.fail("mixed-endpoint-forms", "property", nme, "mixed-forms-differ", case, observed=got[nme].tolist(),
                         expected=exp[nme].tolist(), tags={"function": nme, "endpoint_forms": form})


# ------------------------------------------------------------------------------------------------ storage dtypes
# The scores are functions of the VALUES of forecasts / observations: a forecast stored as int64 7, int8 7 or float32 7.0
# has the model value 7, and the expected score is the Lean Spec integral at that exact value.  End points stay what the
# caller passed (Python float / int, float64 / int64 arrays) and are mostly NOT integers.
INT_DTYPES = ["int64", "int32", "int16", "int8"]
DTYPE_PAIRS = [("int64", "int64"), ("int32", "int32"), ("int8", "int8"), ("int16", "int16"), ("float32", "float32"),
               ("int64", "float64"), ("float64", "int32"), ("int32", "int64"), ("int8", "float32"), ("float32", "int64"),
               ("int8", "int64"), ("float32", "float64"), ("int16", "int32")]
PHI_FUNCS = ("tw_squared_error", "tw_expectile_score", "tw_huber_loss")
INT_DEFECT = "C10-narrow-int-overflow"


def is_int_dtype(dt):
    return dt.startswith("int")


def small_limit(dt):
    """magnitude bound of the generated data for which no intermediate of the library (2 * x**2, obs - fcst, data max + 1)
    leaves the storage dtype: int8 holds 2 * 7**2 = 98"""
    return 7 if dt == "int8" else 12


def shift_ends(cfg, delta):
    sh = lambda v: [sh(u) for u in v] if isinstance(v, list) else (v + delta if math.isfinite(v) else v)
    return dict(cfg, ends=[sh(e) for e in cfg["ends"]])


def gen_cfg_nonint(rng, shape, Sn, Kn):
    """end points (scalar / array / mixed, finite / infinite) on the half and quarter grid: mostly not integers"""
    cfg = gen_cfg(rng, shape, Sn, Kn)
    r = rng.random()
    if r < 0.45:
        cfg = shift_ends(cfg, rng.choice([0.25, -0.25, 0.5]))
    elif r < 0.6:
        cfg = dict(cfg, int_forms=True)     # integer-valued end points as Python int / int64 arrays
    return cfg


def typed_value(rng, dt, pool):
    lim = small_limit(dt)
    if pool and rng.random() < 0.45:
        v = rng.choice(pool)
        if is_int_dtype(dt):
            v = float(rng.choice([math.floor(v), math.ceil(v)]))
        return max(-float(lim), min(float(lim), v))
    return float(rng.randint(-lim, lim)) if is_int_dtype(dt) else rng.randint(-4 * lim, 4 * lim) / 4


def gen_data_typed(rng, cfg, Sn, Kn, fdt, odt):
    """values exactly representable in the storage dtypes; 45% next to / on an end point, 15% fcst == obs"""
    pool = [v for v in finite_ends(cfg) if abs(v) <= 16]
    fc, ob = np.zeros((Sn, Kn)), np.zeros((Sn, Kn))
    for i in range(Sn):
        for k in range(Kn):
            x = typed_value(rng, fdt, pool)
            y = typed_value(rng, odt, pool)
            if rng.random() < 0.15:
                if not is_int_dtype(odt) or x == round(x):
                    y = x
                elif not is_int_dtype(fdt) or y == round(y):
                    x = y
            fc[i, k], ob[i, k] = x, y
    return fc, ob


def dtype_extra(cfg, fdt, odt):
    ex = {"fcst_dtype": fdt, "obs_dtype": odt}
    if cfg.get("int_forms"):
        ex["int_forms"] = True
    return ex


INT_LATTICE = [float(v) for v in range(0, 7)]
INT_LATTICE_ENDS = {"rect": [[1.5, 3.5], [-INF, 3.5], [1.5, INF], [2.25, 5.25]],
                    "trap": [[0.5, 1.5, 3.5, 5.25], [-INF, -INF, 3.5, 5.25], [0.5, 1.5, INF, INF], [1.25, 1.5, 3.75, 4.5]]}


def oracle_dtypes(ctx, boost):
    """tw_* on forecasts / observations STORED as int64 / int32 / int16 / int8 / float32 / mixed = Lean Spec integral at the
    same exact values, with non-integer, infinite, scalar and array end points"""
    rng = ctx.rng
    # (i) exhaustive: integer lattice 0..6 for x and y, the fixed non-integer weights, every all-integer storage pair.
    #     One call per shape carries all its weights: row = (weight, x), column = y, end points as arrays over "s";
    #     the first weight of each shape also with scalar end points.
    L = len(INT_LATTICE)
    lat = []
    for shape in ("rect", "trap"):
        ws = INT_LATTICE_ENDS[shape]
        n = len(ws[0])
        packed = {"shape": shape, "ends": [[w[j] for w in ws for _ in range(L)] for j in range(n)], "dims": [("s",)] * n}
        px = np.array([[x for _ in INT_LATTICE] for _ in ws for x in INT_LATTICE])
        py = np.array([[y for y in INT_LATTICE] for _ in ws for _ in INT_LATTICE])
        lat.append((packed, px, py, 0.25, 0.75, "all"))
        lat.append(({"shape": shape, "ends": list(ws[0]), "dims": [()] * n}, px[:L], py[:L], 0.75, 0.5, "int64"))
    cases = [c[:5] for c in lat]
    metas = [c[5] for c in lat]
    ctx.exhaustive.append(f"storage dtypes: x, y over the integers 0..6 x {sum(len(v) for v in INT_LATTICE_ENDS.values())} weights with "
                          f"non-integer / infinite end points x storage pairs {INT_DTYPES} (fcst) x same / wider (obs), 5 scores each")
    # (ii) random typed batches
    nb = ctx.n(len(DTYPE_PAIRS) + 7, 300) * (3 if boost else 1)
    for it in range(nb):
        shape = rng.choice(["rect", "trap"])
        Sn, Kn = rng.choice([(1, 1), (1, 4), (2, 3), (3, 2), (3, 3), (3, 4), (4, 3)])
        fdt, odt = DTYPE_PAIRS[it] if it < len(DTYPE_PAIRS) else rng.choice(DTYPE_PAIRS[:5] + DTYPE_PAIRS)   # all-integer pairs twice as likely
        cfg = gen_cfg_nonint(rng, shape, Sn, Kn)
        fc, ob = gen_data_typed(rng, cfg, Sn, Kn, fdt, odt)
        cases.append((cfg, fc, ob, rng.choice(ALPHAS), rng.choice(HUBERS)))
        metas.append((fdt, odt))
    exp = spec_expected(ctx, cases)
    for (cfg, fc, ob, alpha, huber), e, meta in zip(cases, exp, metas):
        if meta == "all":
            pairs = [(d, d) for d in INT_DTYPES] + [("int32", "int64"), ("int8", "int16")]
            if not (ctx.thorough or boost):      # quick: int64 always, two of the other pairs
                pairs = pairs[:1] + rng.sample(pairs[1:], 2)
        elif meta == "int64":
            pairs = [("int64", "int64")]
        else:
            pairs = [meta]
        for fdt, odt in pairs:
            impl = impl_all(fc, ob, cfg, alpha, huber, dtypes=(fdt, odt))
            ctx.tag(f"storage:{fdt}/{odt}")
            compare_batch(ctx, "typed-storage-vs-integral-spec", "property", cfg, fc, ob, alpha, huber, impl, e,
                          forms_tag=forms_of(cfg), extra=dtype_extra(cfg, fdt, odt))


def cons_call(fn, f, o, p, g, phi, phi_prime):
    import scores.continuous as sc
    if fn == "quantile":
        return sc.consistent_quantile_score(f, o, p, g, preserve_dims="all")
    if fn == "expectile":
        return sc.consistent_expectile_score(f, o, p, phi, phi_prime, preserve_dims="all")
    return sc.consistent_huber_score(f, o, p, phi, phi_prime, preserve_dims="all")


CONS_SPEC = {"quantile": ("tw_quantile_score", 1), "expectile": ("tw_expectile_score", 2), "huber": ("tw_huber_loss", 2)}


def typed_1d(vals, dt):
    return da([vals], dt).isel(s=0)


def cons_typed_eval(case):
    """the consistent_* score of one recorded typed case and, for a menu family, of the same values stored as float64"""
    import functools
    from scores.continuous import threshold_weighted_impl as twi
    fn, fam, p = case["fn"], case["fam"], float(case["param"])
    if fam in ("w-rect", "w-trap"):
        # 0-d float64 arrays, as `_auxiliary_funcs` builds them (a bare Python float would make float32 data compute in float32)
        ends = [xr.DataArray(float(Fraction(v))) for v in case["ends"]]
        if fam == "w-rect":
            fns = [functools.partial(h, *ends) for h in (twi._g_j_rect, twi._phi_j_rect, twi._phi_j_prime_rect)]
        else:
            fns = [functools.partial(h, *ends) for h in (twi._g_j_trap, twi._phi_j_trap, twi._phi_j_prime_trap)]
    else:
        gm, pm = menu_funcs()
        fns = [gm.get(fam), pm.get(fam, (None, None))[0], pm.get(fam, (None, None))[1]]
    def run(dts):
        try:
            with np.errstate(all="ignore"):
                r = cons_call(fn, typed_1d(case["fcst"], dts[0]), typed_1d(case["obs"], dts[1]), p, *fns)
            return np.asarray(r.values, dtype=float), str(r.dtype)
        except Exception as ex:  # noqa: BLE001
            return ex, ""
    got, got_dtype = run((case["fcst_dtype"], case["obs_dtype"]))
    # the weight families are compared with the Spec, not with a float64 run
    ref = None if fam in ("w-rect", "w-trap") else run(("float64", "float64"))[0]
    return got, got_dtype, ref


def cons_typed_check(ctx, case, spec_rows):
    """spec_rows: per position the c10.spec result (weight families) or None (menu families: typed run = float64 run).
    Returns True iff a failure was recorded."""
    fn, fam = case["fn"], case["fam"]
    site = f"consistent_{fn}_score"
    got, got_dtype, ref = cons_typed_eval(case)
    tags = {"function": fn, "fam": fam, "fcst_dtype": case["fcst_dtype"], "obs_dtype": case["obs_dtype"]}
    if isinstance(got, Exception):
        ctx.fail("consistent-typed-storage", "property", site, "exception:" + type(got).__name__, case, observed=str(got)[:200],
                 expected="values", tags=tags)
        return True
    if spec_rows is not None:
        key, factor = CONS_SPEC[fn]
        for i, row in enumerate(spec_rows):
            want = factor * core.parse_fl(row[key])
            if not core.close(got[i], want):
                ctx.fail("consistent-typed-storage", "property", site, "typed-value-differs-from-weighted-integral", dict(case, position=i),
                         observed=float(got[i]), expected=S(want), tags=tags, theorem=THEOREM_OF[key].replace("rect", fam[2:]))
                return True
        return False
    rtol, atol = 1e-9, 1e-12
    if got_dtype == "float32" and not isinstance(ref, Exception):
        # float32 data through the CALLER's g / phi gives a float32 result: rounding at 6e-8 of the largest term is numpy's
        # documented behaviour, not modelled; a truncated value is off by O(0.1)
        ctx.tag("consistent-typed:float32-result")
        rtol, atol = 1e-5, 1e-5 * max(1.0, float(np.max(np.abs(ref))))
    if isinstance(ref, Exception) or not all(core.close_ff(u, v, rtol=rtol, atol=atol) for u, v in zip(got, ref)):
        ctx.fail("consistent-typed-storage", "property", site, "storage-dtype-changes-score", case, observed=got.tolist(),
                 expected=str(ref)[:200] if isinstance(ref, Exception) else ref.tolist(), tags=tags)
        return True
    return False


def oracle_consistent_dtypes(ctx, boost):
    """consistent_* on typed storage: with g / phi / phi' of a rectangular or trapezoidal weight with NON-integer end points the
    value is the Lean Spec integral (x 1, 2, 2); with the menu families the value equals that of the same values in float64"""
    rng = ctx.rng
    gm, pm = menu_funcs()
    todo, ops = [], []
    for it in range(ctx.n(30, 300) * (3 if boost else 1)):
        fn = rng.choice(["quantile", "expectile", "huber"])
        fdt, odt = DTYPE_PAIRS[it % len(DTYPE_PAIRS)]
        p = rng.choice(HUBERS) if fn == "huber" else rng.choice(ALPHAS)
        n = rng.randint(2, 6)
        narrow = "int8" in (fdt, odt)
        if rng.random() < 0.6:
            fam = rng.choice(["w-rect", "w-trap"])
            # distinct integers + 0 / 1/4 / 1/2: strictly increasing, mostly not integers
            ends = [v + rng.choice([0.0, 0.25, 0.5, 0.5]) for v in draw_sorted(rng, 2 if fam == "w-rect" else 4, lo=-3, hi=6, den=1)]
            pool = ends
        else:
            fams = list(gm if fn == "quantile" else pm)
            if narrow or "int16" in (fdt, odt):
                fams = [f for f in fams if f != "quart"]      # the CALLER's x**4 / 4*x**3 in int8 / int16 is the caller's business
            fam, ends, pool = rng.choice(fams), None, []
        lim = 3 if (narrow and ends is None) else (6 if ends is None else None)
        def val(dt):
            if lim is None:
                return typed_value(rng, dt, pool)
            return float(rng.randint(-lim, lim)) if is_int_dtype(dt) else rng.randint(-4 * lim, 4 * lim) / 4
        fc = [val(fdt) for _ in range(n)]
        ob = [fc[i] if (rng.random() < 0.25 and (not is_int_dtype(odt) or fc[i] == round(fc[i]))) else val(odt) for i in range(n)]
        case = {"fn": fn, "fam": fam, "fcst": fc, "obs": ob, "param": p, "fcst_dtype": fdt, "obs_dtype": odt}
        if ends is not None:
            case["ends"] = [S(v) for v in ends]
            for x, y in zip(fc, ob):
                ops.append({"op": "c10.spec", "args": {"shape": fam[2:], "ends": case["ends"], "x": S(x), "y": S(y),
                                                       "alpha": S(p if fn != "huber" else 0.5), "huber": S(p if fn == "huber" else 1.0)}})
        todo.append(case)
    res = core.run_driver("C10spec", ops)
    k = 0
    for case in todo:
        rows = None
        if "ends" in case:
            rows = res[k:k + len(case["fcst"])]; k += len(case["fcst"])
        ctx.case("consistent-typed-storage", case)
        ctx.tag(f"consistent-storage:{case['fcst_dtype']}/{case['obs_dtype']}")
        ctx.tag("consistent-typed:" + case["fn"] + ":" + ("weight" if rows is not None else "menu"))
        cons_typed_check(ctx, case, rows)


# ---- values at the edge of a narrow integer dtype (candidate defect, notes/C10.md "O3"): the library evaluates `2 * x**2`
# (_phi_j_trap), the stand-ins `data max + 1` / `data min - 1` of the trapezoidal branch and `obs - fcst` / `fcst - obs`
# (consistent_expectile_score / consistent_huber_score) in the storage dtype of the data, where they wrap around.
def int_overflow_sites(cfg, fc, ob, dt):
    """per position and function: which of the three integer intermediates leave the dtype `dt` (both arrays stored as dt)"""
    info = np.iinfo(dt)
    fits = lambda v: info.min <= v <= info.max
    ends = broadcast_ends(cfg, fc.shape)
    data = [int(v) for v in np.concatenate([fc.ravel(), ob.ravel()])]
    stand_in = cfg["shape"] == "trap" and ((np.any(ends[..., 2] == INF) and max(data) == info.max) or
                                           (np.any(ends[..., 1] == -INF) and min(data) == info.min))
    out = []
    for x, y in zip(fc.ravel(), ob.ravel()):
        x, y = int(x), int(y)
        sq = cfg["shape"] == "trap" and not (fits(2 * x * x) and fits(2 * y * y))
        diff = not (fits(x - y) and fits(y - x))
        out.append({"stand-in": bool(stand_in), "square": bool(sq), "difference": bool(diff)})
    return out


def oracle_int_range(ctx, boost):
    """int8 / int16 / int32 data up to the limits of the dtype; failures at positions where an integer intermediate provably
    leaves the dtype are tagged defect=C10-narrow-int-overflow (candidate finding), every other position must agree"""
    rng = ctx.rng
    cases, metas = [], []
    for it in range(ctx.n(9, 60) * (2 if boost else 1)):
        dt = ["int8", "int16", "int32"][it % 3]
        info = np.iinfo(dt)
        shape = rng.choice(["rect", "trap", "trap"])
        if dt == "int32" and shape == "trap":
            # float64 stays exact next to 2 * 50000**2 only if no `/ 3` term is inexact: ramps of width 3/2, left end finite
            a0, gap = rng.randint(-4, 2) + 0.5, rng.randint(2, 5)
            e = [a0, a0 + 1.5, a0 + 1.5 + gap, a0 + 3.0 + gap] if rng.random() < 0.4 else [a0, a0 + 1.5, INF, INF]
        else:
            e = [v + 0.5 if math.isfinite(v) else v for v in gen_scalar_ends(rng, shape)]
        cfg = {"shape": shape, "ends": e, "dims": [()] * len(e)}
        # int8: the whole range of the dtype.  int16 / int32: beyond the square root of the dtype's range, but small enough for
        # every float64 intermediate (stand-in products, squares, cubes) to stay exact to 1e-9
        menu = {"int8": [info.max, info.max - 1, info.min, info.min + 1, 12, -12, 15, 8, -8],
                "int16": [200, -200, 203, 150, 128, -129], "int32": [50000, -50000, 50003, 40000, 32768, -32769]}[dt] + [0, 1, -2, 3, 5]
        n = rng.randint(2, 4)
        fc = np.array([[float(rng.choice(menu)) for _ in range(n)]])
        ob = np.array([[float(fc[0, i] if rng.random() < 0.15 else rng.choice(menu)) for i in range(n)]])
        cases.append((cfg, fc, ob, rng.choice(ALPHAS), rng.choice(HUBERS)))
        metas.append(dt)
    exp = spec_expected(ctx, cases)
    for (cfg, fc, ob, alpha, huber), e, dt in zip(cases, exp, metas):
        sites = int_overflow_sites(cfg, fc, ob, dt)

        wide = {}

        def tagger(i, fn, sites=sites, args=(fc, ob, cfg, alpha, huber), e=e, wide=wide):
            """the defect tag only where an integer intermediate provably leaves the dtype AND the same values stored as
            int64 give the expected score"""
            hit = [k for k in ("stand-in", "square", "difference") if sites[i][k] and (k == "stand-in" or fn in PHI_FUNCS)]
            if not hit:
                return {}
            if not wide:
                wide.update(impl_all(*args, dtypes=("int64", "int64")))
            w = wide[fn]
            if isinstance(w, Exception) or not core.close(w.ravel()[i], e[fn][i]):
                return {}
            return {"defect": INT_DEFECT, "overflow_sites": "+".join(hit)}
        for st in sites:
            ctx.tag("int-range:" + ("+".join(k for k in st if st[k]) or "inside-dtype"))
        impl = impl_all(fc, ob, cfg, alpha, huber, dtypes=(dt, dt))
        compare_batch(ctx, "narrow-int-dtype-range", "property", cfg, fc, ob, alpha, huber, impl, e, forms_tag="scalar",
                      extra=dtype_extra(cfg, dt, dt), tagger=tagger)


# ------------------------------------------------------------------------------------------------ labelled layouts
# Interval end points given as ARRAYS along a dimension the data LACK ("band": several threshold weights in one call), along
# data dimensions, 2-D (band x data) and mixed with scalars, with the frame of the public functions (default dims,
# reduce_dims / preserve_dims lists, 'all'); forecasts, observations and end-point arrays holding the same coordinate
# labels in different STORED orders and different DIMENSION orders.  Everything is compared BY LABEL with the exact mean
# (Fractions) of the Lean Spec integrals of each band's own end points.
CANON_DIMS = ("s", "k", "band")
DATA_DIMS = ("s", "k")
LAYOUT_MODES = ["default", "reduce-list", "preserve-list", "reduce-all", "preserve-all"]
LAYOUT_END_CLASSES = ["scalar", "band", "data-aligned", "data-conflict"]
LAYOUT_DEFECT = "C10-endpoint-label-order"
LAYOUT_BATCH_BAND = "band-end-points-vs-integral-spec"
LAYOUT_BATCH_ORDER = "label-order-vs-integral-spec"
LABEL_MENU = {"s": [[10, 11, 12], ["a", "b", "c"], [3, 1, 2]], "k": [[0, 1, 2, 3], [7, 3, 5, 4], ["w", "x", "y", "z"]],
              "band": [["lo", "hi", "all"], [0, 1, 2], [5, 2, 9]]}


def fresh(name):
    """an equal but not identical str object (exposes identity comparisons of dimension names)"""
    return "".join(list(name))


def nested_map(f, v):
    return [nested_map(f, u) for u in v] if isinstance(v, list) else f(v)


def lay_array(spec, labels, coords):
    """spec = {"dims": stored dimension order, "values": nested protocol strings in CANONICAL order (dims sorted as s, k, band;
    labels in the order of `labels`), "perm": per dimension the stored order of the labels}; dims == [] is a scalar"""
    vals = nested_map(lambda t: float(core.parse_fl(t)), spec["values"])
    if not spec["dims"]:
        return vals
    cd = [d for d in CANON_DIMS if d in spec["dims"]]
    a = xr.DataArray(np.array(vals, dtype=float), dims=cd, coords={d: list(labels[d]) for d in cd} if coords else None)
    if coords:
        a = a.isel({d: list(spec["perm"][d]) for d in cd})
    return a.transpose(*spec["dims"])


def lay_canon(spec, sizes):
    """values of one array broadcast to the canonical shape (S, K, B)"""
    vals = np.array(nested_map(lambda t: float(core.parse_fl(t)), spec["values"]), dtype=float)
    shp = tuple(sizes[d] if d in spec["dims"] else 1 for d in CANON_DIMS)
    return np.broadcast_to(vals.reshape(shp), tuple(sizes[d] for d in CANON_DIMS))


def lay_sizes(case):
    has_band = any("band" in e["dims"] for e in case["ends"])
    return {"s": len(case["labels"]["s"]), "k": len(case["labels"]["k"]), "band": len(case["labels"]["band"]) if has_band else 1}, has_band


def lay_kwargs(case):
    mode, arg = case["mode"], case.get("dims_arg")
    if mode == "default":
        return {}
    if mode == "reduce-list":
        return {"reduce_dims": [fresh(d) for d in arg]}
    if mode == "preserve-list":
        return {"preserve_dims": [fresh(d) for d in arg]}
    if mode == "reduce-all":
        return {"reduce_dims": fresh("all")}
    return {"preserve_dims": fresh("all")}


def lay_kept(case):
    """the data dimensions the result must keep"""
    mode, arg = case["mode"], case.get("dims_arg")
    if mode in ("default", "reduce-all"):
        return []
    if mode == "reduce-list":
        return [d for d in DATA_DIMS if d not in arg]
    if mode == "preserve-list":
        return [d for d in DATA_DIMS if d in arg]
    return list(DATA_DIMS)


def lay_call(case):
    import scores.continuous as sc
    labels, coords, name = case["labels"], case["coords"], case["function"]
    f, o = lay_array(case["fcst"], labels, coords), lay_array(case["obs"], labels, coords)
    ends = [lay_array(e, labels, coords) for e in case["ends"]]
    one, pos = ((ends[0], ends[1]), None) if case["shape"] == "rect" else ((ends[1], ends[2]), (ends[0], ends[3]))
    args = [f, o]
    if name in ("tw_quantile_score", "tw_expectile_score"):
        args.append(float(Fraction(case["alpha"])))
    if name == "tw_huber_loss":
        args.append(float(Fraction(case["huber"])))
    with np.errstate(all="ignore"):
        return getattr(sc, name)(*args, interval_where_one=one, interval_where_positive=pos, **lay_kwargs(case))


def lay_ops(case):
    """Lean ops of one case: a c10.spec per (s, k, band) and, if some band has weight 1 everywhere, a c10.std per (s, k)"""
    sizes, _ = lay_sizes(case)
    fc, ob = lay_canon(case["fcst"], sizes), lay_canon(case["obs"], sizes)
    ends = np.stack([lay_canon(e, sizes) for e in case["ends"]], axis=-1)
    spec, std = [], []
    for i in range(sizes["s"]):
        for j in range(sizes["k"]):
            for b in range(sizes["band"]):
                spec.append({"op": "c10.spec", "args": {"shape": case["shape"], "ends": [S(v) for v in ends[i, j, b]], "x": S(fc[i, j, b]),
                                                        "y": S(ob[i, j, b]), "alpha": case["alpha"], "huber": case["huber"]}})
            std.append({"op": "c10.std", "args": {"x": S(fc[i, j, 0]), "y": S(ob[i, j, 0]), "alpha": case["alpha"], "huber": case["huber"]}})
    one_bands = [b for b in range(sizes["band"]) if np.all(np.isinf(ends[:, :, b, :]))]
    return spec, (std if one_bands else []), one_bands


def lay_mean(arr, axes):
    """exact mean of an object array of Fractions over the given axes (kept axes stay)"""
    for ax in sorted(axes, reverse=True):
        n = arr.shape[ax]
        arr = np.sum(arr, axis=ax) / Fraction(n)
    return arr


def lay_conflict_dims(case):
    """dimensions carried by at least one end-point ARRAY on which the arrays of the call (forecasts, observations, end points)
    store the same labels in different orders"""
    if not case["coords"]:
        return []
    out = []
    for d in CANON_DIMS:
        if not any(d in e["dims"] for e in case["ends"]):
            continue
        perms = {tuple(a["perm"][d]) for a in [case["fcst"], case["obs"]] + case["ends"] if d in a["dims"]}
        if len(perms) > 1:
            out.append(d)
    return out


def lay_aligned(case):
    """the same labelled values with every dimension that an end-point array carries stored in the order of `labels` by
    every array (other dimensions keep their stored orders)"""
    dims = lay_conflict_dims(case)
    fix = lambda a: dict(a, perm={d: (sorted(p) if d in dims else p) for d, p in a["perm"].items()}) if a["dims"] else a
    return dict(case, fcst=fix(case["fcst"]), obs=fix(case["obs"]), ends=[fix(e) for e in case["ends"]])


def lay_check(ctx, batch, case, spec_rows, std_rows, one_bands, defect_tag=True):
    """True iff a failure was recorded.  Expected: result dims = kept data dims (+ band); per label the exact mean over the
    reduced data dimensions of the Lean integrals for that band's end points; a weight-1 band = mean unweighted score."""
    name = case["function"]
    sizes, has_band = lay_sizes(case)
    shp = (sizes["s"], sizes["k"], sizes["band"])
    E = np.empty(shp, dtype=object)
    E.ravel()[:] = [core.parse_fl(r[name]) for r in spec_rows]
    kept = lay_kept(case)
    red = [DATA_DIMS.index(d) for d in DATA_DIMS if d not in kept]
    exp = np.asarray(lay_mean(E, red), dtype=object)          # shape: kept data dims + (B,)
    if not has_band:
        exp = exp[..., 0]
    exp_dims = kept + (["band"] if has_band else [])
    tags = {"function": name, "shape": case["shape"], "mode": case["mode"], "class": case["class"],
            "band": "yes" if has_band else "no", "coords": "yes" if case["coords"] else "no"}
    theorem = THEOREM_OF[name].replace("rect", case["shape"])
    try:
        res = lay_call(case)
    except Exception as ex:  # noqa: BLE001
        t = dict(tags)
        if defect_tag and isinstance(ex, ValueError) and "join='exact'" in str(ex) and lay_conflict_dims(case):
            # candidate defect (notes/C10.md O4) only if the same labelled values, with the end-point dimensions stored in one
            # common order, give no failure at all
            sub = core.Ctx("C10", "quick", 0)
            if not lay_check(sub, batch, lay_aligned(case), spec_rows, std_rows, one_bands, defect_tag=False):
                t.update({"defect": LAYOUT_DEFECT, "conflict_dims": "+".join(lay_conflict_dims(case))})
        ctx.fail(batch, "property", name, "exception:" + type(ex).__name__, case, observed=f"{type(ex).__name__}: {ex}"[:200],
                 expected="values by label", tags=t)
        return True
    if set(res.dims) != set(exp_dims):
        ctx.fail(batch, "property", name, "result-dims", case,
                 observed={"dims": list(res.dims), "values": np.asarray(res.values, dtype=float).tolist()},
                 expected={"dims": exp_dims, "values (labels in the order of `labels`)": nested_map(S, exp.tolist())}, tags=tags, theorem=theorem)
        return True
    try:
        r = res.sel({d: list(case["labels"][d]) for d in exp_dims}) if case["coords"] else res
        got = np.asarray(r.transpose(*exp_dims).values, dtype=float)
    except Exception as ex:  # noqa: BLE001
        ctx.fail(batch, "property", name, "result-labels", case, observed=f"{type(ex).__name__}: {ex}"[:200],
                 expected={d: case["labels"][d] for d in exp_dims}, tags=tags)
        return True
    if got.shape != np.shape(exp):
        ctx.fail(batch, "property", name, "result-shape", case, observed=list(got.shape), expected=list(np.shape(exp)), tags=tags)
        return True
    for idx in np.ndindex(*got.shape):
        if not core.close(got[idx], exp[idx]):
            where = {d: case["labels"][d][i] for d, i in zip(exp_dims, idx)}
            ctx.fail(batch, "property", name, "value", case, observed={"at": where, "value": float(got[idx])},
                     expected={"at": where, "value": S(exp[idx])}, tags=tags, theorem=theorem)
            return True
    if one_bands and std_rows:
        U = np.empty(shp[:2], dtype=object)
        U.ravel()[:] = [core.parse_fl(r[name]) for r in std_rows]
        ustd = np.asarray(lay_mean(U, red), dtype=object)
        for b in one_bands:
            gb = got[..., b] if has_band else got
            for idx in np.ndindex(*gb.shape):
                if not core.close(gb[idx], ustd[idx]):
                    where = dict({d: case["labels"][d][i] for d, i in zip(kept, idx)}, band=case["labels"]["band"][b] if has_band else "-")
                    ctx.fail(batch, "property", name, "weight-one-band-differs-from-unweighted", case,
                             observed={"at": where, "value": float(gb[idx])},
                             expected={"at": where, "value": S(ustd[idx])}, tags=tags,
                             theorem="weight_one_" + name)
                    return True
    return False


def lay_perm(rng, n, nonid=False):
    p = list(range(n))
    if n < 2:
        return p
    for _ in range(8):
        rng.shuffle(p)
        if not nonid or p != sorted(p):
            break
    if nonid and p == sorted(p):
        p = p[1:] + p[:1]
    return p


def gen_layout_ends(rng, shape, forms, sizes):
    """forms: per end point the CANONICAL dims of the array ([] = scalar).  Values: increasing at every (s, k, band), finite
    values multiples of 1/2; -inf / +inf on a whole band (both end points of a trapezoid side together) or as scalars;
    if every end point varies with band, often one band with weight 1 everywhere.  Returns canonical nested lists."""
    n = len(forms)
    Bn = sizes["band"]
    all_band = all("band" in f for f in forms)
    if all_band:       # an independent weight per band
        base = [[2.0 * v for v in draw_sorted(rng, n, lo=-3, hi=5, den=1)] for _ in range(Bn)]
    else:              # common end points 4 apart; the band-dependent ones moved by at most 1
        common = [4.0 * v for v in draw_sorted(rng, n, lo=-2, hi=3, den=1)]
        base = [[common[i] + (rng.choice([-1.0, -0.5, 0.0, 0.5, 1.0]) if "band" in forms[i] else 0.0) for i in range(n)]
                for _ in range(Bn)]
    sides = [([0], -INF), ([1], INF)] if shape == "rect" else [([0, 1], -INF), ([2, 3], INF)]
    for cols, val in sides:
        if all("band" in forms[i] for i in cols):
            for b in range(Bn):
                if rng.random() < 0.3:
                    for i in cols:
                        base[b][i] = val
        elif all(not forms[i] for i in cols) and rng.random() < 0.25:
            for b in range(Bn):
                for i in cols:
                    base[b][i] = val
    if all_band and rng.random() < 0.6:
        b = rng.randrange(Bn)
        base[b] = [-INF] * (n // 2) + [INF] * (n // 2)
    out = []
    for i, f in enumerate(forms):
        if not f:
            out.append(base[0][i])
            continue
        shp = tuple(sizes[d] for d in f)
        arr = np.empty(shp, dtype=float)
        for idx in np.ndindex(*shp):
            b = idx[f.index("band")] if "band" in f else 0
            pert = rng.choice([0.0, 0.5, -0.5]) if any(d in DATA_DIMS for d in f) else 0.0
            arr[idx] = base[b][i] + pert            # inf + pert = inf
        out.append(arr.tolist())
    return out


def gen_layout_case(rng, name, mode, profile, end_class=None):
    """profile "band": at least one end point varies with band; stored orders never conflict on a dimension an end-point array
    carries.  profile "order": forecasts and observations store their labels in DIFFERENT orders; end points by class
    (scalar / band arrays / data-dimension arrays in the common order / data-dimension arrays in their own order)."""
    shape = rng.choice(["rect", "trap"])
    n = 2 if shape == "rect" else 4
    Sn, Kn = rng.choice([(2, 3), (3, 2), (2, 2), (2, 4), (3, 3)] + ([(1, 3), (2, 1)] if profile == "band" else []))
    Bn = rng.choice([2, 3])
    coords = True if profile == "order" else rng.random() < 0.8
    sizes = {"s": Sn, "k": Kn, "band": Bn}
    labels = {d: rng.choice(LABEL_MENU[d])[:sizes[d]] for d in CANON_DIMS}
    dsub = lambda: rng.choice([["s"], ["k"], ["s", "k"]])
    if profile == "band":
        kind = rng.choice(["all-band", "band+scalar", "band+data", "band-x-data", "all-band"])
        if kind == "all-band":
            forms = [["band"]] * n
        elif kind == "band+scalar":
            forms = [["band"] if rng.random() < 0.5 else [] for _ in range(n)]
        elif kind == "band+data":
            forms = [rng.choice([["band"], dsub(), []]) for _ in range(n)]
        else:
            forms = [rng.choice([dsub() + ["band"], ["band"], dsub() + ["band"]]) for _ in range(n)]
        if not any("band" in f for f in forms):
            forms[rng.randrange(n)] = ["band"]
        end_class = kind
    else:
        if end_class == "scalar":
            forms = [[]] * n
        elif end_class == "band":
            forms = [["band"] if rng.random() < 0.7 else [] for _ in range(n)]
            forms[rng.randrange(n)] = ["band"]
        else:
            # data-dimension arrays along ONE data dimension; forecasts / observations differ on the other one
            d = rng.choice(DATA_DIMS)
            forms = [rng.choice([[d], [d], [d, "band"] if d == "k" else [d], []]) for _ in range(n)]
            forms[rng.randrange(n)] = [d]
    forms = [[d for d in CANON_DIMS if d in f] for f in forms]
    ends_v = gen_layout_ends(rng, shape, forms, sizes)
    pool = [float(v) for e in ends_v for v in np.ravel(np.array(e, dtype=float)) if math.isfinite(v)]
    huber = rng.choice(HUBERS)
    fc, ob = gen_data(rng, {"ends": [], "dims": []}, Sn, Kn, nan_p=0.0, extra=pool + [v + s * huber for v in pool[:2] for s in (-1, 1)])
    # ---- stored orders
    end_dims = {d for f in forms for d in f}
    common = {d: lay_perm(rng, sizes[d]) for d in CANON_DIMS}
    def perms_for(dims, who):
        out = {}
        for d in dims:
            if not coords:
                out[d] = list(range(sizes[d]))
            elif profile == "band":
                # free only on dimensions no end-point array carries
                out[d] = common[d] if (d in end_dims or rng.random() < 0.5) else lay_perm(rng, sizes[d])
            elif who == "end":
                out[d] = lay_perm(rng, sizes[d], nonid=True) if (end_class == "data-conflict" and rng.random() < 0.7) else common[d]
            elif d in end_dims and end_class != "data-conflict":
                out[d] = common[d]
            else:
                out[d] = common[d] if who == "fcst" else lay_perm_other(rng, common[d])
        return out
    def stored(dims):
        dims = list(dims)
        rng.shuffle(dims)
        return dims
    arr = lambda vals, dims, who: {"dims": stored(dims), "values": nested_map(S, vals), "perm": perms_for(dims, who)}
    case = {"layout": 1, "function": name, "shape": shape, "alpha": S(rng.choice(ALPHAS)), "huber": S(huber), "coords": coords,
            "labels": labels, "class": end_class, "profile": profile,
            "fcst": arr(fc.tolist(), DATA_DIMS, "fcst"), "obs": arr(ob.tolist(), DATA_DIMS, "obs"),
            "ends": [arr(v, f, "end") if f else {"dims": [], "values": S(v)} for v, f in zip(ends_v, forms)], "mode": mode}
    if mode == "reduce-list":
        case["dims_arg"] = rng.choice([["s"], ["k"], ["k", "s"], ["s", "k"]])
    elif mode == "preserve-list":
        case["dims_arg"] = rng.choice([["s"], ["k"], ["k", "s"]])
    return case


def lay_perm_other(rng, p):
    """a stored order different from p (if there are at least two labels)"""
    q = list(p)
    if len(q) < 2:
        return q
    for _ in range(8):
        rng.shuffle(q)
        if q != list(p):
            return q
    return q[1:] + q[:1]


def oracle_layout(ctx, boost):
    """(a) band / data-dimension / 2-D / mixed end-point arrays x every tw_* function x every way of naming the dimensions to
    keep; (b) forecasts, observations and end-point arrays with the same labels in different stored orders and different
    dimension orders.  Stratified: every (function, mode) and every (function, end-point class) occurs in every run."""
    rng = ctx.rng
    rounds = ctx.n(1, 6) * (3 if boost else 1)
    todo = []
    for _ in range(rounds):
        offset = rng.randrange(3)
        for name in FUNCS:
            for mode in LAYOUT_MODES:
                todo.append((LAYOUT_BATCH_BAND, gen_layout_case(rng, name, mode, "band")))
            classes = list(LAYOUT_END_CLASSES)
            if not (ctx.thorough or boost):      # quick: scalar end points always, two of the three array classes (rotating)
                classes.remove(LAYOUT_END_CLASSES[1 + (FUNCS.index(name) + offset) % 3])
            for cls in classes:
                mode = "preserve-all" if rng.random() < 0.6 else rng.choice(LAYOUT_MODES)
                todo.append((LAYOUT_BATCH_ORDER, gen_layout_case(rng, name, mode, "order", cls)))
    ops, cuts = [], []
    for _, case in todo:
        spec, std, one_bands = lay_ops(case)
        cuts.append((len(spec), len(std), one_bands))
        ops += spec + std
    res = core.run_driver("C10spec", ops)
    k = 0
    for (batch, case), (ns, nu, one_bands) in zip(todo, cuts):
        spec_rows, std_rows = res[k:k + ns], res[k + ns:k + ns + nu]
        k += ns + nu
        sizes, has_band = lay_sizes(case)
        ctx.case(batch, case)
        ctx.tag(f"layout:{case['profile']}:{case['class']}")
        ctx.tag("layout-mode:" + case["mode"])
        if has_band:
            ctx.tag("layout:band-dimension" + ("+weight-one-band" if one_bands else ""))
        if lay_conflict_dims(case):
            ctx.tag("layout:end-point-label-order-conflict")
        if case["coords"] and any(case["fcst"]["perm"][d] != case["obs"]["perm"][d] for d in DATA_DIMS):
            ctx.tag("layout:fcst-obs-different-stored-order")
        if case["fcst"]["dims"] != case["obs"]["dims"]:
            ctx.tag("layout:fcst-obs-different-dim-order")
        lay_check(ctx, batch, case, spec_rows, std_rows, one_bands)


def replay_layout(case):
    spec, std, one_bands = lay_ops(case)
    res = core.run_driver("C10spec", spec + std)
    ctx2 = core.Ctx("C10", "quick", 0)
    lay_check(ctx2, "replay", case, res[:len(spec)], res[len(spec):], one_bands)
    # a failure of the listed candidate defect class alone is not a violation of the replayed input
    return any(f["tags"].get("defect") != LAYOUT_DEFECT for f in ctx2.failures)


# ------------------------------------------------------------------------------------------------ weights=
# The documented option `weights=` of the five tw_* functions: every pointwise score (the integral of threshold weight x
# elementary score) is multiplied by the supplied weight BEFORE the mean over the reduced dimensions; a weights array
# with a dimension the data lack ("w": several weightings at once) adds that dimension to the result.  Expected value,
# independent of the library: per (s, k[, w]) the Lean Spec integral x the weight, exact mean (Fractions) over the
# reduced data dimensions.  apply_weights itself (NaN / negative weights) belongs to C03: weights here are finite, >= 0.
WT_BATCH = "weights-option-vs-integral-spec"
WT_DIMS = ("s", "k", "w")
WT_FORMS = [["s"], ["k"], ["s", "k"], ["k", "s"], ["w"], ["k", "w"], ["w", "s"], ["s", "k", "w"]]
WT_VALUES = [0.0, 0.25, 0.5, 1.0, 1.5, 2.0, 3.0]


def gen_weights_case(rng, name, mode):
    shape = rng.choice(["rect", "trap"])
    Sn, Kn = rng.choice([(2, 3), (3, 2), (2, 2), (1, 3), (3, 1), (3, 3)])
    Wn = 2
    cfg = gen_cfg(rng, shape, Sn, Kn)
    if rng.random() < 0.15:     # weight 1 everywhere: the weighted standard score
        n = len(cfg["ends"])
        cfg = {"shape": shape, "ends": [-INF] * (n // 2) + [INF] * (n // 2), "dims": [()] * n}
    huber = rng.choice(HUBERS)
    fc, ob = gen_data(rng, cfg, Sn, Kn, nan_p=0.0, extra=[v + s * huber for v in finite_ends(cfg)[:2] for s in (-1, 1)])
    dims = list(rng.choice(WT_FORMS))
    shp = tuple({"s": Sn, "k": Kn, "w": Wn}[d] for d in dims)
    vals = np.array([rng.choice(WT_VALUES) for _ in range(int(np.prod(shp)))], dtype=float)
    if np.all(vals == vals[0]):          # never a constant weighting (a constant 1 is the absence of weights)
        vals[rng.randrange(len(vals))] = vals[0] + 0.5
        if len(vals) == 1:
            vals[0] = rng.choice([0.25, 0.5, 2.0, 3.0])
    case = {"weights_case": 1, "function": name, "cfg": dict(cfg, dims=[list(d) for d in cfg["dims"]]),
            "fcst": fc.tolist(), "obs": ob.tolist(), "alpha": rng.choice(ALPHAS), "huber": huber,
            "weights": {"dims": dims, "values": vals.reshape(shp).tolist()}, "mode": mode}
    if mode == "reduce-list":
        case["dims_arg"] = rng.choice([["s"], ["k"], ["k", "s"], ["s", "k"]])
    elif mode == "preserve-list":
        case["dims_arg"] = rng.choice([["s"], ["k"], ["k", "s"]])
    return case


def wt_cfg(case):
    cfg = dict(case["cfg"])
    cfg["dims"] = [tuple(d) for d in cfg["dims"]]
    cfg["ends"] = [e if isinstance(e, list) else float(core.parse_fl(e) if isinstance(e, str) else e) for e in cfg["ends"]]
    return cfg


def wt_canon(case, shape):
    """the weights broadcast to (S, K, W) (W = 1 if the weights have no dimension of their own), as exact Fractions"""
    w = case["weights"]
    a = np.array(w["values"], dtype=float)
    cd = [d for d in WT_DIMS if d in w["dims"]]
    a = np.transpose(a, [w["dims"].index(d) for d in cd])
    sizes = {"s": shape[0], "k": shape[1], "w": a.shape[cd.index("w")] if "w" in cd else 1}
    a = np.broadcast_to(a.reshape(tuple(sizes[d] if d in cd else 1 for d in WT_DIMS)), tuple(sizes[d] for d in WT_DIMS))
    out = np.empty(a.shape, dtype=object)
    out.ravel()[:] = [Fraction(float(v)) for v in a.ravel()]
    return out, "w" in cd


def wt_call(case, with_weights=True):
    import scores.continuous as sc
    cfg = wt_cfg(case)
    name = case["function"]
    one, pos = tw_args(cfg)
    args = [da(case["fcst"]), da(case["obs"])]
    if name in ("tw_quantile_score", "tw_expectile_score"):
        args.append(float(case["alpha"]))
    if name == "tw_huber_loss":
        args.append(float(case["huber"]))
    kw = lay_kwargs(case)
    if with_weights:
        kw["weights"] = xr.DataArray(np.array(case["weights"]["values"], dtype=float), dims=[fresh(d) for d in case["weights"]["dims"]])
    with np.errstate(all="ignore"):
        return getattr(sc, name)(*args, interval_where_one=one, interval_where_positive=pos, **kw)


def wt_spec_ops(case):
    cfg = wt_cfg(case)
    return [op for op in spec_ops(case["fcst"], case["obs"], cfg, float(case["alpha"]), float(case["huber"]))]


def wt_check(ctx, batch, case, spec_rows):
    """True iff a failure was recorded"""
    name = case["function"]
    fc = np.asarray(case["fcst"], dtype=float)
    E = np.empty(fc.shape, dtype=object)
    E.ravel()[:] = [core.parse_fl(r[name]) for r in spec_rows]
    W, has_w = wt_canon(case, fc.shape)
    kept = lay_kept(case)
    red = [DATA_DIMS.index(d) for d in DATA_DIMS if d not in kept]
    exp = np.asarray(lay_mean(E[:, :, None] * W, red), dtype=object)
    if not has_w:
        exp = exp[..., 0]
    exp_dims = kept + (["w"] if has_w else [])
    cfg = wt_cfg(case)
    tags = {"function": name, "shape": cfg["shape"], "mode": case["mode"], "option": "weights",
            "weights_dims": "+".join(case["weights"]["dims"]), "ends": forms_of(cfg)}
    theorem = THEOREM_OF[name].replace("rect", cfg["shape"])
    try:
        res = wt_call(case)
    except Exception as ex:  # noqa: BLE001
        ctx.fail(batch, "property", name, "exception:" + type(ex).__name__, case, observed=f"{type(ex).__name__}: {ex}"[:200],
                 expected="values", tags=tags)
        return True
    if set(res.dims) != set(exp_dims):
        ctx.fail(batch, "property", name, "weighted-result-dims", case,
                 observed={"dims": list(res.dims), "values": np.asarray(res.values, dtype=float).tolist()},
                 expected={"dims": exp_dims, "values": nested_map(S, exp.tolist())}, tags=tags, theorem=theorem)
        return True
    got = np.asarray(res.transpose(*exp_dims).values, dtype=float)
    if got.shape != np.shape(exp):
        ctx.fail(batch, "property", name, "weighted-result-shape", case, observed=list(got.shape), expected=list(np.shape(exp)), tags=tags)
        return True
    for idx in np.ndindex(*got.shape):
        if not core.close(got[idx], exp[idx]):
            where = dict(zip(exp_dims, idx))
            ctx.fail(batch, "property", name, "weighted-score-differs-from-weight-times-integral", case,
                     observed={"at": where, "value": float(got[idx])}, expected={"at": where, "value": S(exp[idx])}, tags=tags,
                     theorem=theorem)
            return True
    return False


def oracle_weights(ctx, boost):
    """tw_*(..., weights=W) = mean over the reduced dimensions of W x (Lean Spec integral), for every function x every way of
    naming the kept dimensions in every run; weights along s, k, both (either dimension order) or an own dimension"""
    rng = ctx.rng
    todo = []
    for _ in range(ctx.n(2, 12) * (3 if boost else 1)):
        for name in FUNCS:
            for mode in LAYOUT_MODES:
                todo.append(gen_weights_case(rng, name, mode))
    ops, cuts = [], []
    for case in todo:
        o = wt_spec_ops(case)
        cuts.append(len(o))
        ops += o
    res = core.run_driver("C10spec", ops)
    k = 0
    for case, n in zip(todo, cuts):
        rows = res[k:k + n]; k += n
        ctx.case(WT_BATCH, case)
        ctx.tag("weights-option:" + "+".join(case["weights"]["dims"]))
        ctx.tag("weights-mode:" + case["mode"])
        wt_check(ctx, WT_BATCH, case, rows)


def replay_weights(case):
    ctx2 = core.Ctx("C10", "quick", 0)
    rows = core.run_driver("C10spec", wt_spec_ops(case))
    return wt_check(ctx2, "replay", case, rows)


def oracle(ctx, boost):
    oracle_integral(ctx, boost)
    oracle_murphy(ctx, boost)
    oracle_relations(ctx, boost)
    oracle_consistent(ctx, boost)
    oracle_mixed(ctx)
    oracle_dtypes(ctx, boost)
    oracle_consistent_dtypes(ctx, boost)
    oracle_int_range(ctx, boost)
    oracle_layout(ctx, boost)
    oracle_weights(ctx, boost)


# ------------------------------------------------------------------------------------------------ replay
def replay(ctx, payload):
    case = payload.get("case") or {}
    sig = payload.get("signature", "")
    ctx2 = core.Ctx("C10", "quick", 0)
    if case.get("layout"):      # labelled layouts / band end points
        return replay_layout(case)
    if case.get("weights_case"):      # the weights= option
        return replay_weights(case)
    if "x" in case and "ends" in case and "shape" in case:
        ends = [float(core.parse_fl(s)) for s in case["ends"]]
        cfg = {"shape": case["shape"], "ends": ends, "dims": [()] * len(ends), "int_forms": bool(case.get("int_forms", False))}
        x, y = float(Fraction(case["x"])), float(Fraction(case["y"]))
        alpha, huber = float(Fraction(case["alpha"])), float(Fraction(case["huber"]))
        fc, ob = [[x]], [[y]]
        dts = (case["fcst_dtype"], case["obs_dtype"]) if "fcst_dtype" in case else None      # storage dtypes of the data
        impl = impl_all(fc, ob, cfg, alpha, huber, dtypes=dts)
        if sig == "weight-one-differs-from-standard-score":
            r = core.run_driver("C10spec", [{"op": "c10.std", "args": {"x": S(x), "y": S(y), "alpha": S(alpha), "huber": S(huber)}}])[0]
            exp = {n: [r[n]] for n in FUNCS}
        else:
            exp = spec_expected(ctx2, [(cfg, np.array(fc), np.array(ob), alpha, huber)])[0]
        compare_batch(ctx2, "replay", "property", cfg, fc, ob, alpha, huber, impl, exp)
        site = payload.get("site")
        return any(f["site"] == site for f in ctx2.failures) if site in FUNCS else bool(ctx2.failures)
    if "cfg" in case and "fcst" in case:
        cfg = case["cfg"]
        cfg["dims"] = [tuple(d) for d in cfg["dims"]]
        cfg["ends"] = [e if isinstance(e, list) else float(core.parse_fl(e) if isinstance(e, str) else e) for e in cfg["ends"]]
        fc, ob = np.array(case["fcst"], dtype=float), np.array(case["obs"], dtype=float)
        alpha, huber = float(case["alpha"]), float(case["huber"])
        dts = (case["fcst_dtype"], case["obs_dtype"]) if "fcst_dtype" in case else None
        if case.get("int_forms"):
            cfg["int_forms"] = True
        impl = impl_all(fc, ob, cfg, alpha, huber, dtypes=dts)
        if sig.startswith("exception:"):
            return any(isinstance(v, Exception) for v in impl.values())
        if sig.startswith("missing-"):
            return not all(isinstance(v, Exception) for v in impl.values())
        mask = np.isnan(fc) | np.isnan(ob)
        exp = spec_expected(ctx2, [(cfg, np.where(mask, 0.0, fc), np.where(mask, 0.0, ob), alpha, huber)])[0]
        compare_batch(ctx2, "replay", "property", cfg, np.where(mask, 0.0, fc), np.where(mask, 0.0, ob), alpha, huber,
                      impl_all(np.where(mask, 0.0, fc), np.where(mask, 0.0, ob), cfg, alpha, huber, dtypes=dts), exp)
        return bool(ctx2.failures)
    if "a" in case and "fcst" in case:      # relation batches: rerun the relations on this one batch
        fc, ob = np.array(case["fcst"], dtype=float), np.array(case["obs"], dtype=float)
        a, b, c, d = (float(case[k]) for k in "abcd")
        alpha, huber = float(case["alpha"]), float(case["huber"])
        sc = lambda e: {"shape": "rect" if len(e) == 2 else "trap", "ends": e, "dims": [()] * len(e)}
        one = impl_all(fc, ob, sc([-INF, INF]), alpha, huber)
        parts = {"half": [impl_all(fc, ob, sc([-INF, b]), alpha, huber), impl_all(fc, ob, sc([b, INF]), alpha, huber)],
                 "trap": [impl_all(fc, ob, sc([-INF, -INF, a, b]), alpha, huber), impl_all(fc, ob, sc([a, b, c, d]), alpha, huber),
                          impl_all(fc, ob, sc([c, d, INF, INF]), alpha, huber)]}
        for nme in FUNCS:
            for ps in parts.values():
                vs = [p[nme] for p in ps] + [one[nme]]
                if any(isinstance(v, Exception) for v in vs):
                    return True
                if not np.allclose(sum(vs[:-1]), vs[-1], rtol=1e-9, atol=1e-10):
                    return True
                for v in vs[:-1]:
                    if np.any(v < -1e-9) or np.any(np.abs(v[fc == ob]) > 1e-9):
                        return True
        return False
    if "fn" in case and "fam" in case and "fcst_dtype" in case:      # consistent_* on typed storage
        case = {k: v for k, v in case.items() if k != "position"}
        rows = None
        if "ends" in case:
            fn, p = case["fn"], float(case["param"])
            rows = core.run_driver("C10spec", [{"op": "c10.spec", "args": {
                "shape": case["fam"][2:], "ends": case["ends"], "x": S(x), "y": S(y), "alpha": S(p if fn != "huber" else 0.5),
                "huber": S(p if fn == "huber" else 1.0)}} for x, y in zip(case["fcst"], case["obs"])])
        return cons_typed_check(ctx2, case, rows)
    if "fn" in case and "fam" in case:
        import scores.continuous as scc
        gm, pm = menu_funcs()
        f, o = xr.DataArray(np.array(case["fcst"], dtype=float), dims=["k"]), xr.DataArray(np.array(case["obs"], dtype=float), dims=["k"])
        fn, fam, p = case["fn"], case["fam"], float(case["param"])
        try:
            if fn == "quantile":
                r = scc.consistent_quantile_score(f, o, p, gm[fam], preserve_dims="all")
            elif fn == "expectile":
                r = scc.consistent_expectile_score(f, o, p, pm[fam][0], pm[fam][1], preserve_dims="all")
            else:
                r = scc.consistent_huber_score(f, o, p, pm[fam][0], pm[fam][1], preserve_dims="all")
        except Exception:  # noqa: BLE001
            return True
        v = np.asarray(r.values, dtype=float)
        return bool(np.any(v < -1e-9) or np.any(np.abs(v[f.values == o.values]) > 1e-9))
    return True
