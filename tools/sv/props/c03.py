"""C03 — weights act as a pointwise multiplier of per-case scores before averaging."""
from __future__ import annotations

import numpy as np
import xarray as xr

from sv import core
from sv import registry as R
from sv.props import c01

PROPERTY = "C03"
GEN = ["Frames", "Point"]
PROPS = ["ScoresVerif/Props/C03.lean", "ScoresVerif/Props/C03Frames.lean", "ScoresVerif/Props/C03Gen.lean", "ScoresVerif/Props/C03Arr.lean"]
DRIVER_DEPS = ["ScoresVerif.Driver.C01"]
LEVEL = "proof"
TRUSTED = ["xarray broadcasting by dimension name as modelled by SV.Arr.zipWith (tied by the correspondence)"]
ASSUMPTIONS = ["weights are finite, non-negative (NaN allowed), with the same coordinate labels as the data"]
RULE = ("every weight-accepting registry function x generated weights on sub-/supersets of the data dims (zeros, NaN) x every "
        "request spelling; distinct = distinct (function, inputs, weights, request); non-trivial = a finite result")
MANIFEST = dict(
    level="proof",
    text="Lean theorems for lists of any length: unit weights are the identity, preserve-all with weights is w times the "
         "unweighted value, the NaN-skipping mean of weighted per-case scores is additive in the weights and homogeneous in a "
         "constant factor, and a positive constant weight cancels in every sum ratio including all zero-denominator cases. "
         "With NaN weights: the mean runs over exactly the cases having both a score and a weight (a zero weight stays in the "
         "denominator), additivity holds for equal NaN masks and provably fails otherwise, homogeneity always. The same laws are "
         "stated on the regenerated apply_weights helper (Gen/Point: it is the plain product, nothing else), and on labelled "
         "arrays with weights broadcast by name: product at the same label before the mean, a weight without a reduced dim "
         "factors out when finite non-zero (any finite weight for finite per-case values; not for 0 x inf), additivity and "
         "homogeneity for weights on any dims, unit weights are the identity. "
         "Every weight-accepting public score is tied to that form by comparing it with the Lean evaluation of "
         "nan-mean over R of (its own unweighted pointwise output x weights, broadcast by name), and the laws are also checked "
         "directly as relations between implementation runs (w1+w2, c*w, unit weights, ratio invariance).",
    note="The per-score kernels are not re-derived here (C05–C13). xarray's broadcasting and reductions are modelled, tied by "
         "the correspondence. rmse is checked through its square.",
    technique="Lean 4 theorems on weighted NaN-skipping means + differential correspondence and relational checks over a function registry",
    design="6/C03")

RATIO = {"multiplicative_bias", "pbias", "probability_of_detection", "probability_of_false_detection", "roc_curve_data"}


def wcase(rng, e, nan_w=False, superset=False):
    case = R.gen_case(rng, e, with_weights=True, nan_p=(0.1 if rng.random() < 0.4 else 0.0),
                      weight_nan_p=(0.2 if nan_w else 0.0))
    w = case.weights
    if rng.random() < 0.3:    # zeros are legitimate weights
        vals = np.asarray(w.values).copy()
        flat = vals.ravel()
        flat[rng.randrange(len(flat))] = 0.0
        w = w.copy(data=flat.reshape(vals.shape))
        case.weights = w
    return case


def like(w, rng, same_nan=True):
    vals = np.asarray(w.values, dtype=float)
    new = np.array([rng.randint(0, 24) / 4 for _ in range(vals.size)]).reshape(vals.shape)
    if same_nan:
        new = np.where(np.isnan(vals), np.nan, new)
    return w.copy(data=new)


def requests(rng, case, e):
    data = sorted(set(case.fcst_dims) | set(case.obs_dims))
    reqs = [{}, {"preserve_dims": "all"}]
    if data:
        k = rng.randint(0, len(data))
        sub = rng.sample(data, k)
        reqs.append({"reduce_dims": sub})
        reqs.append({"preserve_dims": sub})
    return reqs


def out_close(a, b, scale=None, square=False, rtol=None):
    for var in a:
        if var not in b:
            return False
        x, y = a[var], b[var]
        if set(x.dims) != set(y.dims):
            return False
        d1, s1, v1 = R.to_labelled(x)
        d2, s2, v2 = R.to_labelled(y)
        if s1 != s2:
            return False
        for p, q in zip(v1, v2):
            if square:
                p, q = p * p, q * q
            if scale is not None:
                q = q * scale
            if rtol is not None:
                # float32 storage: the library computes in float32 (rounding ~1e-7 relative) — rounding is not modelled
                if (p != p) != (q != q) or (p == p and abs(p - q) > rtol * max(1.0, abs(p), abs(q))):
                    return False
            elif not core.close_ff(p, q):
                return False
    return True


def add_out(a, b):
    return {var: a[var] + b[var] for var in a}


def relations(ctx, ncases):
    rng = ctx.rng
    for e in R.REGISTRY:
        if not e.weights:
            continue
        for ci in range(ncases):
            case = wcase(rng, e, nan_w=(ci % 3 == 2))
            w1 = case.weights
            w2 = like(w1, rng)
            c = rng.choice([0.5, 2.0, 4.0, 0.25])
            for req in requests(rng, case, e):
                desc = R.describe(case, req)
                desc["function"] = e.name
                ctx.case("weight-relations", desc)
                tags = {"function": e.name}
                o1, ex1 = c01.safe_call(e, case, req, weights=w1)
                if ex1 is not None:
                    ctx.fail("weight-relations", "property", e.name, "exception:" + core.exc_class(ex1), desc, observed=str(ex1)[:200],
                             expected="a result", tags=tags)
                    continue
                oc, _ = c01.safe_call(e, case, req, weights=w1 * c)
                o2, _ = c01.safe_call(e, case, req, weights=w2)
                o12, _ = c01.safe_call(e, case, req, weights=w1 + w2)
                unit = xr.ones_like(w1)
                ou, _ = c01.safe_call(e, case, req, weights=unit)
                on, _ = c01.safe_call(e, case, req, use_weights=False)
                if None in (oc, o2, o12, ou, on):
                    ctx.fail("weight-relations", "property", e.name, "exception-on-variant", desc, observed="an exception", expected="a result", tags=tags)
                    continue
                # unit weights change nothing (when weights carry no extra dims and no NaN)
                extra = set(case.weights_dims) - (set(case.fcst_dims) | set(case.obs_dims))
                if not extra and not out_close(ou, on):
                    ctx.fail("weight-relations", "property", e.name, "unit-weights-change-result", desc,
                             observed=core.canon({k: R.to_labelled(v)[2] for k, v in ou.items()}),
                             expected=core.canon({k: R.to_labelled(v)[2] for k, v in on.items()}), tags=tags, theorem="nanmean_unit_weights")
                if e.name in RATIO:
                    if not out_close(oc, o1):
                        ctx.fail("weight-relations", "property", e.name, "ratio-not-invariant-to-constant-weight", desc,
                                 observed=core.canon({k: R.to_labelled(v)[2] for k, v in oc.items()}),
                                 expected=core.canon({k: R.to_labelled(v)[2] for k, v in o1.items()}), tags=dict(tags, c=c), theorem="ratio_invariant")
                    continue
                if e.name in ("rmse", "rmse_angular"):
                    if not out_close(oc, o1, scale=c, square=True):
                        ctx.fail("weight-relations", "property", e.name, "not-homogeneous", desc, observed="rmse(c w)^2", expected="c rmse(w)^2",
                                 tags=dict(tags, c=c), theorem="nanmean_smul_weights")
                    continue
                if e.kind != "mean":
                    continue
                if not out_close(oc, o1, scale=c):
                    ctx.fail("weight-relations", "property", e.name, "not-homogeneous", desc,
                             observed=core.canon({k: R.to_labelled(v)[2] for k, v in oc.items()}),
                             expected={"c": c, "f(w)": core.canon({k: R.to_labelled(v)[2] for k, v in o1.items()})}, tags=dict(tags, c=c),
                             theorem="nanmean_smul_weights")
                if not out_close(o12, add_out(o1, o2)):
                    ctx.fail("weight-relations", "property", e.name, "not-additive", desc,
                             observed=core.canon({k: R.to_labelled(v)[2] for k, v in o12.items()}),
                             expected=core.canon({k: R.to_labelled(v)[2] for k, v in add_out(o1, o2).items()}), tags=tags,
                             theorem="nanmean_add_weights")
                # "before averaging": the aggregated weighted score is the NaN-skipping mean, over the reduced dims, of the
                # function's own weighted pointwise field (a NaN weight removes the case from numerator AND denominator)
                if req != {"preserve_dims": "all"} and e.func not in c01.F9_FUNCS:
                    oall, exa = c01.safe_call(e, case, {"preserve_dims": "all"}, weights=w1)
                    if exa is None and set(oall) == set(o1):
                        try:
                            expm = {var: oall[var].mean(dim=[d for d in oall[var].dims if d not in o1[var].dims], skipna=True)
                                    for var in o1}
                        except Exception:  # noqa: BLE001 — shapes the comparison cannot express
                            expm = None
                        if expm is not None and not out_close(o1, expm):
                            ctx.fail("weight-relations", "property", e.name, "aggregate-not-mean-of-weighted-pointwise", desc,
                                     observed=core.canon({k: R.to_labelled(v)[2] for k, v in o1.items()}),
                                     expected=core.canon({k: R.to_labelled(v)[2] for k, v in expm.items()}), tags=tags,
                                     theorem="scoreEval")
                # pointwise: preserve-all with weights = w x unweighted
                if req == {"preserve_dims": "all"}:
                    exp = {var: on[var] * w1 for var in on}
                    if not out_close(o1, exp):
                        ctx.fail("weight-relations", "property", e.name, "pointwise-not-w-times-unweighted", desc,
                                 observed=core.canon({k: R.to_labelled(v)[2] for k, v in o1.items()}),
                                 expected=core.canon({k: R.to_labelled(v)[2] for k, v in exp.items()}), tags=tags, theorem="weighted_pointwise")


def model_corr(ctx, ncases):
    """implementation(request, weights) vs Lean scoreEval(unweighted pointwise, weights, R)"""
    rng = ctx.rng
    pend = []
    for e in R.REGISTRY:
        if not e.weights or e.kind != "mean":
            continue
        for ci in range(ncases):
            case = wcase(rng, e, nan_w=(ci % 2 == 1))
            data = set(case.fcst_dims) | set(case.obs_dims)
            extra_w = set(case.weights_dims) - data
            if extra_w and e.func in c01.F9_FUNCS:
                continue      # F9 is decided under C01
            on, ex = c01.safe_call(e, case, {"preserve_dims": "all"}, use_weights=False)
            if ex is not None:
                continue
            scoring = set(data) | (extra_w if e.passes_weights_dims else set())
            subs = [sorted(scoring), []]
            if scoring:
                subs.append(sorted(rng.sample(sorted(scoring), rng.randint(0, len(scoring)))))
            for Rl in subs:
                req = {"reduce_dims": [R.fresh(d) for d in Rl]}
                out, ex = c01.safe_call(e, case, req)
                if ex is not None:
                    ctx.fail("weighted-model", "property", e.name, "exception:" + core.exc_class(ex), R.describe(case, req),
                             observed=str(ex)[:200], expected="a result", tags={"function": e.name})
                    continue
                for var, da in out.items():
                    if var in on:
                        pend.append((e, case, req, var, da, on[var], Rl))
    ops = [{"op": "c01.scoreEval", "args": {"p": c01.arr_json(pa), "w": c01.arr_json(case.weights), "R": Rl}}
           for (e, case, req, var, da, pa, Rl) in pend]
    res = core.run_driver("C01", ops)
    for (e, case, req, var, da, pa, Rl), m in zip(pend, res):
        desc = R.describe(case, req)
        desc["function"] = e.name
        ctx.case("weighted-model", desc)
        dims, shape, vals = R.to_labelled(da)
        md = m["dims"]
        order = sorted(range(len(md)), key=lambda i: md[i])
        marr = np.array([core.parse_fl(x) for x in m["data"]], dtype=object).reshape(m["shape"] or ())
        if md:
            marr = np.transpose(marr, order)
        mvals = list(np.ravel(marr)) if md else [marr.item()]
        ok = sorted(md) == dims and len(mvals) == len(vals) and all(core.close(x, y) for x, y in zip(vals, mvals))
        if not ok:
            ctx.fail("weighted-model", "correspondence", e.name, "not-nanmean-of-weighted-pointwise", desc,
                     observed={"var": var, "dims": dims, "values": vals}, expected={"dims": sorted(md), "values": [core.fl_str(x) for x in mvals]},
                     tags={"function": e.name}, theorem="scoreEval")


def dtype_relations(ctx, ncases):
    """STORAGE DTYPE class: forecasts / observations stored as int64, int32 or float32 (the same labelled values) with
    fractional float64 weights.  The weighted result must equal (i) the result for the same values stored as float64 and
    (ii) w x the function's own unweighted pointwise output — a weight that is cast to the data's dtype, or a product
    evaluated in integer arithmetic, fails here."""
    rng = ctx.rng
    for e in R.REGISTRY:
        if not e.weights:
            continue
        for ci in range(ncases):
            base = R.gen_case(rng, e, with_weights=True, nan_p=0.0)
            case, store = R.retype_case(rng, e, base, store=("int64", "int32", "float32")[ci % 3])
            if case is None:
                continue
            w = case.weights
            vals = np.asarray(w.values, dtype=float)
            frac = np.array([rng.choice([0.5, 0.25, 1.5, 0.75, 2.5, 0.125]) for _ in range(vals.size)]).reshape(vals.shape)
            case.weights = w.copy(data=frac)       # fractional weights: truncation to an integer dtype would change them
            ref = R.as_float64(case)
            for req in ({"preserve_dims": "all"}, {}):
                desc = R.describe(case, req)
                desc["function"] = e.name
                desc["storage"] = store
                ctx.case("storage-dtype", desc)
                ctx.tag("storage:" + store)
                tags = {"function": e.name, "storage": store}
                o1, ex1 = c01.safe_call(e, case, req)
                o2, ex2 = c01.safe_call(e, ref, req)
                if ex2 is not None:
                    continue
                if ex1 is not None:
                    ctx.fail("storage-dtype", "property", e.name, "exception:" + core.exc_class(ex1), desc, observed=str(ex1)[:200],
                             expected="the float64 result", tags=tags)
                    continue
                rtol = 1e-4 if store == "float32" else None
                if not out_close(o1, o2, rtol=rtol):
                    ctx.fail("storage-dtype", "property", e.name, "weighted-result-depends-on-storage-dtype", desc,
                             observed=core.canon({k: R.to_labelled(v)[2] for k, v in o1.items()}),
                             expected=core.canon({k: R.to_labelled(v)[2] for k, v in o2.items()}), tags=tags, theorem="weighted_pointwise")
                    continue
                if req == {"preserve_dims": "all"} and e.kind == "mean":
                    on, exn = c01.safe_call(e, case, req, use_weights=False)
                    if exn is None:
                        exp = {var: on[var].astype(float) * case.weights for var in on}
                        if not out_close(o1, exp, rtol=rtol):
                            ctx.fail("storage-dtype", "property", e.name, "pointwise-not-w-times-unweighted", desc,
                                     observed=core.canon({k: R.to_labelled(v)[2] for k, v in o1.items()}),
                                     expected=core.canon({k: R.to_labelled(v)[2] for k, v in exp.items()}), tags=tags,
                                     theorem="weighted_pointwise")


def correspondence(ctx):
    model_corr(ctx, ctx.n(2, 10))


def oracle(ctx, boost):
    relations(ctx, ctx.n(3, 20) * (3 if boost else 1))
    dtype_relations(ctx, ctx.n(3, 12) * (2 if boost else 1))


def replay(ctx, payload):
    c = core.Ctx("C03", "quick", payload.get("seed", 0))
    site = payload.get("site")
    old = R.REGISTRY[:]
    try:
        R.REGISTRY[:] = [e for e in old if e.name == site] or old
        relations(c, 30)
        dtype_relations(c, 12)
        model_corr(c, 10)
    finally:
        R.REGISTRY[:] = old
    return any(f["signature"] == payload.get("signature") for f in c.failures)
