"""C15 — isotonic regression returns the optimal monotone fit, independent of input order."""
from __future__ import annotations

import itertools
import math
from fractions import Fraction

import numpy as np
import xarray as xr

from sv import core

PROPERTY = "C15"
GEN = []
PROPS = ["ScoresVerif/Props/C15.lean", "ScoresVerif/Props/C15MaxMin.lean"]
DRIVER_DEPS = ["ScoresVerif.Driver.C15"]
AUDIT_FILES = ["ScoresVerif/Model/Isotonic.lean", "ScoresVerif/Spec/Isotonic.lean", "ScoresVerif/Lemmas/Isotonic.lean",
               "ScoresVerif/Lemmas/IsotonicC15.lean",
               "ScoresVerif/Driver/C15.lean"]
LEVEL = "proof"
TRUSTED = ["scipy.optimize.isotonic_regression (mean functional) is outside the proof: tied to the PAV model and to the "
           "max-min formula by differential testing only",
           "numpy lexsort / quantile / interp / unique are modelled by hand (Model/Isotonic.lean), tied by correspondence",
           "bootstrap resampling (numpy global RNG) is not modelled: lower<=upper and fixed-seed reproducibility are observed"]
ASSUMPTIONS = ["forecasts / observations / weights are small dyadic rationals or NaN (float + - * and comparisons exact); "
               "means compared to 1e-9",
               "infinite forecasts / observations (+inf / -inf, pairs of opposite infinities included) are generated and compared by "
               "the oracle only (the Lean model / spec are rational): forecasts / counts always; the fit via a strictly increasing "
               "finite relabelling of the forecast axis (Lean Spec) and, for infinite observations, on the extended reals where "
               "defined (select / shift solvers; mean functional when every -inf observation precedes every +inf observation) — a "
               "block whose mean / quantile is inf - inf (IEEE NaN) is compared on forecasts / counts only; infinite weights are "
               "not generated", "float rounding is not modelled",
               "storage dtypes (int64 / int32 / int16 / int8 / uint8 / uint16 / float32 / bool, mixed per operand) hold exactly "
               "representable values; the expected fit is that of the VALUES (the Lean model / spec have no storage dtype); "
               "float32 observations on the quantile / custom-solver path are compared to 4e-6 (the code fits them in float32)"]
MANIFEST = dict(
    level="proof",
    text="Kernel-checked Lean theorems about a hand model of isoreg_impl.py (joint NaN removal, stable sort by forecast ascending / "
         "observation descending, the code's run-pooling PAV with a pluggable block solver, reduction to distinct forecasts): for ANY "
         "solver the fit is non-decreasing, the tidied pairs are partitioned into blocks with strictly increasing values, each block "
         "value is the solver applied to exactly that block (solver the identity on one observation), block boundaries occur only at "
         "strict increases of the tidied observations so tied forecasts always share one value, fcst_counts sums to the number of "
         "valid pairs; for the mean functional (positive weights): min obs <= fit <= max obs, sum w*fit = sum w*obs, the KKT prefix "
         "invariant, OPTIMALITY with a strong-convexity gap (sum w(y-fit)^2 + sum w(fit-z)^2 <= sum w(y-z)^2 for every competitor "
         "non-decreasing in the forecast, in particular every monotone function of the forecast over the pairs in any order) and "
         "UNIQUENESS; fit = MAX-MIN formula (sequence form, and model result = Spec.isoFit table over the forecast groups of the "
         "unsorted pairs) and PERMUTATION INVARIANCE of the whole result under reordering of the input triples; quantile functional: "
         "every block value lies between two observations of its block; the model of _nanquantile is monotone in the level, hence lower <= upper on every column of any bootstrap matrix. "
         "The model is tied to the code by differential correspondence (numpy/xarray inputs of 1-3 dims, permuted dims and "
         "shuffled coordinates, per-operand memory layouts (C / Fortran / transposed / strided / reversed views), heavy ties, NaN, weights, mean / quantile / 10 custom solvers, regression_func, confidence-band "
         "arithmetic on the reported bootstrap matrix); the property oracle compares the real isotonic_fit with the exact max-min "
         "formula over the distinct forecasts (Lean Spec, rational arithmetic, independent of PAV and of the sort) exhaustively on all "
         "short sequences over a 3x3 pool and on random cases, and checks order / shape / container / memory-layout / NaN invariance, bounds, "
         "weighted-mean preservation, counts, block = solver(block), lower <= upper and fixed-seed reproducibility. "
         "STORAGE DTYPES: the same values stored as int64 / int32 / int16 / int8 / uint8 / uint16 / float32 / mixed numpy and xarray "
         "operands (integer counts, 0/1 events with probability forecasts; exhaustively every short sequence over the 3x3 pool) must give "
         "the exact max-min fit of the values (non-integer block means), the same result as their float64 copies, and, for a fixed seed, "
         "the same bootstrap fits and bands as the float64 copies; a bool operand is rejected (ValueError) or fitted exactly. "
         "INFINITE VALUES (oracle only): +inf / -inf forecasts and observations, in particular pairs of opposite infinities, are valid "
         "pairs (only NaN removes a pair): fcst_sorted / fcst_counts must list every valid forecast and sum to the number of valid pairs "
         "(also the bootstrap matrix has one column per valid pair), the fit must be that of the order-isomorphic finite forecasts "
         "(max-min formula) and, with infinite observations, the extended-real fit where it is defined; exhaustively on all short "
         "sequences over {-inf,1,+inf} x {-inf,0,2,+inf}.",
    note="Trusted: Lean kernel; propext/Classical.choice/Quot.sound; the hand model (no translator for this property) and the harness; "
         "scipy.optimize.isotonic_regression (used by the code for the mean functional) is OUTSIDE the proof — the PAV model with the "
         "weighted-mean solver is tied to it only by the correspondence check. Proved for the mean functional with positive weights "
         "(Props/C15MaxMin.lean): model result = Spec.isoFit (the oracle's max-min formula), permutation invariance; for quantile / "
         "custom solvers permutation invariance is observed by the oracle only. "
         "Infinite forecasts / observations are outside the Lean model (rational values): that input class is compared by the oracle only. "
         "Bootstrap resampling uses numpy's global RNG and is not modelled: the band arithmetic is modelled on the matrix the code reports "
         "(lower <= upper proved there), reproducibility for a fixed seed is observed, not proved. "
         "Custom solvers are assumed to be the identity on a single observation (notes/C15.md, interpretation). Infinite inputs, dtype "
         "checks and float rounding are not modelled (infinite inputs: oracle only); quantile levels sent to the model are dyadic. Storage dtypes are not modelled "
         "(the model is a function of the values): that input class is compared by the oracle; three dtype defect classes of the "
         "unchanged code (notes/C15.md: integer obs on the solver path, unsigned obs with a 0 in a tie group, non-float64/int64 "
         "forecasts with a tied smallest forecast) are tagged, listed as known findings and skipped in the correspondence.",
    technique="Lean 4 theorems over a hand-written executable model + differential correspondence + exact max-min oracle",
    design="6/C15")
RULE = ("pairs (fcst, obs[, weight]) drawn from small dyadic pools with heavy ties and NaN in every slot, arranged as numpy / xarray "
        "arrays of 1-3 dims (xarray operands with permuted dims / shuffled coordinates; square / cubic shapes; fcst, obs and weight each "
        "stored with its own memory layout: C, Fortran / transposed view, axis-permuted, strided a[::k], reversed a[::-1] views), functional mean / quantile / 11 custom solvers; "
        "each operand stored as float64 or (35 % of the random cases + dedicated streams) as int64 / int32 / int16 / int8 / uint8 / uint16 / "
        "float32 / bool with values exactly representable there (integer counts, 0/1 events with k/8 probability forecasts), mixed per operand; "
        "exhaustive: every sequence up to a length over a 3-value pool, once as float64 and once in integer / float32 / mixed dtypes; "
        "a dedicated stream with +inf / -inf written into forecast and / or observation slots (infinite forecasts only, infinite "
        "observations only, a pair of opposite infinities, a pair of equal infinities, mixtures; also with bootstraps) and every short "
        "sequence over {-inf,1,+inf} x {-inf,0,2,+inf}; "
        "distinct = distinct canonical case; "
        "non-trivial = at least two valid pairs")

NAN = float("nan")

# ------------------------------------------------------------------------------------------------ solvers
def _avg(y, w):
    return np.mean(y) if w is None else np.average(y, weights=w)


SOLVERS = {
    "max": lambda y, w=None: np.max(y),
    "min": lambda y, w=None: np.min(y),
    "midrange": lambda y, w=None: (np.max(y) + np.min(y)) / 2,
    "median": lambda y, w=None: np.median(y),
    "wmean": lambda y, w=None: _avg(y, w),
    "first": lambda y, w=None: y[0],
    "last": lambda y, w=None: y[-1],
    "min_minus_len": lambda y, w=None: np.min(y) - (len(y) - 1) / 4,
    "max_plus_len": lambda y, w=None: np.max(y) + (len(y) - 1) / 2,
    "trimmed": lambda y, w=None: (np.sum(y) - np.max(y) - np.min(y)) / (len(y) - 2) if len(y) > 2 else (np.max(y) + np.min(y)) / 2,
}
# every custom solver is the identity on a single observation: the optimal fit of a one-observation block is that
# observation (solvers with solver([y]) != y are outside the property's quantifier — notes/C15.md, "interpretation")
IDEMPOTENT = list(SOLVERS)
DYADIC_Q = [0.5, 0.25, 0.75, 0.125, 0.875, 0.375]
ANY_Q = [0.1, 0.9, 0.3, 0.4, 0.05, 0.95, 2 / 3]


def py_solver(kind, weighted):
    s = SOLVERS[kind]
    if weighted:
        return lambda y, w: s(np.asarray(y), np.asarray(w))
    return lambda y: s(np.asarray(y))


# ------------------------------------------------------------------------------------------------ cases
def mk_case(f, o, w=None, kind="mean", q=0.5, shape=None, container="numpy", perm=None, boots=None, seed=0,
            confidence=0.75, min_non_nan=1, layout=None, dtypes=None):
    n = len(f)
    return {"fcst": [float(x) for x in f], "obs": [float(x) for x in o], "weight": None if w is None else [float(x) for x in w],
            "kind": kind, "q": float(q), "shape": list(shape) if shape else [n], "container": container,
            "perm": perm, "bootstraps": boots, "seed": seed, "confidence": float(confidence), "min_non_nan": int(min_non_nan),
            "layout": layout, "dtypes": dtypes}


# ------------------------------------------------------------------------------------------------ storage dtypes
# The VALUES of a case are the floats in case["fcst"/"obs"/"weight"]; case["dtypes"] = {"f","o","w"} only says in which numpy
# dtype each operand is STORED when handed to isotonic_fit (every value is exactly representable there: integers for the
# integer dtypes, 0/1 for bool, small dyadics for float32).  The expected result depends on the values only.
INT_DTYPES = ["int64", "int32", "int16", "int8", "uint8", "uint16"]
UNSIGNED = ("uint8", "uint16")
FLOAT_DTYPES = ["float64", "float32"]


def dtype_of(case, k):
    return ((case.get("dtypes") or {}).get(k)) or "float64"


def is_int_dtype(dt):
    return dt in INT_DTYPES


def fits_dtype(v, dt):
    if dt in FLOAT_DTYPES:
        return True                                    # NaN and the small dyadics are exact in float32 / float64
    if math.isnan(v) or v != int(v):
        return False
    if dt == "bool":
        return v in (0.0, 1.0)
    info = np.iinfo(dt)
    return max(info.min, -info.max) <= v <= info.max   # (the minimum of a signed type is never generated: -min overflows)


def dtype_class(case):
    if not case.get("dtypes"):
        return "dtype:all-float64"
    ops = ["f", "o"] + (["w"] if case["weight"] is not None else [])
    ds = [dtype_of(case, k) for k in ops]
    if "bool" in ds:
        return "dtype:bool-operand"
    if all(d == "float64" for d in ds):
        return "dtype:all-float64"
    return "dtype:uniform-" + ds[0] if len(set(ds)) == 1 else "dtype:mixed"


def unsigned_zero_in_tie(case):
    """an unsigned observation array in which some group of tied forecasts (valid pairs) holds a 0 and a non-zero value"""
    if dtype_of(case, "o") not in UNSIGNED:
        return False
    groups = {}
    for p in valid_pairs(case):
        groups.setdefault(p[0], set()).add(p[1])
    return any(0.0 in g and len(g) > 1 for g in groups.values())


def narrow_dtype_interp(case):
    """scipy's interp1d takes its np.interp path only when x and y are float64 / int64 arrays; otherwise its own linear
    formula divides 0/0 at the smallest x when that x is repeated (or is the only point).  isotonic_fit builds
    interp1d(fcst_tidied, y_out): x has the forecast dtype, y is float64 except on the _contiguous_ir path with float32
    observations.  True iff that path is taken AND (the smallest valid forecast is tied / there is one valid pair, or
    the case bootstraps: every resample builds such an interpolant and ties at its smallest forecast arise at random)"""
    narrow = dtype_of(case, "f") not in ("float64", "int64") or (case["kind"] != "mean" and dtype_of(case, "o") == "float32")
    if not narrow:
        return False
    fs = [p[0] for p in valid_pairs(case)]
    return bool(fs) and (bool(case.get("bootstraps")) or fs.count(min(fs)) >= 2 or len(fs) == 1)


DEFECT_TAGS = ("int_obs_solver_path", "unsigned_obs_zero_in_tie", "narrow_dtype_interp_nan")


def dtype_defect(case):
    """the case lies in one of the three documented dtype defect classes of the unchanged code: the model (values only, no
    storage dtypes) does not describe the code there, so the correspondence skips it; the property oracle still runs it
    and reports it (as the listed known finding)"""
    # the three defects F-C15a/b/c were repaired in /repo (fix: isotonic_fit works in floating point): nothing is skipped any
    # more — the classes stay tagged so that a regression is reported as a violation of exactly that class
    return False


def case_tags(case):
    """tags of every failure of this case; the last three single out the three documented dtype defects of the unchanged
    code (notes/C15.md, "Findings: storage dtypes") so that a known-finding entry matches exactly those inputs"""
    t = {"kind": case["kind"], "container": case["container"]}
    if case.get("dtypes"):
        t["obs_dtype"] = dtype_of(case, "o")
        if (is_int_dtype(dtype_of(case, "o"))) and case["kind"] != "mean":
            t["int_obs_solver_path"] = True
        if unsigned_zero_in_tie(case):
            t["unsigned_obs_zero_in_tie"] = True
        if narrow_dtype_interp(case):
            t["narrow_dtype_interp_nan"] = True
    return t


def tol_of(case):
    """float32 observations on the _contiguous_ir path (quantile / custom solver) are fitted IN float32 (y_out = y.copy()):
    the block values carry float32 rounding (2^-24 relative) — rounding is not modelled, so compare those to 4e-6;
    everything else (in particular the mean functional for every dtype) to 1e-9"""
    if dtype_of(case, "o") == "float32" and case["kind"] != "mean":
        return 4e-6
    if case["kind"] != "mean" and case["weight"] is not None and dtype_of(case, "w") == "float32" and dtype_of(case, "o") != "float64":
        return 4e-6
    return 1e-9


def valid_pairs(case):
    f, o, w = case["fcst"], case["obs"], case["weight"]
    out = []
    for i in range(len(f)):
        wi = 1.0 if w is None else w[i]
        if math.isnan(f[i]) or math.isnan(o[i]) or math.isnan(wi):
            continue
        out.append((f[i], o[i], wi))
    return out


FILL = 77.0          # content of the memory BETWEEN the elements of a strided operand (never a legitimate element)


def relayout(a, spec):
    """an array EQUAL to `a` (same shape, same values at every index) but stored with another MEMORY LAYOUT:
    spec = {"order": memory order of the axes, slowest first (identity = C, reversed = Fortran / transposed view),
            "step": per-axis element step inside a larger base array (a[::2]-style strided slices),
            "flip": per-axis negative stride (a[:, ::-1]-style views), "offset": per-axis start inside the base}.
    The result is a VIEW into a bigger base filled with FILL; only the layout differs, never the labelled pairs."""
    if spec is None:
        return a
    nd = a.ndim
    order, step, flip, off = spec["order"], spec["step"], spec["flip"], spec["offset"]
    assert sorted(order) == list(range(nd)) and len(step) == len(flip) == len(off) == nd
    base = np.full([a.shape[ax] * step[ax] + off[ax] for ax in order], FILL, dtype=a.dtype)
    v = base[tuple(slice(off[ax], off[ax] + a.shape[ax] * step[ax], step[ax]) for ax in order)]
    v = v.transpose([order.index(i) for i in range(nd)])
    v = v[tuple(slice(None, None, -1) if flip[ax] else slice(None) for ax in range(nd))]
    assert v.shape == a.shape
    v[...] = a
    return v


def gen_layout(rng, nd):
    """memory layout of ONE operand: C copy (None), Fortran / transposed view, axis-permuted, strided, reversed, mixtures"""
    r = rng.random()
    if r < 0.2:
        return None
    order = list(range(nd))
    if r < 0.45:
        order = order[::-1]                                    # np.asfortranarray / a.T view of a C array
    elif r < 0.75:
        rng.shuffle(order)
    plain = r < 0.45 or rng.random() < 0.4
    return {"order": order,
            "step": [1 if plain else rng.choice([1, 1, 2, 3]) for _ in range(nd)],
            "flip": [False if plain else rng.random() < 0.3 for _ in range(nd)],
            "offset": [0 if plain else rng.choice([0, 0, 1]) for _ in range(nd)]}


def layout_class(case):
    lay = case.get("layout")
    if not lay:
        return "layout:default"
    ops = ["f", "o"] + (["w"] if case["weight"] is not None else [])
    keys = [repr(lay.get(k)) for k in ops]
    if all(lay.get(k) is None for k in ops):
        return "layout:default"
    return "layout:operands-differ" if len(set(keys)) > 1 else "layout:non-C-shared"


def build_inputs(case):
    """the arrays actually handed to isotonic_fit: numpy of the case's shape, or xarray (obs / weight possibly with
    permuted dims and shuffled coordinate labels — the same labelled pairs); every operand may be stored with its own
    memory layout (case["layout"]: transposed / Fortran / strided / reversed views) — still the same labelled pairs"""
    shape = tuple(case["shape"])
    lay = case.get("layout") or {}
    f = np.array(case["fcst"], dtype=float).reshape(shape)
    o = np.array(case["obs"], dtype=float).reshape(shape)
    w = None if case["weight"] is None else np.array(case["weight"], dtype=float).reshape(shape)
    if case.get("dtypes"):                             # storage dtype of each operand; the values stay the same
        for k, a in (("f", f), ("o", o), ("w", w)):
            assert a is None or all(fits_dtype(float(v), dtype_of(case, k)) for v in a.ravel()), (k, dtype_of(case, k))
        f = f.astype(dtype_of(case, "f"))
        o = o.astype(dtype_of(case, "o"))
        w = None if w is None else w.astype(dtype_of(case, "w"))
    permuted = case["container"] == "xarray-permuted" and case.get("perm")
    f = relayout(f, lay.get("f"))
    if not permuted:                                  # (permuted: the layout applies to the dim-permuted backing array)
        o = relayout(o, lay.get("o"))
        w = None if w is None else relayout(w, lay.get("w"))
    if case["container"] == "numpy":
        return f, o, w
    dims = ["".join(["d", str(i)]) for i in range(len(shape))]
    coords = {d: list(range(10, 10 + s)) for d, s in zip(dims, shape)}
    fx = xr.DataArray(f, dims=dims, coords=coords)
    ox = xr.DataArray(o, dims=dims, coords=coords)
    wx = None if w is None else xr.DataArray(w, dims=dims, coords=coords)
    if permuted:
        p = case["perm"]
        order = [dims[i] for i in p["dims"]]
        ox = ox.transpose(*order)
        d0 = dims[0]
        idx = p["idx0"]
        ox = ox.isel({d0: idx})
        if wx is not None:
            wx = wx.transpose(*order[::-1]) if len(order) > 1 else wx
        # own backing arrays in the permuted dim order (a C copy there is a transposed view once aligned to fcst's dims)
        if lay.get("o") is not None:
            ox = ox.copy(data=relayout(np.array(ox.values), lay["o"]))
        if wx is not None and lay.get("w") is not None:
            wx = wx.copy(data=relayout(np.array(wx.values), lay["w"]))
    return fx, ox, wx


def run_impl(case, raw=False):
    from scores.processing import isotonic_fit
    f, o, w = build_inputs(case)
    kind = case["kind"]
    if kind == "mean":
        kw = dict(functional="mean")
    elif kind == "quantile":
        kw = dict(functional="quantile", quantile_level=case["q"])
    else:
        kw = dict(functional=None, solver=py_solver(kind, w is not None))
    if case.get("bootstraps"):
        kw.update(bootstraps=case["bootstraps"], confidence_level=case["confidence"], min_non_nan=case["min_non_nan"],
                  report_bootstrap_results=True)
        np.random.seed(case["seed"])
    with np.errstate(all="ignore"):
        try:
            r = isotonic_fit(f, o, weight=w, **kw)
        except Exception as ex:  # noqa: BLE001
            return {"err": core.exc_class(ex), "msg": str(ex)[:200]}
    out = {"fcst_sorted": [float(x) for x in r["fcst_sorted"]], "fcst_counts": [int(x) for x in r["fcst_counts"]],
           "regression_values": [float(x) for x in r["regression_values"]]}
    if case.get("bootstraps"):
        out["lower"] = [float(x) for x in r["confidence_band_lower_values"]]
        out["upper"] = [float(x) for x in r["confidence_band_upper_values"]]
        out["boot"] = np.asarray(r["bootstrap_results"], dtype=float)
        out["levels"] = tuple(r["confidence_band_levels"])
    if raw:
        out["raw"] = r
    return out


def fit_op(case):
    return {"op": "c15.fit", "args": {"fcst": [core.fl_str(x) for x in case["fcst"]], "obs": [core.fl_str(x) for x in case["obs"]],
                                      "weight": None if case["weight"] is None else [core.fl_str(x) for x in case["weight"]],
                                      "solver": case["kind"], "q": core.fl_str(case["q"])}}


def spec_op(case):
    return {"op": "c15.spec", "args": {"fcst": [core.fl_str(x) for x in case["fcst"]], "obs": [core.fl_str(x) for x in case["obs"]],
                                       "weight": None if case["weight"] is None else [core.fl_str(x) for x in case["weight"]]}}


def store_as(rng, vals, dt, den, weight=False):
    """the values of one operand made exactly representable in storage dtype `dt` (order and ties of the operand kept:
    integer dtypes hold den*v, shifted to start at 0 for unsigned; bool holds v > 0); NaN cannot be stored in an integer
    array, so a NaN slot gets a value (NaN pairs still arise from the float operands of the case)"""
    if dt in FLOAT_DTYPES:
        return list(vals)
    if weight:
        return [1.0] * len(vals) if dt == "bool" else [float(rng.choice([1, 1, 2, 3, 5])) for _ in vals]
    fin = [v for v in vals if not math.isnan(v)] or [0.0]
    vals = [rng.choice(fin) if math.isnan(v) else v for v in vals]
    if dt == "bool":
        cut = rng.choice(fin)
        return [1.0 if v > cut or (v == cut and rng.random() < 0.5) else 0.0 for v in vals]
    out = [float(round(v * den)) for v in vals]
    if dt in UNSIGNED:
        lo = min(out)
        out = [v - lo for v in out]
    return out


def gen_dtypes(rng, weighted, kind="mean"):
    """storage dtypes of (fcst, obs, weight): integer observations (counts, 0/1 events) with float / integer forecasts, one
    integer / float32 dtype for everything, independent mixtures, rarely a bool operand (documented: rejected).
    Weighted towards the classes the unchanged code handles (float64 / int64 forecasts; float observations for the
    quantile / custom-solver path) — the three defect classes of notes/C15.md stay present (~35 %)"""
    ints = ["int64", "int64", "int32", "int8", "int16", "uint8", "uint16"]
    anyd = ints + ["float64", "float64", "float32", "float32"]
    fpool = ["float64"] * 4 + ["int64"] * 3 + ["float32", "int32", "int8", "uint8", "int16"]
    opool = ints + ["float32", "float32", "float64"] if kind == "mean" else \
        ["float32"] * 3 + ["float64"] * 3 + ["int64", "int32", "int8", "uint8"]
    r = rng.random()
    if r < 0.2:
        u = rng.choice(ints + ["float32", "float32"]) if kind == "mean" else rng.choice(["float32", "float32", "int64", "int32"])
        d = {"f": u, "o": u, "w": u}
    elif r < 0.5:
        d = {"f": rng.choice(["float64", "float64", "float64", "float32"]), "o": rng.choice(opool), "w": rng.choice(anyd)}
    else:
        d = {"f": rng.choice(fpool), "o": rng.choice(opool), "w": rng.choice(anyd)}
    if rng.random() < 0.05:
        d[rng.choice(["f", "o", "o", "w"] if weighted else ["f", "o", "o"])] = "bool"
    return d


def gen_events_case(rng, kind="mean", boots=False):
    """reliability-diagram use: probability forecasts k/8 (heavy ties) of a 0/1 event stored as an integer array"""
    n = rng.choice([2, 3, 4, 6, 8, 12, 16, 30])
    f = [rng.randint(0, 8) / 8 for _ in range(n)]
    o = [1.0 if rng.random() < 0.2 + 0.6 * x else 0.0 for x in f]
    w = [float(rng.choice([1, 1, 2, 3])) for _ in range(n)] if kind != "quantile" and rng.random() < 0.3 else None
    if rng.random() < 0.3:
        f = [NAN if rng.random() < 0.2 else x for x in f]
    d = {"f": rng.choice(["float64"] * 4 + ["float32"]), "o": rng.choice(["int64", "int64", "int32", "int8", "uint8", "int16"]),
         "w": rng.choice(["float64", "int64", "int8", "float32"])}
    facts = [(a, n // a) for a in range(1, n + 1) if n % a == 0]
    shape = list(rng.choice(facts)) if rng.random() < 0.4 else [n]
    return mk_case(f, o, w, kind, rng.choice(DYADIC_Q), shape, rng.choice(["numpy", "numpy", "xarray"]), None,
                   rng.choice([1, 2, 3, 5, 8]) if boots else None, rng.randint(0, 10 ** 6), rng.choice([0.5, 0.75, 0.9]), 1, None, d)


def gen_case(rng, kinds, big=False, boots=False, dtypes=None):
    n = rng.choice([1, 2, 2, 3, 4, 5, 6, 8, 12]) if not big else rng.randint(15, 60)
    cube = None
    if rng.random() < (0.2 if not big else 0.3):        # square / cubic shapes: a positional mix-up passes every shape check
        cube = rng.choice([[2, 2], [3, 3], [2, 2, 2], [4, 4], [2, 3, 2]] if not big else [[4, 4], [5, 5], [3, 3, 3], [6, 6], [3, 4, 3]])
        n = int(np.prod(cube))
    den = rng.choice([1, 2, 4])
    pool = [rng.randint(-3 * den, 3 * den) / den for _ in range(rng.randint(1, 4))]
    pf = rng.choice([0.3, 0.7, 0.95])
    po = rng.choice([0.2, 0.5, 0.9])
    f = [rng.choice(pool) if rng.random() < pf else core.dyadic(rng, -4, 4, den) for _ in range(n)]
    o = [(f[i] if rng.random() < 0.3 else rng.choice(pool)) if rng.random() < po else core.dyadic(rng, -4, 4, den) for i in range(n)]
    kind = rng.choice(kinds)
    w = None
    if kind != "quantile" and rng.random() < 0.5:
        w = [rng.choice([1, 1, 2, 0.5, 3, 0.25]) for _ in range(n)]
    pn = rng.choice([0, 0, 0.15, 0.4])
    for i in range(n):
        if rng.random() < pn:
            f[i] = NAN
        if rng.random() < pn:
            o[i] = NAN
        if w is not None and rng.random() < pn:
            w[i] = NAN
    if rng.random() < 0.03:
        f = [NAN] * n                                   # nothing valid: ValueError expected
    # storage dtypes (dtypes=None: 35 % of the cases; True: always; False: never — every operand float64)
    dts = None
    if dtypes or (dtypes is None and rng.random() < 0.35):
        dts = gen_dtypes(rng, w is not None, kind)
        f = store_as(rng, f, dts["f"], den)
        o = store_as(rng, o, dts["o"], den)
        w = None if w is None else store_as(rng, w, dts["w"], den, weight=True)
    q = rng.choice(DYADIC_Q)
    # shape / container
    shape = [n]
    facts = [(a, n // a) for a in range(1, n + 1) if n % a == 0]
    r = rng.random()
    if r < 0.35:
        a, b = rng.choice(facts)
        shape = [a, b]
    elif r < 0.5:
        a, b = rng.choice(facts)
        f2 = [(c, b // c) for c in range(1, b + 1) if b % c == 0]
        c, d = rng.choice(f2)
        shape = [a, c, d]
    if cube is not None:
        shape = list(cube)
    container = rng.choice(["numpy", "numpy", "xarray", "xarray-permuted"])
    perm = None
    if container == "xarray-permuted":
        dimsp = list(range(len(shape)))
        rng.shuffle(dimsp)
        idx0 = list(range(shape[0]))
        rng.shuffle(idx0)
        perm = {"dims": dimsp, "idx0": idx0}
    b = None
    seed = rng.randint(0, 10 ** 6)
    conf = rng.choice([0.5, 0.75, 0.875, 0.9, 0.95])
    mnn = rng.choice([1, 1, 1, 2, 3])
    if boots:
        b = rng.choice([1, 2, 3, 5, 8, 20])
    layout = None
    if rng.random() < (0.6 if len(shape) > 1 else 0.25):  # operands with their own (mostly different) memory layouts
        layout = {"f": gen_layout(rng, len(shape)), "o": gen_layout(rng, len(shape)), "w": gen_layout(rng, len(shape))}
        if rng.random() < 0.15:
            layout["o"] = layout["w"] = layout["f"]        # one shared non-C layout
    return mk_case(f, o, w, kind, q, shape, container, perm, b, seed, conf, mnn, layout, dts)


def describe(case):
    return {k: case[k] for k in ("fcst", "obs", "weight", "kind", "q", "shape", "container", "bootstraps", "seed", "confidence",
                                 "min_non_nan")} | {"layout": case.get("layout"), "dtypes": case.get("dtypes")}


def tag_case(ctx, case):
    vp = valid_pairs(case)
    ctx.tag("kind:" + case["kind"])
    ctx.tag("container:" + case["container"])
    ctx.tag("ndim:%d" % len(case["shape"]))
    ctx.tag(layout_class(case))
    ctx.tag(dtype_class(case))
    if case.get("dtypes"):
        ctx.tag("obs-dtype:" + dtype_of(case, "o"))
    if len(case["shape"]) > 1 and len(set(case["shape"])) == 1 and case["shape"][0] > 1:
        ctx.tag("shape:square")
    ctx.tag("weights" if case["weight"] is not None else "no-weights")
    ctx.tag("has-nan" if len(vp) < len(case["fcst"]) else "no-nan")
    fs = [p[0] for p in vp]
    ctx.tag("ties" if len(set(fs)) < len(fs) else "no-ties")
    if not vp:
        ctx.tag("no-valid-pairs")
    return vp


# ------------------------------------------------------------------------------------------------ comparisons
def _at(tol):
    return 1e-12 if tol <= 1e-9 else tol


def cmp_lists(a, b, tol=1e-9):
    return len(a) == len(b) and all(core.close(x, y, rtol=tol, atol=_at(tol)) for x, y in zip(a, b))


def has_bool(case):
    return any(dtype_of(case, k) == "bool" for k in (["f", "o"] + (["w"] if case["weight"] is not None else [])))


def tie_last_index(sorted_f):
    """index (into the tidied sequence) of the last element of each run of equal forecasts"""
    out = []
    for i, x in enumerate(sorted_f):
        if i + 1 == len(sorted_f) or sorted_f[i + 1] != x:
            out.append(i)
    return out


def tidy_py(vp):
    """independent re-implementation of the documented order: forecast ascending, observation descending, stable"""
    return sorted(vp, key=lambda p: (p[0], -p[1]))


# ------------------------------------------------------------------------------------------------ correspondence
def correspondence(ctx):
    rng = ctx.rng
    kinds = ["mean", "mean", "quantile", "quantile"] + IDEMPOTENT
    cases = [gen_case(rng, kinds) for _ in range(ctx.n(500, 6000))]
    cases += [gen_case(rng, kinds, big=True) for _ in range(ctx.n(30, 300))]
    cases += [gen_events_case(rng, rng.choice(["mean"] * 5 + ["quantile", "median", "wmean"])) for _ in range(ctx.n(60, 600))]
    cases += corpus_cases()
    impl = [run_impl(c) for c in cases]
    model = core.run_driver("C15", [fit_op(c) for c in cases])
    interp_ops, interp_meta = [], []
    for c, r, m in zip(cases, impl, model):
        vp = tag_case(ctx, c)
        ctx.case("impl-vs-model-fit", describe(c), nontrivial=len(vp) >= 2)
        tol = tol_of(c)
        if dtype_defect(c):
            ctx.tag("dtype-defect-class:oracle-only")
            continue
        if has_bool(c) and r.get("err") == "ValueError":
            ctx.tag("bool-operand-rejected")             # documented rejection; the model has values only, no dtypes
            continue
        if "err" in r or "err" in m:
            if ("err" in r) != ("err" in m) or (r.get("err") != m.get("err")):
                ctx.fail("impl-vs-model-fit", "correspondence", "isotonic_fit", "exception-differs", describe(c),
                         observed=r.get("err", "a value"), expected=m.get("err", "a value"), tags=case_tags(c))
            continue
        for key in ("fcst_sorted", "regression_values"):
            if not cmp_lists(r[key], m[key], tol if key == "regression_values" else 1e-9):
                ctx.fail("impl-vs-model-fit", "correspondence", "isotonic_fit", key + "-differs", describe(c),
                         observed=r[key], expected=m[key], tags=case_tags(c))
        if r["fcst_counts"] != m["fcst_counts"]:
            ctx.fail("impl-vs-model-fit", "correspondence", "isotonic_fit", "fcst_counts-differs", describe(c),
                     observed=r["fcst_counts"], expected=m["fcst_counts"], tags=case_tags(c))
        # regression_func at and between the distinct forecasts, and outside the range
        if rng.random() < 0.5:
            xs = r["fcst_sorted"]
            at = list(xs) + [(a + b) / 2 for a, b in zip(xs, xs[1:])] + [(3 * a + b) / 4 for a, b in zip(xs, xs[1:])]
            at += [xs[0] - 1, xs[-1] + 0.5, NAN]
            interp_ops.append({"op": "c15.interp", "args": {"xs": m["fcst_sorted"], "ys": m["regression_values"],
                                                            "at": [core.fl_str(x) for x in at], "n": sum(m["fcst_counts"])}})
            interp_meta.append((c, at))
    if interp_ops:
        res = core.run_driver("C15", interp_ops)
        for (c, at), mr in zip(interp_meta, res):
            full = run_impl(c, raw=True)
            with np.errstate(all="ignore"):
                got = [float(x) for x in full["raw"]["regression_func"](np.array(at, dtype=float))]
            ctx.case("regression_func-vs-model-interp", {"case": describe(c), "at": at}, nontrivial=len(at) > 3)
            if not cmp_lists(got, mr, tol_of(c)):
                ctx.fail("regression_func-vs-model-interp", "correspondence", "regression_func", "value-differs",
                         {"case": describe(c), "at": at}, observed=got, expected=mr, tags=case_tags(c))
    # confidence band arithmetic on the bootstrap matrix the implementation reports
    bcases = [gen_case(rng, ["mean", "mean", "quantile", "median", "max", "wmean"], boots=True) for _ in range(ctx.n(120, 1500))]
    ops, meta = [], []
    for c in bcases:
        r = run_impl(c)
        if "err" in r or dtype_defect(c):
            continue
        rows = [[core.fl_str(x) for x in row] for row in r["boot"].tolist()]
        ops.append({"op": "c15.band", "args": {"rows": rows, "ncol": int(r["boot"].shape[1]), "confidence": core.fl_str(c["confidence"]),
                                               "min_non_nan": c["min_non_nan"]}})
        meta.append((c, r))
    res = core.run_driver("C15", ops)
    for (c, r), m in zip(meta, res):
        tf = [p[0] for p in tidy_py(valid_pairs(c))]
        last = tie_last_index(tf)
        ctx.case("confidence-band-vs-model", describe(c), nontrivial=len(tf) >= 2)
        ctx.tag("boot-nan-col" if np.isnan(r["boot"]).any() else "boot-full")
        for key in ("lower", "upper"):
            if last and last[-1] >= len(m[key]):          # the code kept another set of pairs than the documented one
                ctx.fail("confidence-band-vs-model", "correspondence", "_confidence_band", key + "-length-differs", describe(c),
                         observed=len(m[key]), expected=last[-1] + 1, tags=case_tags(c))
                continue
            exp = [m[key][i] for i in last]
            if not cmp_lists(r[key], exp):
                ctx.fail("confidence-band-vs-model", "correspondence", "_confidence_band", key + "-differs", describe(c),
                         observed=r[key], expected=exp, tags=case_tags(c))


# ------------------------------------------------------------------------------------------------ the property itself
def blocks_of(values):
    """maximal constant runs of the fitted values over the distinct forecasts: list of (start, stop)"""
    out, i = [], 0
    while i < len(values):
        j = i
        while j + 1 < len(values) and values[j + 1] == values[i]:   # bit-equal: one block is one float copied
            j += 1
        out.append((i, j + 1))
        i = j + 1
    return out


def check_property(case, r, spec=None, rerun=None):
    """all clauses of C15 on ONE implementation result; returns list of (site, signature, observed, expected, tags).
    `spec` = result of c15.spec for this case (mean functional), `rerun(case2)` = implementation on a variant"""
    bad = []
    vp = valid_pairs(case)
    kind = case["kind"]
    tags = case_tags(case)
    tol = tol_of(case)
    if has_bool(case) and r.get("err") == "ValueError":
        return bad                                      # documented: a bool array is "not an integer, float or NaN" (else: the exact fit)
    if not vp:
        if r.get("err") != "ValueError":
            bad.append(("isotonic_fit", "no-valid-pairs-not-rejected", r.get("err", "a value"), "ValueError", tags))
        return bad
    if "err" in r:
        bad.append(("isotonic_fit", "exception", r["err"] + ": " + r.get("msg", ""), "a fit", tags))
        return bad
    tid = tidy_py(vp)
    us = sorted(set(p[0] for p in vp))
    vals = r["regression_values"]
    # distinct forecasts, counts
    if not cmp_lists(r["fcst_sorted"], [Fraction(u) for u in us]):
        bad.append(("isotonic_fit", "fcst_sorted-not-distinct-valid-forecasts", r["fcst_sorted"], us, tags))
        return bad
    cnt = [sum(1 for p in vp if p[0] == u) for u in us]
    if r["fcst_counts"] != cnt:
        bad.append(("isotonic_fit", "fcst_counts-wrong", r["fcst_counts"], cnt, tags))
    if sum(r["fcst_counts"]) != len(vp):
        bad.append(("isotonic_fit", "fcst_counts-sum", sum(r["fcst_counts"]), len(vp), tags))
    if len(vals) != len(us) or any(math.isnan(v) for v in vals):
        bad.append(("isotonic_fit", "regression_values-shape-or-nan", vals, "%d finite values" % len(us), tags))
        return bad
    # non-decreasing
    for a, b in zip(vals, vals[1:]):
        if b < a - 1e-9 * max(1, abs(a)):
            bad.append(("isotonic_fit", "fit-not-monotone", vals, "non-decreasing", tags))
            break
    if kind == "mean":
        if spec is not None and not cmp_lists(vals, spec["regression_values"], tol):
            bad.append(("isotonic_fit", "not-the-least-squares-fit", vals, spec["regression_values"], tags))
        lo, hi = min(p[1] for p in vp), max(p[1] for p in vp)
        if any(v < lo - 1e-9 or v > hi + 1e-9 for v in vals):
            bad.append(("isotonic_fit", "fit-outside-observation-range", vals, [lo, hi], tags))
        sw = sum(Fraction(p[2]) * Fraction(p[1]) for p in vp)
        sf = sum(sum(Fraction(p[2]) for p in vp if p[0] == u) * Fraction(v) for u, v in zip(us, vals))
        if not core.close(float(sf), sw, rtol=1e-9, atol=1e-9):
            bad.append(("isotonic_fit", "weighted-mean-not-preserved", float(sf), float(sw), tags))
    else:
        # each maximal constant block equals the solver applied to that block's observations (tidied order)
        if kind == "quantile":
            solve = lambda y, w: float(np.quantile(np.asarray(y), case["q"]))
        else:
            s = SOLVERS[kind]
            solve = (lambda y, w: float(s(np.asarray(y)))) if case["weight"] is None else \
                (lambda y, w: float(s(np.asarray(y), np.asarray(w))))
        for (i, j) in blocks_of(vals):
            members = [p for p in tid if us[i] <= p[0] <= us[j - 1]]
            exp = solve([p[1] for p in members], [p[2] for p in members])
            if not core.close_ff(vals[i], exp, rtol=tol, atol=_at(tol)):
                bad.append(("isotonic_fit", "block-value-not-solver-of-block", vals[i], exp, tags))
                break
    # invariance under order / shape / container, and NaN pairs ignored
    if rerun is not None:
        for name, c2 in variants(case):
            r2 = rerun(c2)
            if "err" in r2 or not (cmp_lists(r2["fcst_sorted"], [Fraction(x) for x in r["fcst_sorted"]])
                                   and r2["fcst_counts"] == r["fcst_counts"]
                                   and all(core.close_ff(a, b, rtol=tol, atol=_at(tol))
                                           for a, b in zip(r2["regression_values"], vals))
                                   and len(r2["regression_values"]) == len(vals)):
                bad.append(("isotonic_fit", "result-changes-under-" + name, r2.get("regression_values", r2.get("err")), vals,
                            dict(tags, variant=c2)))
                break
    # bootstrap band
    if case.get("bootstraps"):
        lowr, upr = r["lower"], r["upper"]
        if len(lowr) != len(us) or len(upr) != len(us):
            bad.append(("isotonic_fit", "band-shape", [len(lowr), len(upr)], len(us), tags))
        else:
            for a, b in zip(lowr, upr):
                if math.isnan(a) != math.isnan(b) or (not math.isnan(a) and a > b + 1e-12 * max(1, abs(b))):
                    bad.append(("isotonic_fit", "band-lower-above-upper", [lowr, upr], "lower <= upper", tags))
                    break
        if r["boot"].shape != (case["bootstraps"], len(vp)):
            bad.append(("isotonic_fit", "bootstrap-matrix-shape", list(r["boot"].shape), [case["bootstraps"], len(vp)], tags))
        if rerun is not None:
            r2 = rerun(case)
            same = ("err" not in r2 and np.array_equal(r2["boot"], r["boot"], equal_nan=True)
                    and np.array_equal(np.array(r2["lower"]), np.array(lowr), equal_nan=True)
                    and np.array_equal(np.array(r2["upper"]), np.array(upr), equal_nan=True))
            if not same:
                bad.append(("isotonic_fit", "bootstrap-not-reproducible-for-fixed-seed", "different", "identical", tags))
            c0 = dict(case, bootstraps=None)
            r0 = rerun(c0)
            if "err" in r0 or not cmp_lists(vals, [Fraction(x) for x in r0["regression_values"]]):
                bad.append(("isotonic_fit", "fit-changes-with-bootstraps", vals, r0.get("regression_values"), tags))
            if case.get("dtypes"):
                # storage-dtype invariance of the resampled fits: the same values stored as float64, the same seed
                r3 = rerun(dict(case, dtypes=None))
                same = ("err" not in r3 and r3["boot"].shape == r["boot"].shape
                        and np.allclose(r3["boot"], r["boot"], rtol=tol, atol=tol, equal_nan=True)
                        and np.allclose(np.array(r3["lower"]), np.array(lowr), rtol=tol, atol=tol, equal_nan=True)
                        and np.allclose(np.array(r3["upper"]), np.array(upr), rtol=tol, atol=tol, equal_nan=True))
                if not same:
                    bad.append(("isotonic_fit", "bootstrap-fits-change-under-float64-copies",
                                r["boot"].tolist()[:3], None if "err" in r3 else r3["boot"].tolist()[:3], tags))
    return bad


def variants(case):
    """the same multiset of valid pairs presented differently"""
    n = len(case["fcst"])
    out = []
    idx = list(range(n))
    # deterministic "shuffle": reverse and a rotation (the driver of the search is the random generator itself)
    for name, p in (("reversal", idx[::-1]), ("rotation", idx[n // 2:] + idx[:n // 2])):
        c2 = dict(case, fcst=[case["fcst"][i] for i in p], obs=[case["obs"][i] for i in p],
                  weight=None if case["weight"] is None else [case["weight"][i] for i in p],
                  shape=[n], container="numpy", perm=None, bootstraps=None, layout=None)
        out.append((name, c2))
    # flat numpy presentation of the same arrays
    out.append(("flattening", dict(case, shape=[n], container="numpy", perm=None, bootstraps=None, layout=None)))
    # the same container / shape / dims, every operand a fresh C-contiguous array
    if case.get("layout"):
        out.append(("c-contiguous-copies", dict(case, bootstraps=None, layout=None)))
    # the same container / shape / layout, every operand holding the same values as float64
    if case.get("dtypes"):
        out.append(("float64-copies", dict(case, bootstraps=None, dtypes=None)))
    # valid pairs only / extra NaN pairs
    vp = valid_pairs(case)
    if vp:
        c3 = dict(case, fcst=[p[0] for p in vp], obs=[p[1] for p in vp],
                  weight=None if case["weight"] is None else [p[2] for p in vp], shape=[len(vp)], container="numpy", perm=None,
                  bootstraps=None, layout=None)
        out.append(("dropping-nan-pairs", c3))
        d4 = None
        if case.get("dtypes"):                          # the two operands that receive a NaN need a float dtype
            d4 = dict(case["dtypes"])
            for k in ("f", "o"):
                d4[k] = d4[k] if d4[k] in FLOAT_DTYPES else "float64"
        c4 = dict(c3, fcst=c3["fcst"] + [NAN, 1.0], obs=c3["obs"] + [2.0, NAN],
                  weight=None if c3["weight"] is None else c3["weight"] + [1.0, 1.0], shape=[len(vp) + 2], dtypes=d4)
        out.append(("adding-nan-pairs", c4))
    return out


# ------------------------------------------------------------------------------------------------ infinite inputs
# +inf / -inf are legitimate VALUES of a forecast or an observation (an unbounded forecast, log(0) = -inf on a log scale):
# a pair is dropped only if one of its entries is NaN.  The Lean model / spec work on rationals, so this input class is
# compared BY THE ORACLE ONLY, on the extended reals:
#   * fcst_sorted = the distinct forecasts of the valid pairs (infinite ones included), fcst_counts = their multiplicities,
#     summing to the number of valid pairs — always;
#   * the fit depends on the forecasts only through their order and ties: the expected fit is that of the same pairs with
#     the forecast axis relabelled by a strictly increasing map (-inf -> below, +inf -> above every finite forecast), and that
#     finite case goes to the Lean Spec (max-min formula) as usual;
#   * infinite OBSERVATIONS: solvers that select / shift one observation (INF_SAFE) are exact on the extended reals — every
#     clause is checked; mean functional: when every -inf observation lies at a smaller forecast than every +inf
#     observation the max-min formula is defined (-inf up to the last -inf group, +inf from the first +inf group on, the
#     finite max-min fit of the pairs in between); otherwise a block holds both signs, its mean is inf - inf (IEEE NaN):
#     only forecasts / counts are compared there, likewise for the quantile / averaging solvers (numpy's lerp of an
#     infinite order statistic is NaN).
INF = float("inf")
INF_SAFE = ("max", "min", "first", "last", "min_minus_len", "max_plus_len")


def has_inf(case):
    return any(math.isinf(x) for x in case["fcst"]) or any(math.isinf(x) for x in case["obs"])


def relabel_map(case):
    """strictly increasing relabelling of the forecast axis onto finite values (NaN stays NaN)"""
    fin = [p[0] for p in valid_pairs(case) if not math.isinf(p[0])]
    lo = (min(fin) if fin else 0.0) - 1.0
    hi = (max(fin) if fin else 0.0) + 1.0
    return lambda x: lo if x == -INF else (hi if x == INF else x)


def inf_regime(case):
    """'finite-obs' | 'ordered' (every -inf observation at a smaller forecast than every +inf observation, or one sign only)
    | 'mixed-block' (some block must hold observations of both signs: its mean is undefined)"""
    vp = valid_pairs(case)
    neg = [p[0] for p in vp if p[1] == -INF]
    pos = [p[0] for p in vp if p[1] == INF]
    if not neg and not pos:
        return "finite-obs"
    if neg and pos and min(pos) <= max(neg):
        return "mixed-block"
    return "ordered"


def inf_plan(case):
    """(mode, L, U): mode 'full' = every clause on the relabelled case; 'mean-ordered' = -inf for forecasts <= L, +inf for
    forecasts >= U, finite max-min fit in between; 'counts-only'"""
    reg = inf_regime(case)
    if reg == "finite-obs" or case["kind"] in INF_SAFE:
        return "full", None, None
    if case["kind"] == "mean" and reg == "ordered":
        vp = valid_pairs(case)
        neg = [p[0] for p in vp if p[1] == -INF]
        pos = [p[0] for p in vp if p[1] == INF]
        return "mean-ordered", (max(neg) if neg else None), (min(pos) if pos else None)
    return "counts-only", None, None


def _middle(case, L, U):
    return [p for p in valid_pairs(case) if (L is None or p[0] > L) and (U is None or p[0] < U)]


def inf_spec_case(case):
    """the finite case whose max-min fit (Lean Spec) is needed for `case`, or None"""
    if case["kind"] != "mean":
        return None
    mode, L, U = inf_plan(case)
    m = relabel_map(case)
    if mode == "full":
        return dict(case, fcst=[m(x) for x in case["fcst"]])
    if mode == "mean-ordered":
        mid = _middle(case, L, U)
        if mid:
            return dict(case, fcst=[m(p[0]) for p in mid], obs=[p[1] for p in mid],
                        weight=None if case["weight"] is None else [p[2] for p in mid])
    return None


def inf_class(case):
    vp = valid_pairs(case)
    t = []
    if any(math.isinf(p[0]) for p in vp):
        t.append("inf:fcst")
    if any(math.isinf(p[1]) for p in vp):
        t.append("inf:obs")
    if any(math.isinf(p[0]) and math.isinf(p[1]) and p[0] != p[1] for p in vp):
        t.append("inf:opposite-sign-pair")
    if any(math.isinf(p[0]) and p[0] == p[1] for p in vp):
        t.append("inf:same-sign-pair")
    return t


def _same_floats(a, b):
    return len(a) == len(b) and all((x == y) or (math.isnan(x) and math.isnan(y)) for x, y in zip(a, b))


def check_inf_property(case, r, spec=None, rerun=None):
    """C15 on a case with infinite forecasts / observations (see the section comment); `spec` = c15.spec of
    inf_spec_case(case) when that is not None"""
    bad = []
    vp = valid_pairs(case)
    tags = dict(case_tags(case), infinite=True)
    tol = tol_of(case)
    if not vp:
        if r.get("err") != "ValueError":
            bad.append(("isotonic_fit", "no-valid-pairs-not-rejected", r.get("err", "a value"), "ValueError", tags))
        return bad
    if "err" in r:
        bad.append(("isotonic_fit", "exception", r["err"] + ": " + r.get("msg", ""), "a fit", tags))
        return bad
    us = sorted(set(p[0] for p in vp))
    cnt = [sum(1 for p in vp if p[0] == u) for u in us]
    vals = r["regression_values"]
    if not _same_floats(r["fcst_sorted"], us):
        bad.append(("isotonic_fit", "fcst_sorted-not-distinct-valid-forecasts", r["fcst_sorted"], us, tags))
        return bad
    if r["fcst_counts"] != cnt:
        bad.append(("isotonic_fit", "fcst_counts-wrong", r["fcst_counts"], cnt, tags))
    if sum(r["fcst_counts"]) != len(vp):
        bad.append(("isotonic_fit", "fcst_counts-sum", sum(r["fcst_counts"]), len(vp), tags))
    if len(vals) != len(us):
        bad.append(("isotonic_fit", "regression_values-shape-or-nan", vals, "%d values" % len(us), tags))
        return bad
    mode, L, U = inf_plan(case)
    m = relabel_map(case)
    if mode == "full":
        c2 = dict(case, fcst=[m(x) for x in case["fcst"]], bootstraps=None)
        r2 = dict(r, fcst_sorted=[m(x) for x in r["fcst_sorted"]])
        for site, sig, ob, ex, _t in check_property(c2, r2, spec=spec, rerun=None):
            bad.append((site, sig, ob, ex, tags))
    elif mode == "mean-ordered":
        mid_us = [u for u in us if (L is None or u > L) and (U is None or u < U)]
        mid_vals = list(spec["regression_values"]) if spec is not None else []
        if len(mid_vals) != len(mid_us):
            bad.append(("isotonic_fit", "oracle-internal-middle-length", len(mid_vals), len(mid_us), tags))
        else:
            exp = [-INF for u in us if L is not None and u <= L] + mid_vals + [INF for u in us if U is not None and u >= U]
            if not cmp_lists(vals, exp, tol):
                bad.append(("isotonic_fit", "not-the-least-squares-fit", vals,
                            [x if isinstance(x, float) else float(core.parse_fl(x)) for x in exp], tags))
    # the same multiset of valid pairs presented differently
    if rerun is not None:
        for name, c2 in variants(case):
            r2 = rerun(c2)
            ok = ("err" not in r2 and _same_floats(r2["fcst_sorted"], r["fcst_sorted"]) and r2["fcst_counts"] == r["fcst_counts"]
                  and len(r2["regression_values"]) == len(vals))
            if ok and mode != "counts-only":
                ok = all(core.close_ff(a, b, rtol=tol, atol=_at(tol)) for a, b in zip(r2["regression_values"], vals))
            if not ok:
                bad.append(("isotonic_fit", "result-changes-under-" + name,
                            r2.get("err") or [r2["fcst_sorted"], r2["fcst_counts"], r2["regression_values"]],
                            [r["fcst_sorted"], r["fcst_counts"], vals], dict(tags, variant=c2)))
                break
    # bootstrap: every valid pair takes part in the resampling (one column per valid pair), one band value per forecast
    if case.get("bootstraps"):
        if r["boot"].shape != (case["bootstraps"], len(vp)):
            bad.append(("isotonic_fit", "bootstrap-matrix-shape", list(r["boot"].shape), [case["bootstraps"], len(vp)], tags))
        if len(r["lower"]) != len(us) or len(r["upper"]) != len(us):
            bad.append(("isotonic_fit", "band-shape", [len(r["lower"]), len(r["upper"])], len(us), tags))
    return bad


def check_any(case, r, spec=None, rerun=None):
    if has_inf(case):
        return check_inf_property(case, r, spec=spec, rerun=rerun)
    return check_property(case, r, spec=spec, rerun=rerun)


def any_spec_case(case):
    """the case to send to c15.spec for `case` (None: no spec needed)"""
    if has_inf(case):
        return inf_spec_case(case)
    return case if case["kind"] == "mean" else None


def gen_inf_case(rng, kinds, boots=False, big=False):
    """a random case (gen_case) with +inf / -inf written into forecast and / or observation slots: infinite forecasts only,
    infinite observations only, a pair of OPPOSITE infinities (fcst=+inf, obs=-inf / fcst=-inf, obs=+inf), a pair of equal
    infinities, independent mixtures; NaN slots, ties, weights, shapes, containers, layouts as in gen_case; float64 storage
    (15 %: float32 forecasts / observations — infinities are representable there)"""
    c = gen_case(rng, kinds, big=big, boots=boots, dtypes=False)
    n = len(c["fcst"])
    f, o = c["fcst"], c["obs"]
    sgn = lambda: rng.choice([INF, -INF])
    mode = rng.choice(["fcst", "fcst", "obs", "opposite", "opposite", "opposite", "same", "mixed", "mixed"])
    k = rng.choice([1, 1, 2, 3])
    slots = [rng.randrange(n) for _ in range(k)]
    for i in slots:
        if mode == "fcst":
            f[i] = sgn()
        elif mode == "obs":
            o[i] = sgn()
        elif mode == "opposite":
            f[i] = sgn()
            o[i] = -f[i]
        elif mode == "same":
            f[i] = sgn()
            o[i] = f[i]
        else:
            if rng.random() < 0.6:
                f[i] = sgn()
            if rng.random() < 0.6:
                o[i] = sgn()
    if mode == "opposite" and rng.random() < 0.4:          # plus a finite / NaN neighbour sharing the infinite forecast
        j = rng.randrange(n)
        f[j] = f[slots[0]]
    if rng.random() < 0.15:
        c["dtypes"] = {"f": rng.choice(["float32", "float64"]), "o": rng.choice(["float32", "float64"]), "w": "float64"}
    return c


def enum_inf_cases(maxlen):
    """every sequence up to a length over the pairs {-inf, 1, +inf} x {-inf, 0, 2, +inf} (mean functional and max solver)"""
    pairs = list(itertools.product([-INF, 1.0, INF], [-INF, 0.0, 2.0, INF]))
    for n in range(1, maxlen + 1):
        for seq in itertools.product(pairs, repeat=n):
            f = [p[0] for p in seq]
            o = [p[1] for p in seq]
            if n < maxlen or seq[0] <= seq[-1]:
                yield mk_case(f, o)
            yield mk_case(f, o, None, "max")


def inf_corpus():
    C = []
    C.append(mk_case([1, 2, 3, INF, NAN, 2, 0.5, 4], [1, 5, 2, -INF, 4, NAN, 0, 3], None, "max", shape=[2, 4]))
    C.append(mk_case([1, 2, 3, INF, NAN, 2, 0.5, 4], [1, 5, 2, -INF, 4, NAN, 0, 3], None, "mean", shape=[2, 4]))
    C.append(mk_case([-INF, 1, 2, 3], [INF, 1, 2, 3], None, "max"))
    C.append(mk_case([-INF, 1, 2, 3], [INF, 1, 2, 3], None, "mean"))
    C.append(mk_case([INF], [-INF]))
    C.append(mk_case([INF, INF, 1], [-INF, 3, 2], [1, 2, 3], "wmean"))
    C.append(mk_case([-INF, 1, 1, INF], [0, 3, 1, 2], None, "quantile", 0.5))
    C.append(mk_case([1, 2, 3, 4], [-INF, 1, 0, INF], [1, 2, 1, 1]))
    return C


def corpus_cases():
    """fixed regression inputs (always run)"""
    C = []
    C.append(mk_case([1, 2, 3, 3], [10, 0, 4, 4], None, "quantile", 0.375))        # textbook-stack PAV and the code differ here
    C.append(mk_case([1, 1, 2, 2, 3, 3], [3, 2, 5, 1, 0, 7]))
    C.append(mk_case([1, 1, 1], [3, 2, 5]))
    C.append(mk_case([1], [3]))
    C.append(mk_case([2, 1, 2, 1], [1, 4, 3, 2], [1, 2, 0.5, 3], "mean", shape=[2, 2]))
    C.append(mk_case([3, 2, 1], [1, 2, 3], None, "min_minus_len"))
    C.append(mk_case([1, 2, 3, 4, 5], [5, 4, 3, 2, 1], [1, 2, 3, 2, 1], "max_plus_len"))
    C.append(mk_case([NAN, 1, 2], [1, NAN, 3], [1, 1, NAN]))
    C.append(mk_case([NAN, 1, 2], [1, NAN, 3], [1, 1, 2]))
    # operands with different memory layouts (square shapes: a positional mix-up passes every shape check)
    F2 = {"order": [1, 0], "step": [1, 1], "flip": [False, False], "offset": [0, 0]}
    C2 = {"order": [0, 1], "step": [1, 1], "flip": [False, False], "offset": [0, 0]}
    S2 = {"order": [0, 1], "step": [2, 1], "flip": [False, True], "offset": [1, 0]}
    C.append(mk_case([1, 2, 3, 4], [1, 4, 2, 8], None, "mean", shape=[2, 2], layout={"f": F2, "o": None, "w": None}))
    C.append(mk_case([1, 2, 3, 4, 5, 6, 7, 8, 9], [1, 5, 2, 7, 3, 9, 4, 6, 8], [1, 2, 3, 1, 2, 3, 1, 2, 3], "mean", shape=[3, 3],
                     layout={"f": None, "o": F2, "w": S2}))
    C.append(mk_case([1, 2, 3, 4, 5, 6], [6, 1, 5, 2, 4, 3], None, "quantile", 0.5, shape=[2, 3], container="xarray",
                     layout={"f": S2, "o": F2, "w": None}))
    C.append(mk_case([1, 2, 3, 4], [1, 4, 2, 8], [1, 2, 3, 4], "wmean", shape=[2, 2], container="xarray-permuted",
                     perm={"dims": [1, 0], "idx0": [0, 1]}, layout={"f": None, "o": C2, "w": C2}))
    return C


def enum_cases(maxlen, weighted_len):
    pool_f = [0.0, 1.0, 2.0]
    pool_o = [0.0, 1.0, 3.0]
    pairs = list(itertools.product(pool_f, pool_o))
    for n in range(1, maxlen + 1):
        for seq in itertools.product(pairs, repeat=n):
            f = [p[0] for p in seq]
            o = [p[1] for p in seq]
            yield mk_case(f, o)
            if n <= weighted_len:
                for ws in itertools.product([1.0, 3.0], repeat=n):
                    if any(x != 1.0 for x in ws):
                        yield mk_case(f, o, list(ws))


ENUM_DTYPES = [{"f": "float64", "o": "int64", "w": "float64"}, {"f": "int64", "o": "int64", "w": "int64"},
               {"f": "float64", "o": "int8", "w": "int32"}, {"f": "int32", "o": "int32", "w": "float32"},
               {"f": "float32", "o": "float32", "w": "float32"}, {"f": "float64", "o": "uint8", "w": "uint8"},
               {"f": "int8", "o": "float64", "w": "int8"}, {"f": "float32", "o": "int16", "w": "float64"}]


def enum_dtype_cases(maxlen, weighted_len):
    """the same finite space as enum_cases (all its values are small non-negative integers), every sequence stored once
    with integer / float32 / mixed dtypes (the dtype combination cycles through ENUM_DTYPES)"""
    for i, c in enumerate(enum_cases(maxlen, weighted_len)):
        yield dict(c, dtypes=dict(ENUM_DTYPES[i % len(ENUM_DTYPES)]))


def report(ctx, batch, case, bad):
    for site, sig, obs_, exp, tags in bad:
        ctx.fail(batch, "property", site, sig, describe(case) | {"perm": case.get("perm")}, observed=obs_, expected=exp, tags=tags)


def oracle(ctx, boost):
    rng = ctx.rng
    mult = 5 if boost else 1
    # 1. the mean functional against the exact max-min formula, exhaustively on short sequences
    L, WL = (ctx.n(3, 5), ctx.n(3, 4)) if not boost else (ctx.n(4, 5), ctx.n(3, 4))
    ecases = list(enum_cases(L, WL))
    ctx.exhaustive.append(f"mean functional vs max-min formula: all (fcst,obs) sequences of length <= {L} over a 3x3-value pool with unit "
                          f"weights, and with every non-unit {{1,3}} weight pattern up to length {WL} ({len(ecases)} cases)")
    especs = core.run_driver("C15", [spec_op(c) for c in ecases])
    for c, s in zip(ecases, especs):
        r = run_impl(c)
        ctx.case("mean-vs-maxmin-exhaustive", describe(c), nontrivial=len(c["fcst"]) >= 2)
        report(ctx, "mean-vs-maxmin-exhaustive", c, check_property(c, r, spec=s))
    # 1b. the same space with every operand stored in an integer / float32 / mixed dtype: the values, hence the expected
    #     fit, are those of the float64 case (block means are non-integers in most of them)
    dcases = list(enum_dtype_cases(L, min(WL, 2)))
    ctx.exhaustive.append(f"storage dtypes: all (fcst,obs) sequences of length <= {L} over the 3x3-value pool (weights {{1,3}} up to length "
                          f"{min(WL, 2)}) stored as int64 / int32 / int16 / int8 / uint8 / float32 / mixed arrays, mean functional vs max-min "
                          f"formula ({len(dcases)} cases)")
    dspecs = core.run_driver("C15", [spec_op(c) for c in dcases])
    for c, s in zip(dcases, dspecs):
        r = run_impl(c)
        ctx.tag(dtype_class(c))
        ctx.tag("dtype-enum:non-integer-block-mean" if any(Fraction(core.parse_fl(v)).denominator != 1 for v in s["regression_values"])
                else "dtype-enum:integer-block-means")
        ctx.case("mean-vs-maxmin-dtypes-exhaustive", describe(c), nontrivial=len(c["fcst"]) >= 2)
        report(ctx, "mean-vs-maxmin-dtypes-exhaustive", c, check_property(c, r, spec=s))
    # 2. random cases: mean vs max-min + every relational clause
    kinds = ["mean"] * 6 + ["quantile"] * 3 + IDEMPOTENT
    cases = corpus_cases() + [gen_case(rng, kinds) for _ in range(ctx.n(400, 5000) * mult)]
    cases += [gen_case(rng, kinds, big=True) for _ in range(ctx.n(25, 250) * mult)]
    # non-dyadic quantile levels (relations only; not sent to the model)
    for _ in range(ctx.n(60, 600) * mult):
        c = gen_case(rng, ["quantile"])
        c["q"] = rng.choice(ANY_Q)
        cases.append(c)
    # storage dtypes: integer counts / 0-1 events / float32 / mixed operands (always), for every functional
    cases += [gen_case(rng, ["mean"] * 4 + kinds, dtypes=True) for _ in range(ctx.n(500, 6000) * mult)]
    cases += [gen_case(rng, ["mean"], big=True, dtypes=True) for _ in range(ctx.n(10, 100) * mult)]
    cases += [gen_events_case(rng, rng.choice(["mean"] * 6 + ["quantile", "median", "wmean", "max"]))
              for _ in range(ctx.n(200, 2500) * mult)]
    cases = [c for c in cases if c["kind"] in IDEMPOTENT + ["mean", "quantile"]]
    specs = core.run_driver("C15", [spec_op(c) for c in cases])
    for c, s in zip(cases, specs):
        tag_case(ctx, c)
        r = run_impl(c)
        ctx.case("property-random", describe(c), nontrivial=len(valid_pairs(c)) >= 2)
        report(ctx, "property-random", c, check_property(c, r, spec=s if c["kind"] == "mean" else None, rerun=run_impl))
    # 3. bootstrap bands: lower <= upper, shapes, fixed-seed reproducibility, fit unchanged
    for _ in range(ctx.n(100, 1200) * mult):
        c = gen_case(rng, ["mean", "mean", "quantile", "median", "wmean", "max"], boots=True)
        r = run_impl(c)
        ctx.case("bootstrap-band", describe(c), nontrivial=len(valid_pairs(c)) >= 2)
        report(ctx, "bootstrap-band", c, check_property(c, r, rerun=run_impl))
    # 3b. bootstrap with integer / float32 / mixed storage: in addition the resampled fits and the band must be those of
    #     the float64 copies for the same seed; the fit itself against the max-min formula
    bcases = [gen_case(rng, ["mean", "mean", "mean", "quantile", "median", "wmean"], boots=True, dtypes=True) for _ in range(ctx.n(100, 1200) * mult)]
    bcases += [gen_events_case(rng, rng.choice(["mean"] * 5 + ["quantile", "wmean"]), boots=True) for _ in range(ctx.n(60, 700) * mult)]
    bspecs = core.run_driver("C15", [spec_op(c) for c in bcases])
    for c, s in zip(bcases, bspecs):
        r = run_impl(c)
        ctx.tag("bootstrap-" + dtype_class(c))
        ctx.case("bootstrap-band-dtypes", describe(c), nontrivial=len(valid_pairs(c)) >= 2)
        report(ctx, "bootstrap-band-dtypes", c, check_property(c, r, spec=s if c["kind"] == "mean" else None, rerun=run_impl))
    # 4. infinite forecasts / observations
    oracle_infinite(ctx, boost)


def oracle_infinite(ctx, boost):
    """4. infinite forecasts / observations (oracle only: the Lean model / spec are rational)"""
    rng = ctx.rng
    mult = 5 if boost else 1
    kinds = ["mean"] * 6 + ["quantile"] * 2 + list(INF_SAFE) + IDEMPOTENT
    L = ctx.n(2, 3) if not boost else 3
    ecases = list(enum_inf_cases(L))
    ctx.exhaustive.append(f"infinite inputs: all (fcst,obs) sequences of length <= {L} over {{-inf,1,+inf}} x {{-inf,0,2,+inf}}, mean "
                          f"functional and max solver: forecasts / counts always, the fit where the extended-real max-min formula is "
                          f"defined ({len(ecases)} cases)")
    batches = [("infinite-exhaustive", ecases, False)]
    rcases = inf_corpus() + [gen_inf_case(rng, kinds) for _ in range(ctx.n(700, 8000) * mult)]
    rcases += [gen_inf_case(rng, kinds, big=True) for _ in range(ctx.n(15, 150) * mult)]
    batches.append(("infinite-random", rcases, True))
    bcases = [gen_inf_case(rng, ["mean", "mean", "max", "median", "quantile", "min"], boots=True) for _ in range(ctx.n(60, 700) * mult)]
    batches.append(("infinite-bootstrap", bcases, False))
    allc = [c for _, cs, _ in batches for c in cs]
    scs = [any_spec_case(c) for c in allc]
    res = iter(core.run_driver("C15", [spec_op(sc) for sc in scs if sc is not None]))
    specs = [next(res) if sc is not None else None for sc in scs]
    k = 0
    for batch, cs, rr in batches:
        for c in cs:
            s = specs[k]
            k += 1
            if not has_inf(c):                            # (the injected slot may have been overwritten: an ordinary case)
                ctx.tag("inf:none")
            for t in inf_class(c):
                ctx.tag(t)
            ctx.tag("inf-regime:" + inf_regime(c))
            ctx.tag("inf-check:" + inf_plan(c)[0])
            ctx.tag("inf-kind:" + c["kind"])
            r = run_impl(c)
            ctx.case(batch, describe(c), nontrivial=len(valid_pairs(c)) >= 2)
            report(ctx, batch, c, check_any(c, r, spec=s, rerun=run_impl if rr else None))


def replay(ctx, payload):
    case = payload["case"]
    case.setdefault("perm", None)
    case.setdefault("layout", None)
    case.setdefault("dtypes", None)
    for k in ("fcst", "obs", "weight"):                  # the recorded payload spells NaN as the string "nan"
        if case.get(k) is not None:
            case[k] = [float(x) for x in case[k]]
    for k in ("bootstraps",):
        case.setdefault(k, None)
    spec = None
    sc = any_spec_case(case)
    if sc is not None:
        spec = core.run_driver("C15", [spec_op(sc)])[0]
    bad = check_any(case, run_impl(case), spec=spec, rerun=run_impl)
    sig = payload.get("signature")
    return any(b[1] == sig for b in bad) if sig else bool(bad)
