"""C05 — point and interval scores equal their textbook definitions on every input."""
from __future__ import annotations

import itertools
import math
from fractions import Fraction

import numpy as np
import pandas as pd
import xarray as xr

from sv import core

PROPERTY = "C05"
GEN = ["Point"]
PROPS = ["ScoresVerif/Props/C05.lean"]
DRIVER_DEPS = ["ScoresVerif.Driver.C05Spec", "ScoresVerif.Driver.C05"]
LEVEL = "proof"
TRUSTED = ["libm sqrt (rmse, Pearson, KGE): sqrt is uninterpreted in the model; values are compared through exact "
           "moments / radicands and the theorems about sqrt are stated over the reals",
           "xr.corr / .std / .mean(skipna) are library calls: modelled by their formula (Model/PointScores.lean), tied by "
           "correspondence only",
           "hand model of apply_weights + broadcast_and_match_nan + nan-mean over one fibre; the harness does the "
           "broadcasting and the grouping into fibres"]
ASSUMPTIONS = ["inputs are dyadic rationals of small magnitude so float + - * and comparisons are exact; quotients, "
               "non-dyadic quantile levels and sqrt are compared to 1e-9",
               "float rounding, overflow and signed zero are not modelled",
               "reduce_dims / preserve_dims are passed in every spelling (absent, explicit None, 'all', a bare dimension name, "
               "lists incl. every-dim and empty lists); the harness reads the DOCUMENTED meaning of the request (reduce_set), "
               "the dimension bookkeeping itself is C01",
               "weights carry no dimension the data lacks (F9) and are non-negative",
               "storage dtypes (int64 / int32 / int16 / int8 / bool / float32, mixed per data operand; uint8 / uint16 in a batch "
               "of their own) hold exactly representable values; the expected score is that of the VALUES (the Lean model / Spec "
               "have no storage dtype) and equals the result for float64 storage; weights stay float64 and fractional; 1e-5 where "
               "the library legitimately computes in float32, 1e-9 otherwise; three dtype defect classes of the unchanged code "
               "(F-C05a/b/c, notes/C05.md) are tagged known findings and skipped in the correspondence"]
MANIFEST = dict(
    level="proof",
    text="Kernel-checked Lean theorems about the pointwise kernels regenerated from functions.py, standard_impl.py, "
         "quantile_loss_impl.py and interval_impl.py on every run, composed with a hand model of weights + NaN-skipping mean: "
         "mse/mae/additive_bias/quantile_score (weighted, angular or not) equal the textbook mean over the valid cases for "
         "fibres of any length; multiplicative_bias and pbias equal sum-then-ratio as IEEE quotients incl. the zero-denominator "
         "outcomes; pinball = max form, non-negative, 0 at ties; interval score = width + clipped penalties = quantile-interval "
         "score at symmetric levels = textbook Winkler form = (2/alpha) * pinball sum, obs on an end gives the width; angular "
         "difference = min(d mod 360, 360 - d mod 360), range [0,180], symmetric, periodic for every integer number of turns, "
         "self 0; MSE = bias^2 + var f + var o - 2 cov for series of any length; the library-style demeaned moments equal the "
         "raw-moment forms; over the reals rmse^2 = mse, KGE(f,f) = 1, MSE decomposition with sigma and rho.  Tied to the code "
         "by the translator, by a differential correspondence of every public function (xarray and pandas entry points, "
         "kge with components) against the model, and by an independent oracle evaluating the textbook Spec in exact "
         "arithmetic plus relational laws between implementation runs.  A systematic sweep puts every xarray-level function "
         "through every spelling of the dims request (default, None, 'all' to reduce / to preserve, bare name, lists, "
         "preserve-all, empty list) x without / with weights other than 0/1, against the model and against the Spec; the laws "
         "between two public functions (rmse^2 = mse linear and angular, interval = quantile-interval at symmetric levels, "
         "interval = scaled pinball sum, obs on an end = mean width, pinball(1/2) = mae/2, mean_error = additive_bias, "
         "pbias = 100(multiplicative_bias - 1), angular score = linear score of the angular difference, pandas = xarray entry "
         "point, one request = the same request written as lists) are evaluated under the same product of spellings and weights.  "
         "Storage dtypes: every function (xarray and pandas entry points, interval ends included) is also fed the same labelled "
         "values stored as int64 / int32 / int16 / int8 / bool / float32 / float64, mixed per operand (integer storage next to "
         "fractional float storage, fractional float64 weights, every request spelling), and uint8 / uint16 in a separate batch: "
         "against the model, against the textbook Spec of the values, and against the run on float64 storage.",
    note="Trusted: Lean kernel; propext/Classical.choice/Quot.sound; py2lean translator; SV.Fl (IEEE minus rounding, overflow, "
         "signed zero); the hand model of apply_weights/broadcast_and_match_nan/mean(skipna)/std/xr.corr on one fibre (tied by "
         "correspondence only; the harness does broadcasting and grouping, dimension handling itself is C01); sqrt is "
         "uninterpreted in the model: rmse, Pearson and KGE are compared through exact mse / moments / the translated KGE tail "
         "evaluated on float sigma and rho, and the sqrt theorems are about the formula over the reals, not libm; dyadic "
         "inputs, tolerance 1e-9; the meaning of each request spelling is the harness's reading of the documentation "
         "(reduce_set); weights never carry a dimension the data lacks (F9); Dataset inputs and coordinate alignment are not "
         "generated.  Storage dtypes are not modelled (model and Spec are functions of the exact values): that input class is "
         "compared by the oracle, at 1e-5 where the library legitimately computes in float32 (float32 operand; <= 16-bit integer "
         "operands of the functions that mask with .where first), 1e-9 otherwise; three defect classes of the unchanged code, "
         "decided from the input alone (dtype_defect: int8 arithmetic overflow F-C05a, unsigned wrap-around F-C05b, bool - bool "
         "TypeError F-C05c; notes/C05.md), are tagged known findings and skipped in the correspondence.",
    technique="Lean 4 theorems over translator-regenerated kernels + hand reduction model + differential correspondence + exact Spec oracle",
    design="6/C05")
RULE = ("random labelled arrays (1-2 dims, sizes 1-5) over a dyadic pool with 40-60 % of observations copied from the "
        "forecast / an interval end, NaN in every slot, optional weights, reduce/preserve requests in every spelling "
        "(absent, None, 'all', bare name, lists, every-dim list, empty list); plus a systematic sweep function x request "
        "spelling x without/with non-0/1 weights, and relational laws walked round-robin through the same product; "
        "parameters from pools containing both sides of each boundary; the same generators with drawn storage dtypes per data "
        "operand (float32 / float32-float64 mixtures on the dyadic values; integer-valued data - rounded or scaled by 4, ties "
        "and interval order kept - in one integer dtype, independent int64..int8 / float / bool dtypes, or integer storage next to "
        "fractional float storage; unsigned storage on shifted non-negative values in its own batch; NaN only in float storage); "
        "distinct = distinct canonical case; "
        "non-trivial = at least one output cell is not NaN and the case is not in the malformed stream")

NAN = float("nan")
MEAN_FNS = ["mse", "mae", "rmse", "additive_bias", "mean_error", "multiplicative_bias", "pbias", "quantile"]
ALL_KINDS = MEAN_FNS + ["mse_ang", "mae_ang", "rmse_ang", "pearsonr", "kge", "qis", "interval",
                        "pandas_mse", "pandas_rmse", "pandas_mae", "pandas_mse_ang", "pandas_mae_ang", "pandas_rmse_ang"]


# ----------------------------------------------------------------------------- case representation
def S(x):
    return core.fl_str(x)


def F(s):
    """protocol string -> python float"""
    v = core.parse_fl(s)
    return float(v)


def mk(spec, dtype=None):
    """{"dims": [...], "shape": [...], "data": [str...]} -> DataArray (no coordinates), stored in numpy dtype `dtype`
    (default float64); every value must be exactly representable there (the VALUES never change with the storage)"""
    a = np.array([F(s) for s in spec["data"]], dtype=float).reshape(spec["shape"])
    if dtype not in (None, "float64"):
        b = a.astype(dtype)
        if not np.array_equal(b.astype(float), a, equal_nan=True):
            raise AssertionError(f"value not representable in storage dtype {dtype}: {spec['data']}")
        a = b
    return xr.DataArray(a, dims=[str("".join(list(d))) for d in spec["dims"]])


def spec_of(dims, sizes, vals):
    return {"dims": list(dims), "shape": [sizes[d] for d in dims], "data": [S(v) for v in vals]}


def full_layout(case, names):
    """broadcast the named operands to the union of dims (sorted), flattened row-major.
    returns dims, shape, {name: flat list of str or None}"""
    sizes = case["sizes"]
    dims = sorted(sizes)
    shape = [sizes[d] for d in dims]
    out = {}
    for nm in names:
        sp = case.get(nm)
        if sp is None:
            out[nm] = None
            continue
        a = np.array(sp["data"], dtype=object).reshape(sp["shape"])
        # move to sorted order of its own dims, then broadcast
        own = list(sp["dims"])
        order = sorted(range(len(own)), key=lambda i: own[i])
        a = a.transpose(order) if own else a
        own_sorted = sorted(own)
        idx = tuple(slice(None) if d in own_sorted else None for d in dims)
        a = np.broadcast_to(a[idx], shape)
        out[nm] = list(a.reshape(-1))
    return dims, shape, out


def req_names(v):
    """a request value (list of names | bare dimension name | 'all') -> list of names, or 'all'"""
    if isinstance(v, str):
        return "all" if v == "all" else [v]
    return list(v)


def reduce_set(case):
    """the dimensions the DOCUMENTED meaning of the request averages over.  A request value is a list of names, a bare
    dimension name (str), the word 'all', or None (= not given); both None / absent = reduce everything"""
    dims = sorted(case["sizes"])
    req = case["req"]
    if req.get("reduce_dims") is not None:
        names = req_names(req["reduce_dims"])
        return dims if names == "all" else [d for d in dims if d in names]
    if req.get("preserve_dims") is not None:
        names = req_names(req["preserve_dims"])
        return [] if names == "all" else [d for d in dims if d not in names]
    return dims


def req_spelling(req):
    """name of the way the request is written (measured input distribution, failure tags)"""
    for k in ("reduce_dims", "preserve_dims"):
        if k in req:
            v = req[k]
            if v is None:
                continue
            short = k.split("_")[0]
            if isinstance(v, str):
                return short + ("-all" if v == "all" else "-str")
            return short + ("-empty-list" if len(v) == 0 else "-list")
    return "explicit-none" if req else "default"


def fibres(case):
    """list (one per output cell, row-major over the preserved dims in sorted order) of flat positions"""
    dims = sorted(case["sizes"])
    shape = [case["sizes"][d] for d in dims]
    R = reduce_set(case)
    P = [d for d in dims if d not in R]
    pos = np.arange(int(np.prod(shape)) if shape else 1).reshape(shape)
    perm = [dims.index(d) for d in P] + [dims.index(d) for d in R]
    pos = pos.transpose(perm).reshape(int(np.prod([case["sizes"][d] for d in P])) if P else 1, -1)
    return P, [list(map(int, row)) for row in pos]


def req_kwargs(case):
    req = case["req"]
    out = {}
    for k in ("reduce_dims", "preserve_dims"):
        if k in req:
            v = req[k]
            if v is None:
                out[k] = None
            elif isinstance(v, str):
                out[k] = "".join(list(v))                  # bare dimension name or 'all': fresh str object
            else:
                out[k] = ["".join(list(d)) for d in v]     # fresh str objects
    return out


def flat_result(x, P):
    """DataArray / scalar result -> flat list of floats ordered like fibres()"""
    if isinstance(x, xr.DataArray):
        if set(x.dims) != set(P):
            raise AssertionError(f"result dims {x.dims} != expected {P}")
        return [float(v) for v in np.asarray(x.transpose(*P).values, dtype=float).reshape(-1)]
    return [float(x)]


# ----------------------------------------------------------------------------- generators
ALPHAS = [Fraction(1, 8), Fraction(1, 4), Fraction(1, 2), Fraction(3, 4), Fraction(7, 8), 0.1, 0.9, 0.3, 0.05, 0.99]
BAD_ALPHAS = [0, 1, 0.0, 1.0, -0.25, 1.5]
LEVEL_PAIRS = [(0.25, 0.75), (0.125, 0.5), (0.5, 0.875), (0.05, 0.95), (0.1, 0.9), (0.025, 0.975), (0.25, 0.5), (0.1, 0.3)]
BAD_LEVEL_PAIRS = [(0.5, 0.5), (0.75, 0.25), (0.0, 0.5), (0.5, 1.0), (0, 1), (-0.1, 0.5), (0.5, 1.5)]
RANGES = [0.5, 0.25, 0.75, 0.9, 0.8, 0.95, 0.125, 0.6,
          # ranges with many significant digits (1 / 2 sigma coverage, thirds, nearly 1): the quantile levels derived from them must not be rounded
          0.6827, 0.9545, 0.99999, 0.333333333333, 0.0001220703125]
BAD_RANGES = [0, 1, 0.0, 1.0, -0.5, 1.5]


def vals(rng, n, angular=False, nan_p=0.1):
    out = []
    for _ in range(n):
        if rng.random() < nan_p:
            out.append(NAN)
        elif angular:
            out.append(rng.choice([rng.randint(-16, 16) * 45.0, core.dyadic(rng, -800, 800, 4), rng.randint(-3, 3) * 360.0,
                                   core.dyadic(rng, 0, 360, 2)]))
        else:
            out.append(core.dyadic(rng))
    return out


def gen_sizes(rng, max_dims=2):
    nd = rng.choice([1, 1, 2, 2, 2][:3 + max_dims])
    names = ["a", "b"][:nd]
    return {d: rng.choice([1, 2, 2, 3, 3, 4, 5]) for d in names}


def sub_dims(rng, dims, p_same=0.75):
    dims = list(dims)
    if rng.random() < p_same or len(dims) == 0:
        d = dims[:]
    else:
        d = [x for x in dims if rng.random() < 0.5]
    rng.shuffle(d)
    return d


def all_reqs(dims):
    """EVERY spelling of the dims request for these dims: default, explicit None, 'all' (reduce / preserve), a bare
    dimension name, lists (proper subset, every dim = reduce-all / preserve-all, empty)"""
    dims = list(dims)
    out = [{}, {"reduce_dims": None, "preserve_dims": None}, {"reduce_dims": "all"}, {"preserve_dims": "all"}]
    for k in ("reduce_dims", "preserve_dims"):
        out += [{k: d} for d in dims]
        if len(dims) > 1:
            out += [{k: [d]} for d in dims]
        out += [{k: dims[:]}, {k: dims[::-1]}, {k: []}]
    return out


def gen_req(rng, dims):
    dims = list(dims)
    r = rng.random()
    if r < 0.2:
        return {}
    if r < 0.55:
        # every spelling, uniformly: explicit None, 'all' (reduce/preserve), bare string, one-name list, full list, empty list
        return dict(rng.choice(all_reqs(dims)))
    sub = [d for d in dims if rng.random() < 0.5] or [rng.choice(dims)]
    rng.shuffle(sub)
    return {"reduce_dims": sub} if r < 0.78 else {"preserve_dims": sub}


def nsize(sizes, dims):
    n = 1
    for d in dims:
        n *= sizes[d]
    return n


def copy_from(rng, target, source_spec, case, p):
    """overwrite a fraction p of target's entries by the broadcast value of another operand (ties)"""
    return target


W_POOL = [0.0, 0.25, 0.5, 1.0, 1.0, 2.0, 3.0, 1.5]
SWEEP_SIZES = [1, 2, 2, 2, 3, 3, 3, 4]     # sizes of the systematic sweep: mostly >= 2 so that a reduction really averages


def gen_weights(rng, sizes, dims, pool, force):
    """weights over a sub-list of dims; force=True: every dim, and at least one value that is neither 0 nor 1 (a 0/1 mask
    cannot tell w*|e| from sqrt(w*e^2) or w from w^2)"""
    wd = sub_dims(rng, dims, 1.0 if force else 0.5)
    w = [rng.choice(pool + [NAN if rng.random() < 0.3 else 1.5]) for _ in range(nsize(sizes, wd))]
    if force and not any(x == x and x not in (0.0, 1.0) for x in w):
        w[rng.randrange(len(w))] = rng.choice([0.25, 0.5, 2.0, 3.0, 1.5])
    return spec_of(wd, sizes, w)


def gen_point_case(rng, kind, malformed=False, force=None):
    """force = {"nd": number of dims, "req": the request, "weights": True | False} pins what is otherwise drawn"""
    force = force or {}
    angular = kind.endswith("_ang")
    fn = kind
    pandas = kind.startswith("pandas_")
    sizes = {"a": rng.choice([1, 2, 3, 4, 5, 7])} if pandas else gen_sizes(rng)
    if "nd" in force and not pandas:
        sizes = {d: rng.choice(SWEEP_SIZES) for d in ["a", "b"][:force["nd"]]}
    dims = sorted(sizes)
    fd = dims[:]
    rng.shuffle(fd)
    needs_sub = kind in ("quantile",)       # obs dims must be a subset of fcst dims
    od = sub_dims(rng, dims, 0.7 if not pandas else 1.0)
    if kind in ("pearsonr", "kge") and rng.random() < 0.8:
        od = dims[:]
    nan_p = rng.choice([0.0, 0.0, 0.1, 0.3] if not force else [0.0, 0.0, 0.1])
    f = vals(rng, nsize(sizes, fd), angular, nan_p)
    o = vals(rng, nsize(sizes, od), angular, nan_p)
    case = {"kind": kind, "sizes": sizes, "fcst": spec_of(fd, sizes, f), "obs": spec_of(od, sizes, o), "weights": None,
            "req": {} if pandas else (force["req"] if "req" in force else gen_req(rng, dims)), "params": {},
            "malformed": malformed}
    # ties: copy the forecast into the observation at ~half of the positions (same layout needed: only when dims agree)
    if sorted(od) == sorted(fd) and rng.random() < 0.7:
        fa = np.array(f, dtype=float).reshape([sizes[d] for d in fd])
        fa = fa.transpose([fd.index(d) for d in od]).reshape(-1)
        p = rng.choice([0.3, 0.5, 1.0] if not force else [0.3, 0.5]) if rng.random() < 0.9 else 0.0
        shift = rng.choice([0.0, 0.0, 180.0, 360.0, -360.0, 720.0]) if angular else 0.0
        o2 = [(fa[i] + shift if (rng.random() < p and not math.isnan(fa[i])) else o[i]) for i in range(len(o))]
        case["obs"] = spec_of(od, sizes, o2)
    if kind not in ("pearsonr", "kge") and not pandas and force.get("weights", rng.random() < 0.45):
        case["weights"] = gen_weights(rng, sizes, dims, W_POOL[:-1], bool(force.get("weights")))
    if kind == "quantile":
        case["params"]["alpha"] = S(rng.choice(BAD_ALPHAS) if malformed else rng.choice(ALPHAS))
    if kind == "kge":
        r = rng.random()
        if r < 0.4:
            case["params"]["scaling_factors"] = None
        else:
            case["params"]["scaling_factors"] = [S(rng.choice([0, 0.5, 1, 1, 2, 0.25, 3])) for _ in range(3)]
            case["params"]["sf_numpy"] = rng.random() < 0.4
        case["params"]["include_components"] = rng.random() < 0.5
    # force interesting fibres now and then: all-NaN fibre, constant series, zero-mean obs
    r = rng.random()
    if r < 0.06 and not force:
        case["fcst"]["data"] = ["nan"] * len(case["fcst"]["data"])
    elif r < 0.12:
        c = S(core.dyadic(rng))
        case["obs"]["data"] = [c] * len(case["obs"]["data"])
    elif r < 0.2 and len(case["obs"]["data"]) >= 2:
        n = len(case["obs"]["data"])
        v = [core.dyadic(rng) for _ in range(n - 1)]
        case["obs"]["data"] = [S(x) for x in v] + [S(-sum(v))]
    elif r < 0.25:
        c = S(core.dyadic(rng))
        case["fcst"]["data"] = [c] * len(case["fcst"]["data"])
    return case


def gen_interval_case(rng, kind, malformed=False, force=None):
    force = force or {}
    sizes = gen_sizes(rng)
    if "nd" in force:
        sizes = {d: rng.choice(SWEEP_SIZES) for d in ["a", "b"][:force["nd"]]}
    dims = sorted(sizes)
    ld = dims[:]
    rng.shuffle(ld)
    ud = dims[:]
    rng.shuffle(ud)
    od = sub_dims(rng, dims, 0.7)
    n = nsize(sizes, dims)
    nan_p = rng.choice([0.0, 0.0, 0.1, 0.25] if not force else [0.0, 0.0, 0.1])
    # generate in sorted-dims layout, then transpose into each operand's own layout
    L = [core.dyadic(rng) for _ in range(n)]
    U = [L[i] + rng.choice([0.0, 0.25, 1.0, 2.5, core.dyadic(rng, 0, 8)]) for i in range(n)]
    bad_order = malformed == "order"
    if bad_order:
        i = rng.randrange(n)
        U[i] = L[i] - rng.choice([0.25, 1.0, 3.0])
    shape = [sizes[d] for d in dims]

    def lay(v, own):
        a = np.array(v, dtype=float).reshape(shape)
        return list(a.transpose([dims.index(d) for d in own]).reshape(-1))
    Y = []
    for i in range(n):
        r = rng.random()
        Y.append(L[i] if r < 0.2 else U[i] if r < 0.4 else (L[i] + U[i]) / 2 if r < 0.5 else core.dyadic(rng, -20, 20))
    if sorted(od) != dims:
        Yo = vals(rng, nsize(sizes, od), False, 0.0)
        if rng.random() < 0.5 and len(Yo):   # put the broadcast obs exactly on some end
            Yo[0] = rng.choice(L + U)
    else:
        Yo = list(np.array(Y, dtype=float).reshape(shape).transpose([dims.index(d) for d in od]).reshape(-1))

    def nanify(v):
        return [NAN if rng.random() < nan_p else x for x in v]
    case = {"kind": kind, "sizes": sizes, "lower": spec_of(ld, sizes, nanify(lay(L, ld))),
            "upper": spec_of(ud, sizes, nanify(lay(U, ud))), "obs": spec_of(od, sizes, nanify(Yo)), "weights": None,
            "req": force["req"] if "req" in force else gen_req(rng, dims), "params": {}, "malformed": bool(malformed)}
    if force.get("weights", rng.random() < 0.4):
        case["weights"] = gen_weights(rng, sizes, dims, [0.0, 0.5, 1.0, 1.0, 2.0], bool(force.get("weights")))
    if kind == "qis":
        a, b = rng.choice(BAD_LEVEL_PAIRS) if malformed == "param" else rng.choice(LEVEL_PAIRS)
        case["params"] = {"lower_level": S(a), "upper_level": S(b)}
    else:
        case["params"] = {"interval_range": S(rng.choice(BAD_RANGES) if malformed == "param" else rng.choice(RANGES))}
    return case


def gen_case(rng, kind=None, malformed_p=0.12, force=None):
    kind = kind or rng.choice(ALL_KINDS)
    if kind in ("qis", "interval"):
        m = rng.choice(["param", "order"]) if rng.random() < malformed_p * 1.5 else False
        return gen_interval_case(rng, kind, m, force)
    m = kind == "quantile" and rng.random() < malformed_p * 2
    return gen_point_case(rng, kind, m, force)


XARRAY_KINDS = [k for k in ALL_KINDS if not k.startswith("pandas_")]
UNWEIGHTED_KINDS = ("pearsonr", "kge")


def sweep_cases(rng, rounds=1):
    """the systematic part: EVERY xarray-level function x EVERY spelling of the dims request (all_reqs) x without / with
    weights (at least one weight other than 0/1), on 2-dim inputs (and, every other round, 1-dim inputs)"""
    out = []
    for rd in range(rounds):
        for nd in ((2,) if rd % 2 == 0 else (1, 2)):
            for kind in XARRAY_KINDS:
                for req in all_reqs(["a", "b"][:nd]):
                    for w in ((False,) if kind in UNWEIGHTED_KINDS else (False, True)):
                        out.append(gen_case(rng, kind, malformed_p=0.0, force={"nd": nd, "req": dict(req), "weights": w}))
    return out


# ----------------------------------------------------------------------------- storage dtypes
# The VALUES of a case are the exact rationals in case[operand]["data"]; case["dtypes"] = {operand: numpy dtype name} only
# says in which dtype each data operand (fcst / obs / lower / upper) is STORED when handed to the library (weights stay
# float64 and fractional, parameters stay Python floats).  Every value is exactly representable in its storage dtype
# (integers in the integer dtypes, 0/1 in bool, small dyadics in float32, NaN only in float storage), so the expected
# result - model and textbook Spec work on exact rationals - depends on the values only.
SIGNED = ["int64", "int32", "int16", "int8"]
UNSIGNED = ["uint8", "uint16"]
FLOATS = ["float32", "float64"]
NO_SUBTRACT = ("multiplicative_bias", "pbias", "pearsonr", "kge")     # mask with .where (-> floating point) before any arithmetic
SQUARING = ("mse", "rmse", "mse_ang", "rmse_ang", "pandas_mse", "pandas_rmse", "pandas_mse_ang", "pandas_rmse_ang")
DEFECTS = {"F-C05a": "narrow signed integer storage: the library's own difference / square / `% 360` runs in int8 (int16)",
           "F-C05b": "unsigned storage: fcst - obs (interval end - obs) wraps around where it is negative; uint8 cannot hold 360",
           "F-C05c": "bool - bool: numpy refuses boolean subtraction (TypeError)"}


def data_ops(case):
    return ("lower", "upper", "obs") if case["kind"] in ("qis", "interval") else ("fcst", "obs")


def dtype_of(case, name):
    return ((case.get("dtypes") or {}).get(name)) or "float64"


def _flag(b, case):
    """FLAG TYPE class: a boolean option arrives as a Python bool or — from a numpy comparison, an array element or pandas
    metadata — as numpy.bool_; both mean the same thing (`is_angular is True` would miss the second)."""
    import zlib
    h = zlib.crc32(repr(sorted((k, repr(v)) for k, v in case.items())).encode())
    return bool(b) if h % 3 == 0 else np.bool_(b)


def is_angular_kind(kind):
    return kind.endswith("_ang")


def rounded(s, scale):
    """the protocol value s scaled and rounded half-up to an integer (NaN stays NaN); monotone, so order and ties between
    operands survive"""
    if s == "nan":
        return s
    return S(Fraction(math.floor(Fraction(s) * scale + Fraction(1, 2))))


def ang360(a):
    return a - 360 * math.floor(a / 360)


def dtype_defect(case):
    """id of the documented defect class of the UNCHANGED code the case lies in (notes/C05.md), or None.  Decided from the
    input alone: the dtype numpy gives the library's first subtraction (np.result_type of the two storage dtypes) and the
    exact values of the differences / squares it then has to hold."""
    dts = case.get("dtypes")
    kind = case["kind"]
    if not dts or kind in NO_SUBTRACT:
        return None
    ops = data_ops(case)
    pairs = [("upper", "lower"), ("lower", "obs"), ("obs", "upper")] if len(ops) == 3 else [("fcst", "obs")]
    _, _, lay = full_layout(case, list(ops))
    ang = is_angular_kind(kind)
    for a, b in pairs:
        rt = np.result_type(np.dtype(dtype_of(case, a)), np.dtype(dtype_of(case, b)))
        if rt == np.dtype(bool):
            return "F-C05c"
        if rt.kind not in "iu":
            continue
        did = "F-C05b" if rt.kind == "u" else "F-C05a"
        lim = int(np.iinfo(rt).max)
        if ang and lim < 360:
            return did
        for x, y in zip(lay[a], lay[b]):
            d = Fraction(x) - Fraction(y)
            if (rt.kind == "u" and d < 0) or abs(d) > lim:
                return did
            if ang:
                d = min(ang360(abs(d)), 360 - ang360(abs(d)))
            if kind in SQUARING and d * d > lim:
                return did
    return None


def loose(case):
    """the library legitimately computes in float32 (rounding is not modelled): float32 storage of a data operand, or an
    integer / bool operand of at most 16 bits in a function that masks with .where first (xarray promotes those to float32)"""
    dts = case.get("dtypes")
    if not dts:
        return False
    ds = [dtype_of(case, k) for k in data_ops(case)]
    if "float32" in ds:
        return True
    return case["kind"] in NO_SUBTRACT and any(np.dtype(d).itemsize <= 2 for d in ds)


def tol_of(case):
    return 1e-5 if loose(case) else 1e-9


def dtype_class(case):
    if not case.get("dtypes"):
        return "dtype:all-float64"
    ds = [dtype_of(case, k) for k in data_ops(case)]
    if any(d in UNSIGNED for d in ds):
        return "dtype:unsigned-operand"
    if "bool" in ds:
        return "dtype:bool-operand"
    if all(d in FLOATS for d in ds):
        return "dtype:float32-all" if set(ds) == {"float32"} else "dtype:float32-float64-mixed"
    if len(set(ds)) == 1:
        return "dtype:uniform-" + ds[0]
    return "dtype:int-float-mixed" if any(d in FLOATS for d in ds) else "dtype:int-int-mixed"


def float64_twin(case):
    c = {k: v for k, v in case.items() if k != "dtypes"}
    return c


def with_dtypes(rng, case, unsigned=False):
    """the same kind of case with every data operand stored in a drawn dtype.  Drawn per case: float32 for everything /
    float32-float64 mixtures (dyadic values unchanged);  or integer-valued data (every data operand rounded - or, for
    linear scores, first scaled by 4 - so that ties between operands and the interval order survive) stored in one integer
    dtype for everything, in independent integer / float / (rarely) bool dtypes per operand; an operand holding NaN stays
    in float storage.  unsigned=True: the integer-valued data is shifted to be >= 0 (angles: taken mod 360) and at least
    one operand is stored as uint8 / uint16."""
    c = {k: (dict(v) if isinstance(v, dict) else v) for k, v in case.items()}
    ops = data_ops(c)
    ang = is_angular_kind(c["kind"])
    r = rng.random()
    if not unsigned and r < 0.3:
        if r < 0.15:
            dts = {k: "float32" for k in ops}
        else:
            dts = {k: rng.choice(FLOATS) for k in ops}
            dts[rng.choice(ops)] = "float32"
        c["dtypes"] = dts
        return c
    scale = 1 if ang else rng.choice([1, 1, 4])
    full = {k: list(c[k]["data"]) for k in ops}                       # the fractional (dyadic) values, before rounding
    for k in ops:
        c[k]["data"] = [rounded(x, scale) for x in c[k]["data"]]
    if unsigned:
        if ang:
            for k in ops:
                c[k]["data"] = [x if x == "nan" else S(ang360(Fraction(x))) for x in c[k]["data"]]
        else:
            lo = min([Fraction(x) for k in ops for x in c[k]["data"] if x != "nan"] or [Fraction(0)])
            for k in ops:
                c[k]["data"] = [x if x == "nan" else S(Fraction(x) - lo) for x in c[k]["data"]]
    pool = (UNSIGNED + UNSIGNED + SIGNED + FLOATS) if unsigned else (SIGNED + SIGNED + FLOATS + ["bool"])
    r = rng.random()
    if r < 0.35:
        one = rng.choice(UNSIGNED if unsigned else SIGNED)
        dts = {k: one for k in ops}
    elif r < 0.5 and not unsigned:
        one = rng.choice(["int8", "int8", "int16", "bool"])            # the narrow end: where the library's own arithmetic is tight
        dts = {k: rng.choice([one, "int8"]) for k in ops}
    else:
        dts = {k: rng.choice(pool) for k in ops}
        if unsigned and not any(d in UNSIGNED for d in dts.values()):
            dts[rng.choice(ops)] = rng.choice(UNSIGNED)
        if not unsigned and scale == 1 and rng.random() < 0.5:
            # integer storage next to FRACTIONAL float storage: the float operands keep their dyadic values (a cast of one
            # operand / of the result to another operand's integer dtype then changes the value).  Interval ends: the
            # integer-stored end is rounded outwards so that lower <= upper survives
            for k in ops:
                if dts[k] in FLOATS:
                    c[k]["data"] = list(full[k])
            if len(ops) == 3:
                if dts["lower"] not in FLOATS:
                    c["lower"]["data"] = [x if x == "nan" else S(Fraction(math.floor(Fraction(x)))) for x in full["lower"]]
                if dts["upper"] not in FLOATS:
                    c["upper"]["data"] = [x if x == "nan" else S(Fraction(math.ceil(Fraction(x)))) for x in full["upper"]]
    if len(ops) == 3 and "bool" in (dts["lower"], dts["upper"]):
        # 0/1 interval ends only together (the order lower <= upper must survive), and then in the same storage
        dts["lower"] = dts["upper"] = "bool"
        if any(x == "nan" for k in ("lower", "upper") for x in c[k]["data"]):
            dts["lower"] = dts["upper"] = "float32"
    for k in ops:
        data = c[k]["data"]
        if any(x == "nan" for x in data):
            if dts[k] not in FLOATS:
                dts[k] = rng.choice(FLOATS)
            continue
        if dts[k] == "bool":
            c[k]["data"] = [S(1 if Fraction(x) > 0 else 0) for x in data]
        elif dts[k] not in FLOATS:
            info = np.iinfo(dts[k])
            if not all(info.min <= Fraction(x) <= info.max for x in data):
                dts[k] = "uint16" if (unsigned and dts[k] == "uint8") else "int64"
    if unsigned and not any(d in UNSIGNED for d in dts.values()):
        return None                                                     # every operand holds NaN: no unsigned storage possible
    c["dtypes"] = dts
    return c


def dtype_cases(rng, n, unsigned=False, malformed_p=0.0):
    """n random cases over every kind + one systematic round (every xarray-level function x every request spelling x
    without / with fractional float64 weights), each with drawn storage dtypes"""
    base = [gen_case(rng, ALL_KINDS[i % len(ALL_KINDS)] if i < 4 * len(ALL_KINDS) else None, malformed_p=malformed_p) for i in range(n)]
    if not unsigned:
        base += sweep_cases(rng, 1)
    out = [with_dtypes(rng, c, unsigned) for c in base]
    return [c for c in out if c is not None]


# ----------------------------------------------------------------------------- implementation side
def mkd(case, name):
    """operand `name` of the case in its storage dtype (case["dtypes"], default float64)"""
    return mk(case[name], dtype_of(case, name))


def run_impl(case):
    """returns {"err": cls} or {"cells": {var: [floats]}} with cells ordered like fibres(case)"""
    import scores.continuous as sc
    import scores.pandas.continuous as spc
    from scores.continuous.correlation import pearsonr
    kind = case["kind"]
    P, _ = fibres(case)
    kw = req_kwargs(case)
    try:
        with np.errstate(all="ignore"):
            if kind in ("qis", "interval"):
                lo, up, ob = mkd(case, "lower"), mkd(case, "upper"), mkd(case, "obs")
                if case["weights"] is not None:
                    kw["weights"] = mk(case["weights"])
                if kind == "qis":
                    res = sc.quantile_interval_score(lo, up, ob, F(case["params"]["lower_level"]), F(case["params"]["upper_level"]), **kw)
                else:
                    res = sc.interval_score(lo, up, ob, F(case["params"]["interval_range"]), **kw)
                return {"cells": {str(v): flat_result(res[v], P) for v in res.data_vars}}
            f, o = mkd(case, "fcst"), mkd(case, "obs")
            if kind.startswith("pandas_"):
                fs, os_ = pd.Series(f.values), pd.Series(o.values)
                base = kind[len("pandas_"):]
                ang = base.endswith("_ang")
                res = getattr(spc, base.replace("_ang", ""))(fs, os_, is_angular=_flag(ang, case))
                return {"cells": {"value": [float(res)]}}
            if case["weights"] is not None:
                kw["weights"] = mk(case["weights"])
            if kind in ("mse", "mae", "rmse", "mse_ang", "mae_ang", "rmse_ang"):
                res = getattr(sc, kind.replace("_ang", ""))(f, o, is_angular=_flag(kind.endswith("_ang"), case), **kw)
            elif kind in ("additive_bias", "mean_error", "multiplicative_bias", "pbias"):
                res = getattr(sc, kind)(f, o, **kw)
            elif kind == "quantile":
                res = sc.quantile_score(f, o, F(case["params"]["alpha"]), **kw)
            elif kind == "pearsonr":
                res = pearsonr(f, o, **kw)
            elif kind == "kge":
                sf = case["params"].get("scaling_factors")
                if sf is not None:
                    sf = [F(x) for x in sf]
                    if case["params"].get("sf_numpy"):
                        sf = np.array(sf)
                res = sc.kge(f, o, scaling_factors=sf, include_components=bool(case["params"].get("include_components")), **kw)
                if isinstance(res, xr.Dataset):
                    return {"cells": {str(v): flat_result(res[v], P) for v in res.data_vars}}
                return {"cells": {"kge": flat_result(res, P)}}
            else:
                raise AssertionError(kind)
            return {"cells": {"value": flat_result(res, P)}}
    except AssertionError:
        raise
    except Exception as ex:  # noqa: BLE001
        return {"err": core.exc_class(ex), "msg": str(ex)[:200]}


# ----------------------------------------------------------------------------- model / spec ops
MODEL_SCORE = {"mse": ("mse", False), "mse_ang": ("mse", True), "rmse": ("mse", False), "rmse_ang": ("mse", True),
               "mae": ("mae", False), "mae_ang": ("mae", True), "additive_bias": ("additive_bias", False),
               "mean_error": ("additive_bias", False), "multiplicative_bias": ("multiplicative_bias", False),
               "pbias": ("pbias", False), "quantile": ("quantile", False),
               "pandas_mse": ("mse", False), "pandas_rmse": ("mse", False), "pandas_mae": ("mae", False),
               "pandas_mse_ang": ("mse", True), "pandas_mae_ang": ("mae", True), "pandas_rmse_ang": ("mse", True)}
ROOTED = {"rmse", "rmse_ang", "pandas_rmse", "pandas_rmse_ang"}


def is_nan_s(s):
    return s == "nan"


def model_ops(case):
    """ops for the executable model; one op per fibre (point scores) or one op per case (interval scores)"""
    kind = case["kind"]
    P, fib = fibres(case)
    if kind in ("qis", "interval"):
        _, _, lay = full_layout(case, ["lower", "upper", "obs", "weights"])
        n = len(lay["lower"])
        ic = [[lay["lower"][i], lay["upper"][i], lay["obs"][i], None if lay["weights"] is None else lay["weights"][i]] for i in range(n)]
        args = {"kind": kind, "all": ic, "fibres": [[ic[i] for i in row] for row in fib]}
        args.update(case["params"])
        return [{"op": "c05.interval", "args": args}]
    _, _, lay = full_layout(case, ["fcst", "obs", "weights"])
    n = len(lay["fcst"])
    cs = [[lay["fcst"][i], lay["obs"][i], None if lay["weights"] is None else lay["weights"][i]] for i in range(n)]
    if kind in ("pearsonr", "kge"):
        return [{"op": "c05.moments", "args": {"pairs": [[cs[i][0], cs[i][1]] for i in row]}} for row in fib]
    score, ang = MODEL_SCORE[kind]
    out = []
    for row in fib:
        a = {"score": score, "ang": ang, "cases": [cs[i] for i in row]}
        if score == "quantile":
            a["alpha"] = case["params"]["alpha"]
        out.append({"op": "c05.mean", "args": a})
    return out


# operands each component's documented formula mentions (a case is valid for a component iff these are present)
ICOMPS = [("interval_width_penalty", ("lower", "upper")), ("overprediction_penalty", ("lower", "obs")),
          ("underprediction_penalty", ("upper", "obs")), ("total", ("lower", "upper", "obs"))]


def spec_ops(case):
    """ops for the textbook Spec: only the VALID cases (every operand present), weights default 1"""
    kind = case["kind"]
    P, fib = fibres(case)
    if kind in ("qis", "interval"):
        _, _, lay = full_layout(case, ["lower", "upper", "obs", "weights"])
        n = len(lay["lower"])
        w = lay["weights"] or ["1"] * n
        ops = []
        for comp, used in ICOMPS:
            rows = []
            for row in fib:
                rows.append([[lay["lower"][i] if "lower" in used else "0", lay["upper"][i] if "upper" in used else "0",
                              lay["obs"][i] if "obs" in used else "0", w[i]] for i in row
                             if not any(is_nan_s(lay[k][i]) for k in used) and not is_nan_s(w[i])])
            args = {"kind": kind, "component": comp, "fibres": rows}
            args.update(case["params"])
            ops.append({"op": "c05.spec.interval", "args": args})
        return ops
    _, _, lay = full_layout(case, ["fcst", "obs", "weights"])
    n = len(lay["fcst"])
    w = lay["weights"] or ["1"] * n
    out = []
    for row in fib:
        valid = [[lay["fcst"][i], lay["obs"][i], w[i]] for i in row
                 if not any(is_nan_s(x) for x in (lay["fcst"][i], lay["obs"][i], w[i]))]
        if kind in ("pearsonr", "kge"):
            out.append({"op": "c05.spec.moments", "args": {"pairs": [[c[0], c[1]] for c in valid]}})
        else:
            score, ang = MODEL_SCORE[kind]
            a = {"score": score, "ang": ang, "cases": valid}
            if score == "quantile":
                a["alpha"] = case["params"]["alpha"]
            out.append({"op": "c05.spec.mean", "args": a})
    return out


def fsqrt(x):
    with np.errstate(all="ignore"):
        return float(np.sqrt(np.float64(x)))


def fdiv(a, b):
    with np.errstate(all="ignore"):
        return float(np.float64(a) / np.float64(b))


def mom_float(m, key):
    if m.get("n", 1) == 0 and key not in m:
        return NAN
    return float(core.parse_fl(m[key]))


def rho_from(m):
    cov, vf, vo = mom_float(m, "cov"), mom_float(m, "varF"), mom_float(m, "varO")
    with np.errstate(all="ignore"):
        return float(np.float64(cov) / (np.sqrt(np.float64(vf)) * np.sqrt(np.float64(vo))))


def kge_stage2_ops(case, moms):
    """model path: feed float sigma / rho (libm sqrt applied by the harness) into the TRANSLATED kge tail"""
    sf = case["params"].get("scaling_factors") or ["1", "1", "1"]
    ops = []
    for m in moms:
        ops.append({"op": "c05.kge_tail", "args": {
            "rho": S(rho_from(m)), "sigma_fcst": S(fsqrt(mom_float(m, "varF"))), "sigma_obs": S(fsqrt(mom_float(m, "varO"))),
            "mu_fcst": m.get("muF", "nan"), "mu_obs": m.get("muO", "nan"), "s_rho": sf[0], "s_alpha": sf[1], "s_beta": sf[2]}})
    return ops


def kge_from_tail(t):
    v = core.parse_fl(t["value_sqrt_id"])     # = 1 - radicand
    if isinstance(v, float):
        rad = NAN if math.isnan(v) else -v
    else:
        rad = float(1 - v)
    return 1.0 - fsqrt(rad)


def kge_textbook(case, m):
    """oracle path: KGE from raw-moment Spec values, composed with libm sqrt in Python"""
    sf = [F(x) for x in (case["params"].get("scaling_factors") or ["1", "1", "1"])]
    if m.get("n", 1) == 0:
        return {"kge": NAN, "rho": NAN, "alpha": NAN, "beta": NAN}
    rho = rho_from(m)
    alpha = fdiv(fsqrt(mom_float(m, "varF")), fsqrt(mom_float(m, "varO")))
    beta = fdiv(mom_float(m, "muF"), mom_float(m, "muO"))
    with np.errstate(all="ignore"):
        ed = np.sqrt(np.float64(sf[0] * (rho - 1)) ** 2 + np.float64(sf[1] * (alpha - 1)) ** 2 + np.float64(sf[2] * (beta - 1)) ** 2)
        k = float(1 - ed)
    return {"kge": k, "rho": rho, "alpha": alpha, "beta": beta}


def expected_from(case, outs, stage2=None, textbook=False):
    """driver outputs -> {"err": ..} | {"cells": {var: [expected (Fraction|float|str)]}}"""
    kind = case["kind"]
    if kind in ("qis", "interval"):
        if textbook:
            return {"cells": {comp: outs[i] for i, (comp, _) in enumerate(ICOMPS)}}
        o = outs[0]
        if "err" in o:
            return {"err": o["err"]}
        return {"cells": {k: v for k, v in o.items()}}
    if any(isinstance(o, dict) and "err" in o for o in outs):
        return {"err": next(o["err"] for o in outs if isinstance(o, dict) and "err" in o)}
    if kind == "pearsonr":
        return {"cells": {"value": [rho_from(m) for m in outs]}}
    if kind == "kge":
        if textbook:
            rows = [kge_textbook(case, m) for m in outs]
        else:
            rows = [{"kge": kge_from_tail(t), "rho": rho_from(m), "alpha": float(core.parse_fl(t["alpha"])),
                     "beta": float(core.parse_fl(t["beta"]))} for m, t in zip(outs, stage2)]
        keys = ["kge", "rho", "alpha", "beta"] if case["params"].get("include_components") else ["kge"]
        return {"cells": {k: [r[k] for r in rows] for k in keys}}
    if kind in ROOTED:
        return {"cells": {"value": [fsqrt(float(core.parse_fl(s))) for s in outs]}}
    return {"cells": {"value": list(outs)}}


def same(impl, exp, rtol=1e-9):
    """compare run_impl output with expected; returns (ok, detail)"""
    if "err" in exp:
        return ("err" in impl and impl["err"] == exp["err"]), "exception-class"
    if "err" in impl:
        return False, "unexpected-exception"
    for var, ev in exp["cells"].items():
        if var not in impl["cells"]:
            return False, f"missing-variable:{var}"
        iv = impl["cells"][var]
        if len(iv) != len(ev):
            return False, "shape"
        for a, b in zip(iv, ev):
            ok = core.close_ff(a, b, rtol=rtol, atol=rtol / 1000) if isinstance(b, float) else core.close(a, b, rtol=rtol, atol=rtol / 1000)
            if not ok:
                return False, f"value:{var}"
    return True, ""


def nontrivial(impl, case):
    if case.get("malformed") or "err" in impl:
        return False
    return any(not math.isnan(x) for v in impl["cells"].values() for x in v)


def tags_of(case, impl):
    t = {"kind": case["kind"]}
    t["weights"] = case.get("weights") is not None
    t["req"] = next(iter(case["req"]), "none")
    t["spelling"] = req_spelling(case["req"])
    if case.get("dtypes"):
        t["dtype_class"] = dtype_class(case)
        t["dtypes"] = ",".join(k + "=" + dtype_of(case, k) for k in data_ops(case))
        d = dtype_defect(case)
        if d:
            t["defect"] = d
    return t


def drive(ops, spec):
    """model ops go to drivers/C05.lean (generated kernels + hand model); Spec ops to drivers/C05S.lean, which has no
    generated code and therefore still runs when the regenerated kernels no longer build"""
    if not spec:
        return core.run_driver("C05", ops)
    try:
        return core.run_driver("C05S", ops)
    except RuntimeError:
        with core.BuildLock():
            core.lake_build(["ScoresVerif.Driver.Loop", "ScoresVerif.Driver.C05Spec"])
        return core.run_driver("C05S", ops)


def evaluate(cases, spec=False):
    """runs implementation and (model | spec) on every case; returns list of (impl, expected)"""
    ops, spans = [], []
    for c in cases:
        o = spec_ops(c) if spec else model_ops(c)
        spans.append((len(ops), len(ops) + len(o)))
        ops += o
    outs = drive(ops, spec)
    stage2 = {}
    if not spec:
        ops2, spans2 = [], {}
        for i, c in enumerate(cases):
            if c["kind"] == "kge":
                o = kge_stage2_ops(c, outs[spans[i][0]:spans[i][1]])
                spans2[i] = (len(ops2), len(ops2) + len(o))
                ops2 += o
        outs2 = core.run_driver("C05", ops2)
        stage2 = {i: outs2[a:b] for i, (a, b) in spans2.items()}
    res = []
    for i, c in enumerate(cases):
        impl = run_impl(c)
        exp = expected_from(c, outs[spans[i][0]:spans[i][1]], stage2.get(i), textbook=spec)
        res.append((impl, exp))
    return res


def account(ctx, batch, kind_, cases, results, theorem_of=None):
    for c, (impl, exp) in zip(cases, results):
        ctx.case(batch, c, nontrivial=nontrivial(impl, c))
        ctx.tag("kind:" + c["kind"])
        if c.get("dtypes"):
            ctx.tag(dtype_class(c))
            for k in data_ops(c):
                ctx.tag("dtype-of-" + ("obs" if k == "obs" else "fcst") + ":" + dtype_of(c, k))
            ctx.tag("dtype-tolerance:" + ("float32-1e-5" if loose(c) else "1e-9"))
            d = dtype_defect(c)
            if d:
                ctx.tag("dtype-defect-class:" + d)
                if kind_ == "correspondence":
                    # the model (values only, no storage dtype) does not describe the unchanged code on the documented
                    # defect classes; the property oracle still runs them (known findings)
                    ctx.tag("dtype-defect-class-skipped-in-correspondence")
                    continue
        ctx.tag("req:" + req_spelling(c["req"]) + ("+weights" if c.get("weights") is not None else ""))
        if c.get("malformed"):
            ctx.tag("malformed")
        if "err" in impl:
            ctx.tag("impl-raises")
        elif any(math.isnan(x) for v in impl["cells"].values() for x in v):
            ctx.tag("nan-output")
        ok, why = same(impl, exp, tol_of(c))
        if not ok:
            ctx.fail(batch, kind_, c["kind"], why, c, observed=impl, expected=exp, tags=tags_of(c, impl),
                     theorem=(theorem_of or {}).get(c["kind"]))


# ----------------------------------------------------------------------------- tie X
def correspondence(ctx):
    rng = ctx.rng
    n = ctx.n(900, 20000)
    cases = [gen_case(rng, ALL_KINDS[i % len(ALL_KINDS)] if i < 3 * len(ALL_KINDS) else None) for i in range(n)]
    res = evaluate(cases, spec=False)
    account(ctx, "impl-vs-model", "correspondence", cases, res)
    sw = sweep_cases(rng, ctx.n(1, 6))
    account(ctx, "impl-vs-model-request-x-weights-sweep", "correspondence", sw, evaluate(sw, spec=False))
    # storage dtypes: the same model (a function of the values) against the code fed integer / float32 / bool / mixed storage
    dc = dtype_cases(rng, ctx.n(350, 8000), malformed_p=0.05)
    account(ctx, "impl-vs-model-storage-dtypes", "correspondence", dc, evaluate(dc, spec=False))
    # angular difference itself (public helper), incl. values far outside [0, 360)
    pairs = []
    for _ in range(ctx.n(300, 5000)):
        a = rng.choice([rng.randint(-20, 20) * 45.0, core.dyadic(rng, -1500, 1500, 4)])
        b = rng.choice([a, a + 180, a - 180, a + 360 * rng.randint(-3, 3), core.dyadic(rng, -1500, 1500, 4), NAN])
        pairs.append((a, b))
    check_angular(ctx, "angular-vs-model", "correspondence", pairs, spec=False)


def check_angular(ctx, batch, kind_, pairs, spec):
    from scores.functions import angular_difference
    fa = xr.DataArray([p[0] for p in pairs], dims=["k"])
    fb = xr.DataArray([p[1] for p in pairs], dims=["k"])
    with np.errstate(all="ignore"):
        got = np.asarray(angular_difference(fa, fb).values, dtype=float)
    if spec:
        keep = [i for i, p in enumerate(pairs) if not (math.isnan(p[0]) or math.isnan(p[1]))]
    else:
        keep = list(range(len(pairs)))
    out = drive([{"op": "c05.spec.angular" if spec else "c05.angular",
                  "args": {"pairs": [[S(pairs[i][0]), S(pairs[i][1])] for i in keep]}}], spec)[0]
    for j, i in enumerate(keep):
        c = {"kind": "angular_difference", "a": S(pairs[i][0]), "b": S(pairs[i][1])}
        ctx.case(batch, c, nontrivial=not math.isnan(got[i]))
        if not core.close(got[i], out[j]):
            ctx.fail(batch, kind_, "angular_difference", "value", c, observed=float(got[i]), expected=out[j],
                     tags={"kind": "angular_difference"}, theorem="angular_eq_spec")


# ----------------------------------------------------------------------------- the property itself
THEOREM_OF = {"mse": "mse_eq_spec", "mae": "mae_eq_spec", "additive_bias": "additive_bias_eq_spec", "quantile": "pinball_eq_spec",
              "qis": "qis_total_eq_spec", "interval": "interval_total_eq_textbook", "multiplicative_bias": "multiplicative_bias_eq_spec",
              "pbias": "pbias_eq_spec", "kge": "kge_value_eq_formula", "mse_ang": "angular_eq_spec", "mae_ang": "angular_eq_spec"}


REL_W_POOL = [0.0, 0.25, 0.5, 1.0, 1.0, 2.0, 3.0, 1.5]
SWEEP_SIZES = [1, 2, 2, 2, 3, 3, 3, 4]     # sizes of the systematic sweep: mostly >= 2 so that a reduction really averages


def relation_variants(rng, sizes, k, start):
    """k (request spelling, weights) combinations for one relational input, taken round-robin (start, start+1, ...) from
    the full product  all_reqs(dims) x {no weights, weights}  so that consecutive inputs sweep the whole product.
    Weights are NaN-free, non-negative, over a sub-list of the dims, with at least one value other than 0/1."""
    dims = sorted(sizes)
    prod = [(req, w) for req in all_reqs(dims) for w in (False, True)]
    out = []
    for j in range(k):
        req, w = prod[(start + j) % len(prod)]
        ws = None
        if w:
            wd = sub_dims(rng, dims, 0.6) if len(dims) > 1 else dims[:]
            wv = [rng.choice(REL_W_POOL) for _ in range(nsize(sizes, wd))]
            if not any(x not in (0.0, 1.0) for x in wv):
                wv[rng.randrange(len(wv))] = rng.choice([0.25, 0.5, 2.0, 3.0, 1.5])
            ws = spec_of(wd, sizes, wv)
        out.append({"req": dict(req), "weights": ws})
    return out


def relation_cases(rng, n, per_case=2):
    """inputs for the relational laws.  The point-wise laws are evaluated with every dim preserved (per cell); the laws
    between two public functions are ALSO evaluated for `per_case` (request spelling, weights) variants per input,
    walking through every spelling x with/without weights (relation_variants)"""
    out = []
    start = rng.randrange(1000)
    for _ in range(n):
        sizes = gen_sizes(rng)
        dims = sorted(sizes)
        m = nsize(sizes, dims)
        L = [core.dyadic(rng) for _ in range(m)]
        U = [L[i] + rng.choice([0.0, 0.5, 1.0, 3.0, core.dyadic(rng, 0, 8)]) for i in range(m)]
        Y = [rng.choice([L[i], U[i], core.dyadic(rng, -20, 20), NAN if rng.random() < 0.2 else (L[i] + U[i]) / 2]) for i in range(m)]
        out.append({"sizes": sizes, "L": [S(x) for x in L], "U": [S(x) for x in U], "Y": [S(x) for x in Y],
                    "r": S(rng.choice(RANGES)), "alpha": S(rng.choice(ALPHAS)),
                    "shift": rng.randint(-4, 4), "angles": [S(x) for x in vals(rng, m, True, 0.05)],
                    "angles2": [S(x) for x in vals(rng, m, True, 0.05)],
                    "sf": [S(rng.choice([0.5, 1, 1, 2, 3])) for _ in range(3)],
                    "variants": relation_variants(rng, sizes, per_case, start), "pk": start // per_case})
        start += per_case
    return out


def variant_label(v):
    req = v["req"]
    k = next((k for k in ("reduce_dims", "preserve_dims") if req.get(k) is not None), None)
    txt = (k + "=" + repr(req[k])) if k else ("reduce_dims=None,preserve_dims=None" if req else "default")
    return txt + (",weights" if v.get("weights") is not None else "")


def relation_failures(rc):
    """evaluate every relational law on one input; returns list of (law, observed, expected)"""
    import scores.continuous as sc
    import scores.pandas.continuous as spc
    from scores.continuous.correlation import pearsonr
    from scores.functions import angular_difference
    sizes = rc["sizes"]
    dims = sorted(sizes)
    shape = [sizes[d] for d in dims]
    A = lambda v: xr.DataArray(np.array([F(x) for x in v], dtype=float).reshape(shape), dims=list(dims))
    Lo, Up, Y = A(rc["L"]), A(rc["U"]), A(rc["Y"])
    r = F(rc["r"])
    pd_ = ["".join(list(d)) for d in dims]
    bad = []

    def flat(x):
        return [float(v) for v in np.asarray(x.transpose(*dims).values, dtype=float).reshape(-1)]

    def flatP(x):
        """result of a call with an arbitrary request: (sorted dims, values in that order)"""
        if isinstance(x, xr.DataArray):
            ds = sorted(str(d) for d in x.dims)
            return ds, [float(v) for v in np.asarray(x.transpose(*ds).values, dtype=float).reshape(-1)]
        return [], [float(x)]

    def eq(law, a, b):
        if len(a) != len(b):
            bad.append((law, "length %d" % len(a), "length %d" % len(b)))
            return
        for x, y in zip(a, b):
            if not core.close_ff(x, y):
                bad.append((law, x, y))
                return

    def eqP(law, x, y, fx=None):
        """two results of calls with the same request: same dims, same values (fx maps the left values first)"""
        dx, vx = flatP(x)
        dy, vy = flatP(y)
        if dx != dy:
            bad.append((law, "dims " + ",".join(dx), "dims " + ",".join(dy)))
            return
        eq(law, [fx(v) for v in vx] if fx else vx, vy)
    with np.errstate(all="ignore"):
        IS = sc.interval_score(Lo, Up, Y, r, preserve_dims=pd_)
        QI = sc.quantile_interval_score(Lo, Up, Y, (1 - r) / 2, (1 + r) / 2, preserve_dims=pd_)
        for v in ("total", "interval_width_penalty", "overprediction_penalty", "underprediction_penalty"):
            eq("interval=qis-symmetric:" + v, flat(IS[v]), flat(QI[v]))
        eq("total=width+penalties", flat(IS["total"]),
           flat(IS["interval_width_penalty"] + IS["overprediction_penalty"] + IS["underprediction_penalty"]))
        a = 1 - r
        qs = sc.quantile_score(Lo, Y, a / 2, preserve_dims=pd_) + sc.quantile_score(Up, Y, 1 - a / 2, preserve_dims=pd_)
        eq("interval=scaled-pinball-sum", flat(IS["total"]), flat((2 / a) * qs))
        # obs on an end: zero penalty there
        on_lo = sc.interval_score(Lo, Up, Lo, r, preserve_dims=pd_)
        on_up = sc.interval_score(Lo, Up, Up, r, preserve_dims=pd_)
        eq("obs-on-lower-end", flat(on_lo["total"]), flat(Up - Lo))
        eq("obs-on-upper-end", flat(on_up["total"]), flat(Up - Lo))
        # pinball: non-negative, zero at ties
        al = F(rc["alpha"])
        q = flat(sc.quantile_score(Lo, Y, al, preserve_dims=pd_))
        if any(x < 0 for x in q if not math.isnan(x)):
            bad.append(("pinball-nonneg", min(x for x in q if not math.isnan(x)), 0.0))
        eq("pinball-tie-zero", flat(sc.quantile_score(Lo, Lo, al, preserve_dims=pd_)), [0.0] * len(q))
        # rmse^2 = mse ; mean_error = additive_bias
        f, o = Lo, Y
        eq("rmse^2=mse", [x * x for x in flat(sc.rmse(f, o, preserve_dims=pd_))], flat(sc.mse(f, o, preserve_dims=pd_)))
        red = [pd_[-1]]
        rm = sc.rmse(f, o, reduce_dims=red)
        ms = sc.mse(f, o, reduce_dims=red)
        eq("rmse^2=mse(reduced)", [float(x) ** 2 for x in np.asarray(rm.values).reshape(-1)], [float(x) for x in np.asarray(ms.values).reshape(-1)])
        eq("mean_error=additive_bias", [float(x) for x in np.asarray(sc.mean_error(f, o, reduce_dims=red).values).reshape(-1)],
           [float(x) for x in np.asarray(sc.additive_bias(f, o, reduce_dims=red).values).reshape(-1)])
        # angular laws
        An, Bn = A(rc["angles"]), A(rc["angles2"])
        ad = angular_difference(An, Bn)
        adv = flat(ad)
        if any((x < 0 or x > 180) for x in adv if not math.isnan(x)):
            bad.append(("angular-range", [x for x in adv if not math.isnan(x) and (x < 0 or x > 180)][0], "[0,180]"))
        eq("angular-symmetric", adv, flat(angular_difference(Bn, An)))
        eq("angular-periodic", adv, flat(angular_difference(An + 360.0 * rc["shift"], Bn)))
        eq("angular-periodic-2nd", adv, flat(angular_difference(An, Bn - 360.0 * rc["shift"])))
        eq("angular-self-zero", flat(angular_difference(An, An)), [0.0 if not math.isnan(x) else NAN for x in flat(An)])
        eq("mae-angular=ad", flat(sc.mae(An, Bn, is_angular=True, preserve_dims=pd_)), adv)
        eq("mse-angular=ad^2", flat(sc.mse(An, Bn, is_angular=True, preserve_dims=pd_)), [x * x for x in adv])
        # KGE(f, f) = 1, MSE decomposition (1-D, NaN-free, non-degenerate)
        x1 = xr.DataArray(np.array([F(x) for x in rc["L"]], dtype=float), dims=["t"])
        y1 = xr.DataArray(np.array([F(x) for x in rc["U"]], dtype=float) * 0.5 + np.array([F(x) for x in rc["angles"]], dtype=float) / 64, dims=["t"])
        if float(x1.std()) > 0 and float(x1.mean()) != 0:
            sf = [F(x) for x in rc["sf"]]
            k = sc.kge(x1, x1, scaling_factors=sf)
            if not core.close_ff(float(k), 1.0, rtol=1e-7, atol=1e-7):
                bad.append(("kge(f,f)=1", float(k), 1.0))
        if not np.isnan(y1.values).any() and float(x1.std()) > 0 and float(y1.std()) > 0:
            lhs = float(sc.mse(x1, y1))
            b = float(sc.additive_bias(x1, y1))
            sfx, sfy = float(x1.std()), float(y1.std())
            rho = float(pearsonr(x1, y1))
            rhs = b * b + sfx * sfx + sfy * sfy - 2 * sfx * sfy * rho
            if not core.close_ff(lhs, rhs, rtol=1e-8, atol=1e-8):
                bad.append(("mse-decomposition", lhs, rhs))
        # ---- pandas entry point = xarray entry point, for every way of asking the xarray function to reduce the one dim
        y0 = xr.DataArray(np.array([F(x) for x in rc["Y"]], dtype=float), dims=["t"])
        a1 = xr.DataArray(np.array([F(x) for x in rc["angles"]], dtype=float), dims=["t"])
        b1 = xr.DataArray(np.array([F(x) for x in rc["angles2"]], dtype=float), dims=["t"])
        t = "".join(["t"])
        for fn in ("mse", "rmse", "mae"):
            for ang, (u, v) in ((False, (x1, y0)), (True, (a1, b1))):
                pv = float(getattr(spc, fn)(pd.Series(u.values), pd.Series(v.values), is_angular=ang))
                kws = [{}, {"reduce_dims": None, "preserve_dims": None}, {"reduce_dims": "".join(["a", "ll"])},
                       {"reduce_dims": t}, {"reduce_dims": [t]}, {"preserve_dims": []}]
                if "pk" in rc:      # two of the six spellings per input, walking through all six over consecutive inputs
                    kws = [kws[rc["pk"] % 6], kws[(rc["pk"] + 3) % 6]]
                for kw1 in kws:
                    xv = getattr(sc, fn)(u, v, is_angular=ang, **kw1)
                    lab = "pandas=xarray:%s%s@%s" % (fn, "-angular" if ang else "", variant_label({"req": kw1}))
                    if getattr(xv, "dims", ()) != ():
                        bad.append((lab, "dims " + ",".join(map(str, xv.dims)), "scalar"))
                    else:
                        eq(lab, [pv], [float(xv)])
        # ---- the laws between two public functions under EVERY request spelling, without and with weights
        for vi, var in enumerate(rc.get("variants") or []):
            at = "@" + variant_label(var)
            try:
                kw = req_kwargs(var)
                if var.get("weights") is not None:
                    kw["weights"] = mk(var["weights"])
                R = reduce_set({"sizes": sizes, "req": var["req"]})
                P = [d for d in dims if d not in R]
                # the same request written as lists of fresh names (reduce every dim: reduce_dims=list of all)
                canon = {"preserve_dims": ["".join(list(d)) for d in P]} if P else {"reduce_dims": list(pd_)}
                if "weights" in kw:
                    canon["weights"] = kw["weights"]
                ISv = sc.interval_score(Lo, Up, Y, r, **kw)
                QIv = sc.quantile_interval_score(Lo, Up, Y, (1 - r) / 2, (1 + r) / 2, **kw)
                comps = ("total", "interval_width_penalty", "overprediction_penalty", "underprediction_penalty")
                for v in comps:
                    eqP("interval=qis-symmetric:" + v + at, ISv[v], QIv[v])
                if sorted(map(str, ISv["total"].dims)) != P:
                    bad.append(("request-meaning:interval_score" + at, "dims " + ",".join(sorted(map(str, ISv["total"].dims))), "dims " + ",".join(P)))
                # width + penalties: the same cases must be averaged, so the interval ends are masked where obs is missing
                okY = Y.notnull()
                ISm = ISv if bool(okY.all()) else sc.interval_score(Lo.where(okY), Up.where(okY), Y, r, **kw)
                eqP("total=width+penalties" + at, ISm["total"],
                    ISm["interval_width_penalty"] + ISm["overprediction_penalty"] + ISm["underprediction_penalty"])
                qsv = sc.quantile_score(Lo, Y, a / 2, **kw) + sc.quantile_score(Up, Y, 1 - a / 2, **kw)
                eqP("interval=scaled-pinball-sum" + at, ISv["total"], (2 / a) * qsv)
                width = sc.mae(Up, Lo, **kw)
                eqP("obs-on-lower-end=mean-width" + at, sc.interval_score(Lo, Up, Lo, r, **kw)["total"], width)
                eqP("obs-on-upper-end=mean-width" + at, sc.interval_score(Lo, Up, Up, r, **kw)["total"], width)
                qa = sc.quantile_score(Lo, Y, al, **kw)
                qv = flatP(qa)[1]
                if any(x < 0 for x in qv if not math.isnan(x)):
                    bad.append(("pinball-nonneg" + at, min(x for x in qv if not math.isnan(x)), 0.0))
                tz = flatP(sc.quantile_score(Lo, Lo, al, **kw))[1]
                eq("pinball-tie-zero" + at, tz, [0.0] * len(tz))
                # every mean score once with this request (linear on f, o; angular on the angles)
                G = {fn: getattr(sc, fn)(f, o, **kw) for fn in ("mse", "rmse", "mae", "additive_bias", "multiplicative_bias", "pbias")}
                G.update({fn + "-angular": getattr(sc, fn)(An, Bn, is_angular=True, **kw) for fn in ("mse", "rmse", "mae")})
                eqP("pinball(1/2)=mae/2" + at, sc.quantile_score(Lo, Y, 0.5, **kw), G["mae"] / 2)
                eqP("rmse^2=mse" + at, G["rmse"], G["mse"], fx=lambda x: x * x)
                eqP("rmse^2=mse:angular" + at, G["rmse-angular"], G["mse-angular"], fx=lambda x: x * x)
                eqP("mean_error=additive_bias" + at, sc.mean_error(f, o, **kw), G["additive_bias"])
                eqP("pbias=100(multiplicative_bias-1)" + at, G["pbias"], 100 * (G["multiplicative_bias"] - 1))
                # angular variant = the linear function applied to the angular difference (against 0)
                z = ad * 0.0
                for fn in ("mae", "mse", "rmse"):
                    eqP(fn + "-angular=" + fn + "(angular_difference,0)" + at, G[fn + "-angular"], getattr(sc, fn)(ad, z, **kw))
                # a request means the same however it is written
                for fn, got in G.items():
                    base = fn.replace("-angular", "")
                    args, more = ((An, Bn), {"is_angular": True}) if fn.endswith("-angular") else ((f, o), {})
                    eqP("request-spelling-equivalence:" + fn + at, got, getattr(sc, base)(*args, **more, **canon))
                    if sorted(map(str, getattr(got, "dims", ()))) != P:
                        bad.append(("request-meaning:" + fn + at, "dims " + ",".join(sorted(map(str, getattr(got, "dims", ())))), "dims " + ",".join(P)))
                eqP("request-spelling-equivalence:quantile_score" + at, qa, sc.quantile_score(Lo, Y, al, **canon))
                ISc = sc.interval_score(Lo, Up, Y, r, **canon)
                for v in comps:
                    eqP("request-spelling-equivalence:interval_score:" + v + at, ISv[v], ISc[v])
            except Exception as ex:  # noqa: BLE001  (a valid request on valid operands must not raise)
                bad.append(("valid-request-accepted" + at, core.exc_class(ex) + ": " + str(ex)[:120], "a value"))
    return bad


def twin_failure(case):
    """relation between two implementation runs: the same values stored as float64 give the same result (same exception
    class).  returns None or (what, observed with the storage dtypes, observed with float64 storage)"""
    a, b = run_impl(case), run_impl(float64_twin(case))
    ok, why = same(a, b if "err" in b else {"cells": {k: [float(x) for x in v] for k, v in b["cells"].items()}}, tol_of(case))
    if ok and "err" not in b and set(a.get("cells", {})) != set(b["cells"]):
        ok, why = False, "variables"
    return None if ok else (why, a, b)


def oracle(ctx, boost):
    rng = ctx.rng
    mult = 5 if boost else 1
    n = ctx.n(700, 15000) * mult
    cases = []
    while len(cases) < n:
        c = gen_case(rng, ALL_KINDS[len(cases) % len(ALL_KINDS)] if len(cases) < 3 * len(ALL_KINDS) else None, malformed_p=0.0)
        cases.append(c)
    res = evaluate(cases, spec=True)
    account(ctx, "impl-vs-textbook-spec", "property", cases, res, THEOREM_OF)
    sw = sweep_cases(rng, ctx.n(1, 6) * min(mult, 2))
    account(ctx, "impl-vs-textbook-spec-request-x-weights-sweep", "property", sw, evaluate(sw, spec=True), THEOREM_OF)
    pairs = []
    for _ in range(ctx.n(300, 5000) * mult):
        a = rng.choice([rng.randint(-20, 20) * 45.0, core.dyadic(rng, -1500, 1500, 4)])
        b = rng.choice([a, a + 180, a - 180, a + 360 * rng.randint(-3, 3), core.dyadic(rng, -1500, 1500, 4)])
        pairs.append((a, b))
    check_angular(ctx, "angular-vs-textbook-spec", "property", pairs, spec=True)
    # ---- storage dtypes of the data (values unchanged): against the textbook Spec of the VALUES, and against the same
    # values stored as float64; unsigned storage in its own batch
    dc = dtype_cases(rng, ctx.n(450, 10000) * mult)
    account(ctx, "impl-vs-textbook-spec-storage-dtypes", "property", dc, evaluate(dc, spec=True), THEOREM_OF)
    du = dtype_cases(rng, ctx.n(150, 3000) * mult, unsigned=True)
    account(ctx, "impl-vs-textbook-spec-unsigned-storage", "property", du, evaluate(du, spec=True), THEOREM_OF)
    for c in dc + du:
        ctx.case("storage-dtype-vs-float64-storage", dict(c, twin64=True))
        bad = twin_failure(c)
        if bad:
            ctx.fail("storage-dtype-vs-float64-storage", "property", c["kind"], "differs-from-float64-storage:" + bad[0],
                     dict(c, twin64=True), observed=bad[1], expected=bad[2], tags=tags_of(c, None), theorem=THEOREM_OF.get(c["kind"]))
    rcs = relation_cases(rng, ctx.n(120, 2500) * mult)
    for rc in rcs:
        ctx.case("relational-laws", rc)
        for var in rc["variants"]:
            ctx.tag("law-variant:" + req_spelling(var["req"]) + ("+weights" if var["weights"] is not None else ""))
        for law, obs, exp in relation_failures(rc):
            base = law.split("@")[0]
            ctx.fail("relational-laws", "property", base.split(":")[0], "law-fails", dict(rc, law=law), observed=obs, expected=exp,
                     tags={"law": base, "variant": law.split("@")[1] if "@" in law else "preserve-list"}, theorem=base)


def replay(ctx, payload):
    case = payload["case"]
    if "law" in case:
        return any(l == case["law"] for l, _, _ in relation_failures(case))
    if case.get("kind") == "angular_difference":
        c2 = core.Ctx("C05", "quick", 0)
        check_angular(c2, "replay", "property", [(F(case["a"]), F(case["b"]))], spec=True)
        return bool(c2.failures)
    if case.get("twin64"):
        return twin_failure({k: v for k, v in case.items() if k != "twin64"}) is not None
    (impl, exp), = evaluate([case], spec=True)
    ok, _ = same(impl, exp, tol_of(case))
    return not ok
