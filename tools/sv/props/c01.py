"""C01 — every score reduces exactly the dimensions asked for, and nothing else."""
from __future__ import annotations

import ast
import itertools
import os

import numpy as np
import xarray as xr

from sv import core
from sv import registry as R

PROPERTY = "C01"
GEN = ["Frames", "Dims"]
PROPS = ["ScoresVerif/Props/C01.lean", "ScoresVerif/Props/C01Arr.lean", "ScoresVerif/Props/C01Frames.lean",
         "ScoresVerif/Props/C01Gen.lean"]
DRIVER_DEPS = ["ScoresVerif.Driver.C01", "ScoresVerif.Driver.C01Gen"]
AUDIT_FILES = ["ScoresVerif/Lemmas/C01GenBase.lean", "ScoresVerif/Lemmas/C01GenReduce.lean", "ScoresVerif/Lemmas/C01GenPreserveA.lean",
               "ScoresVerif/Lemmas/C01GenPreserveB.lean", "ScoresVerif/Model/PyDyn.lean", "ScoresVerif/Model/Dims.lean", "ScoresVerif/Lemmas/Arr.lean"]
LEVEL = "proof"
TRUSTED = ["xarray .mean(dim=…)/.sum(dim=…) reduce exactly the dims they are given (library behaviour, observed)",
           "per-function call-site facts (which dims are handed to gather_dimensions) are read from the AST and compared by running the functions"]
ASSUMPTIONS = ["forecast, observation and weights carry equal coordinate label sets",
               "dimension names are non-empty strings; the literal name 'all' as a data dimension is exercised for the rule only"]
RULE = ("gather_dimensions: exhaustive over a 3-name universe (quick) / 4-name (thorough) x request spellings x score-specific "
        "dims; scores: every registry function x generated overlap pattern x every subset R x every spelling; "
        "distinct = distinct (function, dims, request); non-trivial = a successful call with a finite value")
MANIFEST = dict(
    level="proof",
    text="Lean theorems (kernel-checked, any universe of names): the model of gather_dimensions equals the property's "
         "resolution rule for every well-formed request (gather_eq_spec), reduce/preserve duality, None = 'all', bare string = "
         "singleton, both/absent ⇒ error, score-specific dims never in the result, result ⊆ data dims; and the Lean image of "
         "utils.gather_dimensions regenerated from the source on every run computes exactly that model (gen_eq_model, gen_eq_spec). "
         "The model is also tied to utils.gather_dimensions by exhaustive correspondence over a 3-/4-name universe, and every public score is compared "
         "against the rule (result dims, duality, None='all', string, error class) and, for mean-type scores, against the "
         "Lean NaN-skipping mean of its own preserve_dims='all' output, on every subset R and spelling.",
    note="Trusted: Lean kernel + std axioms; the statement translator tools/py2lean_stmt.py and the dynamic-value prelude "
         "Model/PyDyn.lean (gather_dimensions is regenerated from its AST on every run as a Lean do-block, theorem gen_eq_model: "
         "regenerated code = hand model for every universe of names and every spelling; the regenerated code is also run against "
         "the real function on the exhaustive configuration set); harness; xarray's reduction semantics. Which dims each score hands to gather_dimensions is read from "
         "the AST (weights_dims passed or not) and otherwise observed. Known finding F9 (mse/mae/rmse with a weights-only "
         "dimension: None != 'all').",
    technique="Lean 4 theorems about gather_dimensions regenerated from its source (statement translator) and about a hand model of the resolution rule + exhaustive differential correspondence + relational checks over a function registry",
    design="6/C01")

F9_FUNCS = ("mse", "mae", "rmse", "brier_score")   # default path is a bare `.mean()` (brier_score calls mse)


def falsy_request(req):
    """`if preserve_dims or reduce_dims:` is False for None and for empty lists/tuples"""
    return not (req.get("reduce_dims") or req.get("preserve_dims"))


U3 = ["lat", "b", "cc"]
U4 = ["lat", "b", "cc", "all"]


def spec_json(s):
    if s is None or isinstance(s, str):
        return s
    return list(s)


def all_subsets(u):
    return [list(c) for k in range(len(u) + 1) for c in itertools.combinations(u, k)]


def exc_kind(ex):
    return core.exc_class(ex)


# ----------------------------------------------------------------------------- gather_dimensions itself
def gather_configs(ctx):
    u = U4 if ctx.thorough else U3
    subs = all_subsets(u)
    reqs = [None, "all"] + [x for x in u if x != "all"] + ["zz"] + subs + [["zz"], ["lat", "zz"]]
    specifics = [None, "lat", ["lat"], ["lat", "b"], "zz"]
    cfgs = []
    rng = ctx.rng
    for f in subs:
        for o in subs:
            for w in [None] + ([[], ["lat"], ["cc"], ["lat", "b"], ["zz"]]):
                for sp in specifics:
                    for r in reqs:
                        cfgs.append((f, o, w, r, None, sp))
                        cfgs.append((f, o, w, None, r, sp))
                    cfgs.append((f, o, w, "all", "all", sp))
                    cfgs.append((f, o, w, ["lat"], ["b"], sp))
    if not ctx.thorough and len(cfgs) > 60000:
        # quick: the full 3-name product is ~90k; keep a deterministic stride + random remainder
        keep = cfgs[::3] + rng.sample(cfgs, 8000)
        ctx.exhaustive.append(f"gather_dimensions over the 3-name universe: {len(keep)} of {len(cfgs)} configurations (stride 3 + random 8000)")
        return keep
    ctx.exhaustive.append(f"gather_dimensions over the {len(u)}-name universe: all {len(cfgs)} enumerated configurations")
    return cfgs


def run_gather(f, o, w, r, p, sp):
    from scores.utils import gather_dimensions
    import warnings
    try:
        with warnings.catch_warnings():
            warnings.simplefilter("ignore")
            res = gather_dimensions([R.fresh(x) for x in f], list(o), weights_dims=(None if w is None else list(w)),
                                    reduce_dims=(tuple(r) if isinstance(r, list) and len(r) == 2 else r),
                                    preserve_dims=p, score_specific_fcst_dims=sp)
        return {"ok": sorted(str(x) for x in res)}
    except Exception as ex:
        return {"err": exc_kind(ex)}


def model_outcome(m):
    if "ok" in m:
        return {"ok": sorted(set(m["ok"]))}
    return {"err": m["err"].split(":")[0], "why": m["err"]}


def check_gather(ctx, batch, kind, which):
    cfgs = gather_configs(ctx)
    ops = [{"op": "c01.gather", "args": {"fcst": f, "obs": o, "weights": w, "reduce": spec_json(r), "preserve": spec_json(p),
                                          "specific": spec_json(sp)}} for f, o, w, r, p, sp in cfgs]
    res = core.run_driver("C01", ops)
    for cfg, m in zip(cfgs, res):
        f, o, w, r, p, sp = cfg
        impl = run_gather(*cfg)
        mod = model_outcome(m[which])
        desc = {"fcst": f, "obs": o, "weights": w, "reduce": r, "preserve": p, "specific": sp}
        ctx.case(batch, desc, nontrivial="ok" in impl)
        ctx.tag("gather:" + ("ok" if "ok" in impl else impl["err"]))
        same = (("ok" in impl and "ok" in mod and impl["ok"] == mod["ok"]) or
                ("err" in impl and "err" in mod and impl["err"] == mod["err"]))
        if not same:
            ctx.fail(batch, kind, "gather_dimensions", "outcome", desc, observed=impl, expected=mod,
                     tags={"site": "gather_dimensions"}, theorem="gather_eq_spec")


# ----------------------------------------------------------------------------- call-site facts from the AST
def callsite_facts():
    """for each registry function: is `weights_dims=` handed to gather_dimensions? (AST of the defining module)"""
    facts = {}
    for e in R.REGISTRY:
        try:
            f = e.resolve()
            src_file = f.__code__.co_filename
            tree = ast.parse(open(src_file).read())
            fn = next((n for n in ast.walk(tree) if isinstance(n, ast.FunctionDef) and n.name == f.__name__), None)
            passes = None
            if fn is not None:
                for n in ast.walk(fn):
                    if isinstance(n, ast.Call) and ((isinstance(n.func, ast.Attribute) and n.func.attr == "gather_dimensions") or
                                                    (isinstance(n.func, ast.Name) and n.func.id == "gather_dimensions")):
                        passes = any(k.arg == "weights_dims" for k in n.keywords)
            facts[e.name] = passes
        except Exception as ex:  # pragma: no cover
            facts[e.name] = f"error: {ex}"
    return facts


# ----------------------------------------------------------------------------- scores
def requests_for(scoring, rng, extra_weight_dims=()):
    """every spelling of every subset R of the scoring dims, with the expected reduced set"""
    S = sorted(scoring)
    out = [({}, set(S), "none"), ({"reduce_dims": "all"}, set(S), "reduce-all"), ({"preserve_dims": "all"}, set(), "preserve-all")]
    for Rs in all_subsets(S):
        rest = [d for d in S if d not in Rs]
        out.append(({"reduce_dims": [R.fresh(d) for d in Rs]}, set(Rs), "reduce-list"))
        out.append(({"preserve_dims": [R.fresh(d) for d in rest]}, set(Rs), "preserve-list"))
        if len(Rs) >= 2:
            out.append(({"reduce_dims": tuple(R.fresh(d) for d in Rs)}, set(Rs), "reduce-tuple"))
        if len(Rs) == 1:
            out.append(({"reduce_dims": R.fresh(Rs[0])}, set(Rs), "reduce-str"))
        if len(rest) == 1:
            out.append(({"preserve_dims": R.fresh(rest[0])}, set(Rs), "preserve-str"))
    return out


def error_requests(scoring, specific):
    S = sorted(scoring)
    out = [({"reduce_dims": "all", "preserve_dims": "all"}, "both"),
           ({"reduce_dims": S[:1], "preserve_dims": S[:1]}, "both"),
           ({"reduce_dims": ["zz"]}, "absent"), ({"preserve_dims": ["zz"]}, "absent"),
           ({"reduce_dims": "zz"}, "absent"), ({"preserve_dims": S[:1] + ["zz"]}, "absent")]
    return out


def safe_call(e, case, req, **kw):
    import warnings
    try:
        with warnings.catch_warnings(), np.errstate(all="ignore"):
            warnings.simplefilter("ignore")
            return e.outputs(e.call(case, req, **kw)), None
    except Exception as ex:
        return None, ex


def arr_json(da):
    dims, shape, data = R.to_labelled(da)
    return {"dims": dims, "shape": shape, "data": [core.fl_str(x) for x in data]}


def same_values(a, b):
    da, sa, va = R.to_labelled(a)
    db, sb, vb = R.to_labelled(b)
    return da == db and sa == sb and all(core.close_ff(x, y) for x, y in zip(va, vb))


def check_scores(ctx, ncases, model=True, only=None):
    """registry sweep. model=True: compare against the Lean model (kind correspondence);
    the relational laws are always checked (kind property)."""
    rng = ctx.rng
    pending = []   # (entry, case, request, var, impl DataArray, P_all DataArray, Rset) for the driver
    facts = callsite_facts()
    for e in R.REGISTRY:
        if only and e.name not in only:
            continue
        if isinstance(facts.get(e.name), bool) and facts[e.name] != e.passes_weights_dims:
            ctx.notes.append(f"call-site fact changed: {e.name} passes weights_dims={facts[e.name]} (registry: {e.passes_weights_dims})")
        for ci in range(ncases):
            case = R.gen_case(rng, e, with_weights=(rng.random() < 0.5), nan_p=(0.15 if ci % 2 else 0.0),
                              overlap=("same", "obs-superset", "obs-subset")[ci % 3], single_member=(ci % 3 == 2))
            if ci % 3 == 2 and "member" in e.specific_sizes:
                ctx.tag("single-member-ensemble")
            ctx.tag("overlap:" + ("same", "obs-superset", "obs-subset")[ci % 3])
            data = set(case.fcst_dims) | set(case.obs_dims)
            extra_w = set()
            if case.weights is not None:
                extra_w = set(case.weights_dims) - data
            scoring = set(data)
            if e.passes_weights_dims:
                scoring |= extra_w
            base, ex = safe_call(e, case, {"preserve_dims": "all"})
            if ex is not None:
                ctx.fail("score-dims", "property", e.name, "exception:" + exc_kind(ex), R.describe(case, {"preserve_dims": "all"}),
                         observed=str(ex)[:200], expected="a result", tags={"function": e.name, "spelling": "preserve-all"})
                continue
            results = {}
            for req, Rset, spelling in requests_for(scoring, rng):
                out, ex = safe_call(e, case, req)
                desc = {"function": e.name, "fcst_dims": case.fcst_dims, "obs_dims": case.obs_dims,
                        "weights_dims": case.weights_dims if case.weights is not None else None, "request": {k: (list(v) if not isinstance(v, str) else v) for k, v in req.items()}}
                ctx.case("score-dims", desc, nontrivial=ex is None)
                ctx.tag("spelling:" + spelling)
                tags = {"function": e.name, "spelling": spelling, "weights_extra_dim": bool(extra_w)}
                if extra_w and falsy_request(req) and e.func in F9_FUNCS:
                    tags["defect"] = "F9"      # known finding: bare .mean() also reduces the weights-only dim
                if ex is not None:
                    ctx.fail("score-dims", "property", e.name, "exception:" + exc_kind(ex), R.describe(case, req),
                             observed=str(ex)[:200], expected="a result", tags=tags)
                    continue
                for var, da in out.items():
                    expect_dims = (scoring - Rset) | set(e.extra_dims(var)) | (extra_w - (Rset if e.passes_weights_dims else set()))
                    got = set(str(d) for d in da.dims)
                    if got != expect_dims:
                        ctx.fail("score-dims", "property", e.name, "result-dims", R.describe(case, req), observed=sorted(got),
                                 expected=sorted(expect_dims), tags=tags, theorem="gather_eq_spec")
                        break
                results.setdefault(frozenset(Rset), []).append((spelling, req, out))
                if model and e.kind == "mean" and spelling in ("none", "reduce-list", "preserve-str", "reduce-str", "reduce-all"):
                    for var, da in out.items():
                        if var in base:
                            pending.append((e, case, req, var, da, base[var], sorted(Rset), tags))
            # relational laws between implementation runs: same R => same values, whatever the spelling
            for Rset, lst in results.items():
                sp0, req0, out0 = lst[0]
                for sp, req, out in lst[1:]:
                    ctx.batches.setdefault("spelling-relations", {"cases": 0, "failed": 0})["cases"] += 1
                    for var in out0:
                        if var in out and not same_values(out0[var], out[var]):
                            sig = "none-vs-all" if {sp0, sp} == {"none", "reduce-all"} else "spelling-changes-value"
                            ctx.fail("spelling-relations", "property", e.name, sig, R.describe(case, req),
                                     observed={"spelling": sp, "values": R.to_labelled(out[var])[2]},
                                     expected={"spelling": sp0, "values": R.to_labelled(out0[var])[2]},
                                     tags=dict({"function": e.name, "spellings": sorted([sp0, sp]), "weights_extra_dim": bool(extra_w)},
                                               **({"defect": "F9"} if (extra_w and (falsy_request(req0) or falsy_request(req)) and e.func in F9_FUNCS) else {})),
                                     theorem="reduce_preserve_dual")
                            break
            # errors
            for req, why in error_requests(scoring, case.specific):
                out, ex = safe_call(e, case, req)
                ctx.case("score-errors", {"function": e.name, "request": {k: (list(v) if not isinstance(v, str) else v) for k, v in req.items()}, "why": why},
                         nontrivial=False)
                if ex is None:
                    ctx.fail("score-errors", "property", e.name, "no-error:" + why, R.describe(case, req), observed="returned a value",
                             expected="ValueError", tags={"function": e.name, "why": why}, theorem="both_is_error" if why == "both" else "absent_dim_is_error")
                elif not isinstance(ex, ValueError):
                    ctx.fail("score-errors", "property", e.name, "wrong-exception:" + why, R.describe(case, req),
                             observed=exc_kind(ex) + ": " + str(ex)[:120], expected="ValueError", tags={"function": e.name, "why": why})
    compare_mean_of_pointwise(ctx, pending)


def compare_mean_of_pointwise(ctx, pending, batch="mean-of-pointwise"):
    """mean-type scores: reduced value = Lean nan-mean over R of the function's own preserve-all output"""
    if not pending:
        return
    ops = [{"op": "c01.scoreEval", "args": {"p": arr_json(pa), "R": Rl}} for (_, _, _, _, _, pa, Rl, _) in pending]
    res = core.run_driver("C01", ops)
    for (e, case, req, var, da, pa, Rl, tags), m in zip(pending, res):
        ctx.batches.setdefault(batch, {"cases": 0, "failed": 0})["cases"] += 1
        dims, shape, vals = R.to_labelled(da)
        # model dims: canonical order
        md = m["dims"]
        order = sorted(range(len(md)), key=lambda i: md[i])
        marr = np.array([core.parse_fl(x) if x not in ("nan", "inf", "-inf") else float(x) for x in m["data"]], dtype=object).reshape(m["shape"] or ())
        if md:
            marr = np.transpose(marr, order)
        mvals = list(np.ravel(marr)) if md else [marr.item() if hasattr(marr, "item") else marr]
        ok = sorted(md) == dims and len(mvals) == len(vals) and all(core.close(x, y) for x, y in zip(vals, mvals))
        if not ok:
            ctx.fail(batch, "property", e.name, "not-nanmean-of-pointwise", R.describe(case, req),
                     observed={"var": var, "dims": dims, "values": vals}, expected={"dims": sorted(md), "values": [core.fl_str(x) for x in mvals]},
                     tags=tags, theorem="scoreEval")


def check_single_nan(ctx, only=None):
    """deterministic NaN class: exactly ONE input (forecast, second forecast, observation or weights) has a NaN, at one
    position, on an array with at least two cases along every dimension — the reduced value of every output variable
    must still be the NaN-skipping mean of the function's own preserve-all output (a score that reduces its components
    separately, or re-assembles a total from reduced parts, fails exactly here)."""
    rng = ctx.rng
    pending = []
    for e in R.REGISTRY:
        if e.kind != "mean" or (only and e.name not in only):
            continue
        slots = [a for a, _, _ in e.inputs] + (["weights"] if e.weights else [])
        for slot in slots:
            dd = sorted(rng.sample(R.UNIVERSE, 2))
            case = R.gen_case(rng, e, data_dims=dd, obs_dims=list(dd), weights_dims=list(dd), sizes={d: 2 for d in R.UNIVERSE},
                              with_weights=(slot == "weights" or rng.random() < 0.3))
            tgt = case.weights if slot == "weights" else case.arrays[slot]
            if tgt is None or tgt.dtype.kind != "f" or tgt.size < 2:
                continue
            v = np.array(tgt.values, dtype=float)
            idx = tuple(rng.randrange(n) for n in v.shape)
            if e.specific and slot != "weights" and any(str(d) in e.specific for d in tgt.dims) and e.ordered_specific:
                continue
            v[idx] = np.nan
            if slot == "weights":
                case.weights = tgt.copy(data=v)
            else:
                case.arrays[slot] = tgt.copy(data=v)
            base, ex = safe_call(e, case, {"preserve_dims": "all"})
            if ex is not None:
                continue
            for req, Rset in (({}, set(dd)), ({"reduce_dims": [R.fresh(dd[0])]}, {dd[0]}), ({"preserve_dims": [R.fresh(dd[0])]}, {dd[1]})):
                out, ex = safe_call(e, case, req)
                ctx.case("single-nan", {"function": e.name, "nan_in": slot, "request": {k: list(v2) for k, v2 in req.items()}}, nontrivial=ex is None)
                ctx.tag("single-nan:" + ("weights" if slot == "weights" else dict((a, r) for a, _, r in e.inputs)[slot]))
                if ex is not None:
                    continue
                for var, da in out.items():
                    if var in base:
                        pending.append((e, case, req, var, da, base[var], sorted(Rset), {"function": e.name, "nan_in": slot, "spelling": "single-nan"}))
    compare_mean_of_pointwise(ctx, pending, batch="single-nan")


def check_f9(ctx):
    """known finding F9: mse/mae/rmse with a weights-only dimension — None reduces it, 'all' keeps it"""
    from scores.continuous import mae, mse, rmse
    f = xr.DataArray([[1.0, 2, 3], [4, 5, 7]], dims=["a", "b"])
    o = xr.DataArray([[1.0, 3, 2], [4, 4, 9]], dims=["a", "b"])
    w = xr.DataArray([[1.0, 2], [3, 4]], dims=["a", "z"])
    for name, fn in (("mse", mse), ("mae", mae), ("rmse", rmse)):
        a = fn(f, o, weights=w)
        b = fn(f, o, weights=w, reduce_dims="all")
        ctx.case("weights-only-dim", {"function": name, "weights_dims": ["a", "z"]})
        if set(a.dims) != set(b.dims):
            ctx.fail("weights-only-dim", "property", name, "none-vs-all", {"function": name, "fcst_dims": ["a", "b"], "weights_dims": ["a", "z"]},
                     observed={"none": list(a.dims), "all": list(b.dims)}, expected="identical",
                     tags={"function": name, "defect": "F9", "weights_extra_dim": True})


GEN_ERR = {"ERROR_OVERSPECIFIED_PRESERVE_REDUCE": "ValueError", "ERROR_SPECIFIED_NONPRESENT_PRESERVE_DIMENSION": "ValueError",
           "ERROR_SPECIFIED_NONPRESENT_REDUCE_DIMENSION": "ValueError"}


def check_gather_gen(ctx, batch):
    """tie T validated: the REGENERATED Lean code of gather_dimensions (Gen/Dims.lean, statement translator) is run on
    the same configurations as the real function — a translator error shows up here, a source change shows up in the
    theorems of Props/C01Gen.lean (and here against the rule)."""
    cfgs = gather_configs(ctx)
    if not ctx.thorough:
        cfgs = cfgs[::4]
    ops = [{"op": "c01.gen_gather", "args": {"fcst": f, "obs": o, "weights": w, "reduce": spec_json(r), "preserve": spec_json(p),
                                              "specific": spec_json(sp)}} for f, o, w, r, p, sp in cfgs]
    try:
        res = core.run_driver("C01Gen", ops)
    except Exception as ex:   # the regenerated module does not build / run: an obligation, not a violation by itself
        ctx.fail(batch, "correspondence", "gather_dimensions", "gen-driver", {"error": str(ex)[-400:]}, observed="driver failed",
                 expected="regenerated code runs", tags={"site": "gather_dimensions"}, theorem="gen_eq_model")
        return
    for cfg, m in zip(cfgs, res):
        f, o, w, r, p, sp = cfg
        impl = run_gather(*cfg)
        if "ok" in m:
            gen = {"ok": sorted(set(m["ok"]))}
        else:
            gen = {"err": m["err"].split(":")[0]}
        desc = {"fcst": f, "obs": o, "weights": w, "reduce": r, "preserve": p, "specific": sp}
        ctx.case(batch, desc, nontrivial="ok" in impl)
        same = (("ok" in impl and "ok" in gen and impl["ok"] == gen["ok"]) or
                ("err" in impl and "err" in gen and impl["err"] == gen["err"]))
        if not same:
            ctx.fail(batch, "correspondence", "gather_dimensions", "gen-outcome", desc, observed=impl, expected=gen,
                     tags={"site": "gather_dimensions"}, theorem="gen_eq_model")


def correspondence(ctx):
    for n in R.audit_registry():
        ctx.notes.append("registry: " + n)
    check_gather(ctx, "gather-vs-model", "correspondence", "model")
    check_gather_gen(ctx, "gather-gen-vs-impl")


def oracle(ctx, boost):
    check_gather(ctx, "gather-vs-rule", "property", "spec")
    check_scores(ctx, ncases=ctx.n(3, 9) * (3 if boost else 1))
    check_single_nan(ctx)
    # several requests on ONE contingency manager: a later request must not be answered from an earlier one
    from sv.props import c09 as _c09
    _c09.oracle_sequences(ctx, ctx.n(30, 400) * (3 if boost else 1), prop="C01")
    check_f9(ctx)


def replay(ctx, payload):
    c = core.Ctx("C01", "quick", payload.get("seed", 0))
    site = payload.get("site")
    if site == "gather_dimensions":
        d = payload["case"]
        cfg = (d["fcst"], d["obs"], d["weights"], d["reduce"], d["preserve"], d["specific"])
        m = core.run_driver("C01", [{"op": "c01.gather", "args": {"fcst": cfg[0], "obs": cfg[1], "weights": cfg[2],
                                                                 "reduce": cfg[3], "preserve": cfg[4], "specific": cfg[5]}}])[0]
        impl = run_gather(*cfg)
        mod = model_outcome(m["spec"])
        return not (impl.get("ok") == mod.get("ok") and impl.get("err") == mod.get("err"))
    if payload.get("tags", {}).get("defect") == "F9":
        check_f9(c)
        return bool(c.failures)
    c.rng.seed(payload.get("seed", 0))
    check_scores(c, ncases=6, only={site})
    return any(f["site"] == site and f["signature"] == payload.get("signature") for f in c.failures)
