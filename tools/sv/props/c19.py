"""C19 — Diebold–Mariano statistics follow the published estimators and sign symmetry."""
from __future__ import annotations

import math
import statistics
import warnings
from fractions import Fraction

import numpy as np
import xarray as xr

from sv import core

PROPERTY = "C19"
GEN = ["DieboldMariano"]
PROPS = ["ScoresVerif/Props/C19.lean", "ScoresVerif/Props/C19NextRegular.lean", "ScoresVerif/Props/C19Gen.lean"]
DRIVER_DEPS = ["ScoresVerif.Driver.C19", "ScoresVerif.Driver.C19Gen"]
AUDIT_FILES = ["ScoresVerif/Model/DieboldMariano.lean", "ScoresVerif/Spec/DieboldMariano.lean",
               "ScoresVerif/Lemmas/DieboldMariano.lean", "ScoresVerif/Lemmas/C19NextRegular.lean",
               "ScoresVerif/Driver/C19.lean"]
LEVEL = "proof"
TRUSTED = ["sqrt is uninterpreted in the rational model (harness applies libm sqrt to the exact V_hat and factor)",
           "np.fft (acovf) is not modelled: acovf is compared with the direct biased estimator at every lag",
           "scipy.optimize.least_squares (HG fit) and scipy.stats.norm/t are not modelled: the HG statistic is checked GIVEN the "
           "parameters the implementation's own least_squares call returned (read by wrapping that name for the duration of the call; "
           "density over all lags evaluated by the Lean Spec, exp(-3/theta) and sqrt by libm), against an independent scipy fit on the "
           "exact autocovariances (oracle level, rtol 2e-3), and through relations between implementation runs; cdf/quantiles are "
           "recomputed with independent formulas (erfc, stdlib inv_cdf, regularised incomplete beta + bisection)",
           "storage dtypes: the harness only ever hands the library arrays whose stored values ARE the case's values (fits(): "
           "integers within the dtype's range, float32-representable dyadics); relations whose transformed values do not exist in the "
           "dtype (negation for uint8 / bool, rescaling out of range or to non-integers) are skipped, not wrapped"]
ASSUMPTIONS = ["the series is the sequence of stored values along the non-ts_dim dimension in stored order; its coordinate labels (any "
               "type, any order, duplicates, absent) carry no meaning for the statistic",
               "series values are small dyadic rationals times a per-series power of two 2^e, -30 <= e <= 30 (exact in float64, so the "
               "exact-rational model applies at every magnitude), or NaN; quotients compared to 1e-9; mean and interval limits are "
               "compared after exact division by 2^e, i.e. relative to the magnitude of the series",
               "exact V_hat = 0 on a non-constant series is decided by float rounding in the implementation: skipped and tagged",
               "float rounding is not modelled; float32 storage (the library then computes in float32) is compared at 1e-5 x the "
               "cancellation amplification and skipped beyond 1e-2; HG on float32 storage is not compared with its float64 run "
               "(scipy's stopping point moves by percents under 1e-7 perturbations of large-magnitude autocovariances): tagged",
               "the independent HG fit is compared for non-constant, non-float32 series of length >= 4; the reference fit is made on the "
               "series divided exactly by its power-of-two magnitude (the least-squares optimum is scale-equivariant, the statistic "
               "invariant); a disagreement on a series of magnitude 2^e, e != 0, is the reproduced defect HG-FIT-SCALE (notes/C19.md) and "
               "carries tags defect=HG-FIT-SCALE, off_unit_magnitude=true"]
MANIFEST = dict(
    level="proof",
    text="Kernel-checked Lean theorems about a hand model of the HLN route of diebold_mariano_impl.py (NaN removal, mean, "
         "autocovariance sums, V_hat = (g0 + 2 sum_{k<h} g_k)/n^2 with <= 0 -> NaN, factor (n+1-2h+h(h-1)/n)/n, statistic through "
         "its square and sign, CI arithmetic mean*(1 -/+ q/statistic) in IEEE-like Fl, _next_regular): the model's mean / V_hat / "
         "autocovariances / factor equal the published Harvey-Leybourne-Newbold estimators written as index sums (Spec); negating a "
         "series keeps V_hat and statistic^2 and flips the sign; rescaling by c>0 keeps statistic^2 and sign (also stated over R with "
         "Real.sqrt: hlnReal(-d) = -hlnReal d, hlnReal(c d) = hlnReal d); the factor is positive for h<n; all-zero or V_hat<=0 gives "
         "NaN; for a finite non-zero statistic with the sign of the mean and q>=0 both limits are finite, ci_lower <= mean <= ci_upper "
         "and the half-width is q*|mean/statistic| (partial: known finding F6 excluded by statistic != 0, with a kernel-decided "
         "counterexample on the witness series); for every target >= 1 (no size bound) next_regular(target) is THE least number "
         "2^a 3^b 5^c that is >= target (smooth, >=, minimal; fixed points, idempotent, monotone, < 2*target), hence the FFT length "
         "next_regular(2n+1) is a regular number >= 2n-1 and no smaller regular length >= 2n+1 exists. Tied to the code by "
         "differential correspondence (HLN statistic, mean, length, CI on the implementation's own statistic, acovf vs the direct "
         "estimator at every lag, _next_regular exhaustively up to 1e4/1e5). The oracle checks the real diebold_mariano against the "
         "Spec, sign symmetry and series independence for both methods, scale invariance (HLN; factors down to 2^-30 and up to 2^30, "
         "series of magnitude 2^-30..2^30 throughout, mean / limits compared relative to that magnitude), confidence_gt_0 and the interval "
         "against independent cdf/quantile implementations, and _next_regular against the true next 5-smooth number. "
         "Storage dtypes (int64 / int32 / int16 / int8 / uint8 / bool integer-valued differences incl. 0/1 streams, float32 dyadics; h >= 2 "
         "favoured, non-integer means): the expected HLN statistic is the Spec on the VALUES, every relation is repeated, and the same "
         "values held as float64 must give the same outputs (both methods). Time-axis labels (not ascending: descending, day-first "
         "date strings, wrapping counters, duplicates, unordered datetime64, none): the expected statistic is the Spec on the values IN "
         "THE ORDER SUPPLIED (the autocovariances depend on it), every relation is repeated under those labels, and the same values "
         "under the plain labels 0..n-1 must give identical outputs (both methods). HG given the parameters (Spec.hgDensity, theorems: positive "
         "for sigma^2 > 0 and rho >= 0; summing fewer lags is strictly smaller for rho > 0; geometric closed form; sigma^2-scaling; "
         "statistic^2 invariant under negation): the real statistic equals mean / sqrt(f0 / n) with f0 = sigma^2 (1 + 2 sum_{k=1}^{n-1} "
         "rho^k) over ALL lags for the implementation's own fitted (sigma, theta) to 1e-9, and agrees with an independent least-squares "
         "fit on the exact autocovariances at the documented lags to 2e-3 - on short series and on AR(1) phi = 0.5 / 0.9 / 0.99, random "
         "walks, linear trend + noise and fractionally integrated (d = 0.4) series of length 8..60 (correspondence / oracle level).",
    note="Trusted: Lean kernel; propext/Classical.choice/Quot.sound; the hand model and harness; libm sqrt (uninterpreted in the "
         "rational model). NOT modelled / not proved: the HG least-squares FIT (scipy least_squares on the exponential covariance model) — "
         "the statistic is proved / computed only GIVEN the fitted parameters (read from the implementation's own least_squares call), "
         "the fit is compared with an independent scipy fit (same algorithm, exact autocovariances, loose tolerance: an oracle, not a "
         "proof), plus sign symmetry, series independence and the cdf / CI algebra as relations between implementation runs; finding "
         "HG-FIT-SCALE (notes/C19.md): off unit magnitude the implementation's fit is not the least-squares fit (stops early below "
         "~1e-2, returns the start (1, 1) unchanged above ~1e4), so the HG statistic is wrong by factors there; np.fft (acovf is compared numerically with the direct biased estimator); scipy.stats norm/t "
         "cdf and ppf (recomputed with erfc, stdlib inv_cdf, incomplete beta + bisection). Known finding F6 (notes/C19.md): a series "
         "with exactly zero mean has statistic 0 but NaN limits. Exact V_hat = 0 on a non-constant series is rounding-decided in the "
         "implementation and skipped (tagged). Error handling of malformed h / dims belongs to C20.",
    technique="Lean 4 theorems over a hand-written executable model + differential correspondence + relational oracle",
    design="6/C19")
RULE = ("1-4 series per call (rows of a 2-D DataArray, either dim order, fresh str dim names), length 2-40, dyadic values with ties, "
        "exact zero-mean / constant / all-zero series forced regularly, about half of the series multiplied by 2^e with e in [-30, 30] "
        "(extremes and |e| >= 14 favoured: V_hat from ~1e-18 to ~1e+20), NaN per slot, h uniform in [1, valid length); "
        "rescaling relation with factors 2, 3, 1/8, 2^-30, 2^30; acovf series likewise scaled; "
        "both methods, both reference distributions, 6 confidence levels; "
        "storage-dtype stream: integer-valued series (0/1, -1/0/1, ties, constant, zero-mean, slow integer walks) as int64 / int32 / int16 / "
        "int8 / uint8 / bool (int64 / int32 also times 2^e up to 2^30 / 2^20), float32 dyadics times 2^e (|e| <= 8) with NaN, length 3-40, "
        "h >= 2 in 70 % of the series, every h on one int64 and one int8 series; long-memory stream (HG): AR(1) phi 0.5 / 0.9 / 0.99, random "
        "walk, trend + noise, fractional d = 0.4, white; length 8-60, values rounded to 1/8, 20 % with two NaNs, h mostly 1-4; "
        "time-axis labels: 40 % of the cases of every stream (30 % in the correspondence) carry a coordinate along the time dimension whose "
        "labels are NOT ascending although the data are chronological - descending ints, day-first date strings across a month end, "
        "day-of-year / hour / weekday counters that wrap inside the series, duplicate labels (all equal, few distinct, descending pairs), "
        "datetime64 reversed / shuffled / later block first, shuffled ints, unpadded 't9','t10' strings, descending floats with a NaN "
        "label, no coordinate at all - plus fixed smooth 12-step series (h = 2, 3, 4, both methods) under six such labelings; "
        "distinct = distinct canonical call; "
        "non-trivial = some series has a finite statistic")

NAN = float("nan")
CLS = [0.95, 0.9, 0.5, 0.99, 0.8, 0.6827]


# ------------------------------------------------------------------------------------------------ independent cdf / quantiles
def norm_cdf(x):
    return 0.5 * math.erfc(-x / math.sqrt(2.0))


def t_cdf(x, df):
    from scipy.special import betainc
    if math.isnan(x):
        return NAN
    if math.isinf(x):
        return 1.0 if x > 0 else 0.0
    tail = 0.5 * float(betainc(df / 2.0, 0.5, df / (df + x * x)))
    return 1.0 - tail if x >= 0 else tail


def t_ppf(p, df):
    lo, hi = 0.0, 1.0
    while t_cdf(hi, df) < p:
        hi *= 2.0
        if hi > 1e300:
            return math.inf
    for _ in range(200):
        mid = (lo + hi) / 2
        if t_cdf(mid, df) < p:
            lo = mid
        else:
            hi = mid
    return (lo + hi) / 2


def quantile_for(dist, cl, n):
    p = 1 - (1 - cl) / 2
    if dist == "normal":
        return statistics.NormalDist().inv_cdf(p)
    return t_ppf(p, n - 1)


def cdf_for(dist, x, n):
    if math.isnan(x):
        return NAN
    return norm_cdf(x) if dist == "normal" else t_cdf(x, n - 1)


# ------------------------------------------------------------------------------------------------ cases
def mk_case(rows, hs, method="HLN", dist="normal", cl=0.95, layout="ts-first", exps=None, dtype="float64", kinds=None):
    """exps[i] = e: row i has already been multiplied by 2^e (exact); used only to compare mean / interval relative to the
    magnitude of the series.  dtype = storage dtype of the DataArray handed to the library (the VALUES are what `rows` says;
    every value must be exactly representable in that dtype, see fits()).  kinds = how each row was generated (tag only)."""
    c = {"rows": [[float(x) for x in r] for r in rows], "h": [int(h) for h in hs], "method": method, "dist": dist,
         "cl": float(cl), "layout": layout, "exp": [int(e) for e in (exps if exps is not None else [0] * len(rows))]}
    if dtype != "float64":
        c["dtype"] = dtype
    if kinds is not None:
        c["kinds"] = list(kinds)
    return c


def case_dtype(case):
    return case.get("dtype", "float64")


INT_DTYPES = ("int64", "int32", "int16", "int8", "uint8", "bool")
DTYPES = INT_DTYPES + ("float32",)


def fits(rows, dtype):
    """every value of `rows` is exactly representable in `dtype` (so that the array handed to the library holds exactly these
    VALUES: nothing the harness does may wrap, truncate or round)"""
    if dtype == "float64":
        return True
    for row in rows:
        for x in row:
            if math.isnan(x):
                if dtype != "float32":
                    return False
                continue
            if dtype == "float32":
                with np.errstate(all="ignore"):
                    if not (math.isfinite(x) and float(np.float32(x)) == x):
                        return False
                continue
            if not math.isfinite(x) or x != int(x) or abs(x) > 2.0 ** 53:
                return False
            if dtype == "bool":
                if x not in (0.0, 1.0):
                    return False
            else:
                info = np.iinfo(dtype)
                if not info.min <= int(x) <= info.max:
                    return False
    return True


SCALE_EXPS = [-30, -30, -29, -27, -24, -20, -17, -14, -13, -10, -7, -3, 3, 8, 14, 21, 27, 30, 30]
RESCALE_FACTORS = (2.0, 3.0, 0.125, 2.0 ** -30, 2.0 ** 30)


def gen_exp(rng):
    """power-of-two magnitude of a series: 2^e * dyadic is exact in float64 and so are all sums / products of the HLN route"""
    u = rng.random()
    if u < 0.5:
        return 0
    if u < 0.85:
        return rng.choice(SCALE_EXPS)
    return rng.randint(-30, 30)


def row_scale(case, i):
    e = case.get("exp")
    return 2.0 ** (e[i] if e else 0)


def normed(r, i, s):
    """outputs of series i with mean / limits divided (exactly) by the power-of-two magnitude s of the series"""
    return {key: (r[key][i] / s if key in ("mean", "ci_upper", "ci_lower") else r[key][i]) for key in r}


F6_WITNESS = mk_case([[1, -1, 2, -2]], [1], "HLN", "normal", 0.95)


def gen_series(rng, n):
    kind = rng.random()
    den = rng.choice([1, 1, 2, 4])
    if kind < 0.08:
        s = [0.0] * n
    elif kind < 0.16:
        c = rng.randint(-8, 8) / den
        s = [c] * n
    elif kind < 0.36:                       # exact zero mean: symmetric multiset, shuffled
        half = [rng.randint(1, 12) / den for _ in range(n // 2)]
        s = half + [-x for x in half] + ([0.0] if n % 2 else [])
        rng.shuffle(s)
    else:
        pool = [rng.randint(-12, 12) / den for _ in range(rng.randint(2, 6))]
        s = [rng.choice(pool) if rng.random() < 0.5 else rng.randint(-16, 16) / den for _ in range(n)]
    return s


def gen_case(rng, method=None, nmax=14):
    k = rng.choice([1, 1, 2, 3, 4])
    n = rng.choice([2, 3, 3, 4, 5, 6, 7, 8, 10, 12, nmax])
    rows, hs, exps = [], [], []
    for _ in range(k):
        s = gen_series(rng, n)
        e = gen_exp(rng)
        exps.append(e)
        s = [x * 2.0 ** e for x in s]
        pn = rng.choice([0, 0, 0.15, 0.3])
        valid = n
        for i in range(n):
            if rng.random() < pn and valid > 2:
                s[i] = NAN
                valid -= 1
        rows.append(s)
        hs.append(rng.randint(1, valid - 1))
    return mk_case(rows, hs, method or rng.choice(["HLN", "HLN", "HG"]), rng.choice(["normal", "t"]), rng.choice(CLS),
                   rng.choice(["ts-first", "ts-second"]), exps)


# ------------------------------------------------------------------------------------------------ storage-dtype cases
def gen_int_series(rng, n, lo, hi):
    """integer-valued score differences in [lo, hi] (differences of counts / categorical scores): 0/1 and -1/0/1 streams,
    ties, constant, all-zero, exact zero mean; the mean is a non-integer for nearly every draw"""
    kind = rng.random()
    if kind < 0.06:
        s = [0] * n
    elif kind < 0.12:
        s = [rng.randint(lo, hi)] * n
    elif kind < 0.22 and lo < 0:
        half = [rng.randint(1, min(hi, -lo)) for _ in range(n // 2)]
        s = half + [-x for x in half] + ([0] if n % 2 else [])
        rng.shuffle(s)
    elif kind < 0.40:
        p1 = rng.choice([0.2, 0.5, 0.8])
        s = [1 if rng.random() < p1 else 0 for _ in range(n)]
    elif kind < 0.52 and lo < 0:
        s = [rng.choice([-1, 0, 0, 1, 1]) for _ in range(n)]
    elif kind < 0.62:                                    # persistent counts: a slow integer random walk, clipped
        x = rng.randint(lo // 2, hi // 2)
        s = []
        for _ in range(n):
            x = min(hi, max(lo, x + rng.choice([-1, 0, 0, 1])))
            s.append(x)
    else:
        pool = [rng.randint(lo, hi) for _ in range(rng.randint(2, 5))]
        s = [rng.choice(pool) if rng.random() < 0.5 else rng.randint(lo, hi) for _ in range(n)]
    return [float(x) for x in s]


DTYPE_RANGE = {"int64": (-16, 16), "int32": (-16, 16), "int16": (-16, 16), "int8": (-12, 12), "uint8": (0, 20), "bool": (0, 1)}
DTYPE_EXPS = {"int64": [0, 0, 0, 3, 10, 20, 27, 30], "int32": [0, 0, 0, 3, 8, 14, 20], "int16": [0, 0, 3, 8], "int8": [0], "uint8": [0],
              "bool": [0], "float32": [0, 0, 0, -8, -3, 3, 8]}


def gen_dtype_case(rng, method=None, dtype=None):
    """the VALUES are small integers (times 2^e where the dtype has room) resp. dyadics for float32; h >= 2 favoured"""
    dtype = dtype or rng.choice(["int64", "int64", "int32", "int32", "int8", "int8", "int16", "uint8", "bool", "float32", "float32"])
    k = rng.choice([1, 1, 2, 3])
    n = rng.choice([3, 4, 5, 6, 7, 8, 10, 12, 14, 25, 40])
    rows, hs, exps = [], [], []
    for _ in range(k):
        e = rng.choice(DTYPE_EXPS[dtype])
        valid = n
        if dtype == "float32":
            s = gen_series(rng, n)
            pn = rng.choice([0, 0, 0.2])
            for i in range(n):
                if rng.random() < pn and valid > 3:
                    s[i] = NAN
                    valid -= 1
        else:
            lo, hi = DTYPE_RANGE[dtype]
            s = gen_int_series(rng, n, lo, hi)
        rows.append([x * 2.0 ** e for x in s])
        exps.append(e)
        hs.append(rng.randint(2, valid - 1) if rng.random() < 0.7 else rng.randint(1, valid - 1))
    return mk_case(rows, hs, method or rng.choice(["HLN", "HLN", "HG"]), rng.choice(["normal", "t"]), rng.choice(CLS),
                   rng.choice(["ts-first", "ts-second"]), exps, dtype=dtype)


# ------------------------------------------------------------------------------------------------ long-memory cases (HG)
LONG_KINDS = ["ar1-0.9", "ar1-0.9", "ar1-0.99", "ar1-0.5", "random-walk", "random-walk", "trend+noise", "trend+noise",
              "frac-d0.4", "white"]


def gen_long_series(rng, n, kind):
    """strongly autocorrelated / trending / long-memory series from the seeded RNG, rounded to multiples of 1/8 (dyadic)"""
    if kind.startswith("ar1-"):
        phi = float(kind[4:])
        x = [rng.gauss(0, 2)]
        for _ in range(n - 1):
            x.append(phi * x[-1] + rng.gauss(0, 2))
        off = rng.randint(-8, 8) / 4
        s = [round((v + off) * 8) / 8 for v in x]
    elif kind == "random-walk":
        s = [rng.randint(-16, 16) / 4]
        for _ in range(n - 1):
            s.append(s[-1] + rng.randint(-8, 8) / 4)
    elif kind == "trend+noise":
        a = rng.randint(-16, 16) / 4
        b = rng.choice([-1, 1]) * rng.randint(1, 8) / 8
        s = [a + b * t + rng.randint(-4, 4) / 4 for t in range(n)]
    elif kind == "frac-d0.4":                            # fractionally integrated noise, d = 0.4 (hyperbolic autocorrelation)
        psi = [1.0]
        for j in range(1, n + 20):
            psi.append(psi[-1] * (j - 1 + 0.4) / j)
        e = [rng.gauss(0, 2) for _ in range(n + 20)]
        off = rng.randint(-8, 8) / 4
        s = [round((sum(psi[j] * e[t + 20 - j] for j in range(t + 21)) + off) * 8) / 8 for t in range(n)]
    else:
        s = [rng.randint(-16, 16) / 4 for _ in range(n)]
    if len(set(s)) == 1:
        s[0] += 0.5
    return s


def gen_long_case(rng, dtype=None):
    k = rng.choice([1, 1, 2])
    n = rng.choice([8, 12, 16, 20, 30, 40, 60])
    rows, hs, kinds = [], [], []
    for _ in range(k):
        kind = rng.choice(LONG_KINDS)
        s = gen_long_series(rng, n, kind)
        valid = n
        if rng.random() < 0.2:
            for i in rng.sample(range(n), 2):
                s[i] = NAN
                valid -= 1
        rows.append(s)
        kinds.append(kind)
        hs.append(rng.randint(1, valid - 1) if rng.random() < 0.25 else rng.randint(1, min(4, valid - 1)))
    return mk_case(rows, hs, "HG", rng.choice(["normal", "t"]), rng.choice(CLS), rng.choice(["ts-first", "ts-second"]), kinds=kinds)


# ------------------------------------------------------------------------------------------------ the coordinate along the time axis
# The statistics are those of each series IN THE ORDER SUPPLIED (the autocovariances depend on the order of the values); the
# labels of the coordinate along the time (non-ts_dim) dimension are only labels.  A case may carry
#     case["tcoord"] = {"kind": <how generated, tag only>, "type": "none" | "int" | "float" | "str" | "datetime64", "labels": [...]}
# (JSON-able; absent = the labels 0 .. n-1).  The expected values never look at it: they come from `rows` in stored order.
TCOORD_KINDS = ["desc-int", "desc-int", "dayfirst-str", "dayfirst-str", "wrap-counter", "wrap-counter", "duplicate", "duplicate",
                "datetime64-unordered", "datetime64-unordered", "shuffled-int", "unpadded-str", "float-desc", "none"]


def _ascending(labels):
    try:
        return all(not (b < a) for a, b in zip(labels, labels[1:]))
    except TypeError:
        return False


def gen_tcoord(rng, n, kind=None):
    """labels for a time axis of length n that are NOT in ascending order although the data are chronological"""
    import datetime
    kind = kind or rng.choice(TCOORD_KINDS)
    typ = "int"
    if kind == "none":
        return {"kind": kind, "type": "none", "labels": []}
    if kind == "desc-int":
        off = rng.choice([0, 0, 1, 100, -n])
        labels = [off + n - 1 - i for i in range(n)]
    elif kind == "dayfirst-str":                       # chronological days written day-first: not chronological as text
        month = rng.randint(1, 11)
        first = datetime.date(2021, month + 1, 1) - datetime.timedelta(days=rng.randint(1, max(1, n - 1)))
        labels = [(first + datetime.timedelta(days=i)).strftime("%d-%m-%Y") for i in range(n)]
        typ = "str"
    elif kind == "wrap-counter":                       # day of year / hour of day / minute that wraps inside the series
        period, base = rng.choice([(365, 1), (24, 0), (12, 1), (60, 0), (7, 0)])
        start = period - rng.randint(1, max(1, min(n - 1, period - 1)))
        labels = [(start + i) % period + base for i in range(n)]
    elif kind == "duplicate":
        u = rng.random()
        if u < 0.25:
            labels = [rng.randint(0, 3)] * n                                   # every label the same
        elif u < 0.6:
            labels = [rng.randint(0, 2) for _ in range(n)]                     # few distinct labels, any order
        else:
            labels = [(n - 1 - i) // 2 for i in range(n)]                      # descending in pairs
    elif kind == "datetime64-unordered":
        days = list(range(n))
        u = rng.random()
        if u < 0.4:
            days.reverse()
        elif u < 0.8:
            rng.shuffle(days)
        else:                                                                   # two chronological blocks, the later one first
            cut = rng.randint(1, n - 1)
            days = days[cut:] + days[:cut]
        start = datetime.date(2020, rng.randint(1, 12), rng.randint(1, 28))
        labels = [(start + datetime.timedelta(days=d)).isoformat() for d in days]
        typ = "datetime64"
    elif kind == "shuffled-int":
        labels = list(range(n))
        rng.shuffle(labels)
    elif kind == "unpadded-str":                       # "t8", "t9", "t10", ...: chronological, not in text order
        start = rng.choice([0, 1, 5, 8, 95])
        labels = ["t%d" % (start + i) for i in range(n)]
        if rng.random() < 0.3:
            rng.shuffle(labels)
        typ = "str"
    elif kind == "float-desc":
        step = rng.choice([0.5, 0.25, 1.0])
        labels = [(n - i) * step for i in range(n)]
        if rng.random() < 0.3:
            labels[rng.randrange(n)] = NAN                                     # a missing label
        typ = "float"
    else:
        raise ValueError(kind)
    if kind != "duplicate" and _ascending(labels):     # (a shuffle that came out sorted, ...): make it descending
        labels = labels[::-1]
        if _ascending(labels):
            labels, typ = [n - 1 - i for i in range(n)], "int"
    return {"kind": kind, "type": typ, "labels": labels}


def time_labels(case, n):
    """coordinate values along the time axis (None = the DataArray gets no coordinate there)"""
    tc = case.get("tcoord")
    if tc is None:
        return list(range(n))
    typ = tc["type"]
    if typ == "none":
        return None
    labels = tc["labels"]
    if len(labels) != n:
        raise ValueError("tcoord labels do not match the length of the series")
    if typ == "datetime64":
        return np.array(labels, dtype="datetime64[ns]")
    if typ == "float":
        return [float(x) for x in labels]                # the stored form writes NaN as "nan"
    if typ == "int":
        return [int(x) for x in labels]
    return [str(x) for x in labels]


def with_tcoord(rng, case, kind=None):
    return dict(case, tcoord=gen_tcoord(rng, len(case["rows"][0]), kind))


def sprinkle_tcoord(rng, cases, p):
    """about a fraction p of the cases get a non-ascending time coordinate (drawn AFTER the cases themselves)"""
    return [with_tcoord(rng, c) if ("tcoord" not in c and rng.random() < p) else c for c in cases]


# ------------------------------------------------------------------------------------------------ the HG statistic from its definition
def hg_stat_from_params(v, sigma, theta):
    """Hering-Genton statistic of the (NaN-free) series v for GIVEN parameters of the exponential covariance model
    C(k) = sigma^2 exp(-3k/theta): mean / sqrt(f0 / n) with f0 = C(0) + 2 sum_{k=1}^{n-1} C(k) over ALL lags of the series.
    The mean is exact (rational), exp/sqrt are libm; the lag sum is an explicit fsum (no numpy)."""
    n = len(v)
    mean = float(sum(Fraction(x) for x in v) / n)
    if theta > 0:
        tail = math.fsum(math.exp(-3.0 * k / theta) for k in range(1, n))
    else:
        tail = 0.0
    dens = sigma * sigma * (1.0 + 2.0 * tail)
    if not dens > 0:
        return NAN if (mean == 0 or math.isnan(dens)) else math.copysign(math.inf, mean)
    return mean / math.sqrt(dens / n)


def hg_rho(theta):
    """rho = exp(-3/theta) (libm); the Lean Spec takes rho as an exact rational and forms the powers rho^k itself"""
    return math.exp(-3.0 / theta) if theta > 0 else 0.0


def hg_ops(case, hgp):
    """driver ops evaluating Spec.hgDensity for every series with captured parameters; returns (ops, series indices)"""
    ops, idx = [], []
    for i, par in enumerate(hgp or []):
        if par is not None and all(math.isfinite(x) for x in par):
            ops.append({"op": "c19.hg", "args": {"series": [core.fl_str(x) for x in case["rows"][i]], "sigma": core.fl_str(par[0]),
                                                 "rho": core.fl_str(hg_rho(par[1]))}})
            idx.append(i)
    return ops, idx


def hg_stat_from_spec(m):
    """statistic from the exact Spec values (mean, density over all lags, length): libm sqrt on the exact quotient.
    The exact density sigma^2 (1 + 2 sum rho^k) has a denominator of up to (denominator of rho)^(n-1): thousands of digits."""
    import sys
    if hasattr(sys, "set_int_max_str_digits") and sys.get_int_max_str_digits() != 0:
        sys.set_int_max_str_digits(0)
    mean, dens, n = Fraction(m["mean"]), Fraction(m["density"]), m["len"]
    if dens <= 0:
        return NAN if mean == 0 else math.copysign(math.inf, mean)
    return float(mean) / math.sqrt(float(dens / n))


def hg_spec_results(case, hgp):
    """per series: the Lean Spec evaluation for the captured parameters (None where there are none)"""
    ops, idx = hg_ops(case, hgp)
    out = [None] * len(case["rows"])
    if ops:
        for i, m in zip(idx, core.run_driver("C19", ops)):
            out[i] = m
    return out


def hg_independent_fit(acov_exact, n, h):
    """least-squares fit of sigma^2 exp(-3k/theta) to the EXACT biased autocovariances (Lean Spec, rationals) at the lags
    0 .. max(floor((n-1)/2), h) - 1, bounds sigma, theta >= 0, start (1, 1) as documented for the implementation"""
    from scipy.optimize import least_squares
    nl = max((n - 1) // 2, h)
    acv = np.array([float(Fraction(x)) for x in acov_exact[:nl]], dtype=float)      # Fraction(Fraction) is the identity
    lags = np.arange(nl, dtype=float)

    def resid(p):
        return p[0] * p[0] * np.exp(-3.0 * lags / p[1]) - acv
    with warnings.catch_warnings():
        warnings.simplefilter("ignore")
        with np.errstate(all="ignore"):
            f = least_squares(resid, [1.0, 1.0], bounds=(0, np.inf))
    return float(f.x[0]), float(f.x[1])


def run_impl(case, hg_out=None):
    """one call of the real diebold_mariano.  hg_out (a list) receives, per series, the (sigma, theta) the implementation's own
    scipy least_squares call returned (None for a series without a fit) — obtained by wrapping the `least_squares` name of the
    implementation module for the duration of the call (transparent: same arguments, same result object)."""
    from scores.stats.statistical_tests import diebold_mariano
    rows = np.array(case["rows"], dtype=float)
    dt = case_dtype(case)
    if dt != "float64":
        if not fits(case["rows"], dt):
            return {"err": "HarnessError", "msg": "values not representable in " + dt}
        rows = rows.astype(dt)
    if hg_out is not None:
        return _run_capturing(case, hg_out)
    return _run(case, rows)


def _run_capturing(case, hg_out):
    import importlib
    mod = importlib.import_module("scores.stats.statistical_tests.diebold_mariano_impl")
    orig = getattr(mod, "least_squares", None)
    got = []
    if orig is not None:
        def wrapped(*a, **kw):
            res = orig(*a, **kw)
            try:
                # the autocovariances handed to the fit may be in the series' own units or relative to the variance
                # (acv[0] == 1): keep acv[0] so that the fitted model can be expressed in the units of the series
                fit_args = kw.get("args") or (a[3] if len(a) > 3 else ())
                acv0 = float(np.asarray(fit_args[1], dtype=float)[0]) if len(fit_args) > 1 else float("nan")
                got.append([float(res.x[0]), float(res.x[1]), acv0])
            except Exception:  # noqa: BLE001
                got.append(None)
            return res
        mod.least_squares = wrapped
    try:
        r = run_impl(case)
    finally:
        if orig is not None:
            mod.least_squares = orig
    # one fit per series that is not all-zero (in series order); anything else: no attribution possible
    need = [any(x != 0 for x in row if not math.isnan(x)) for row in case["rows"]]
    if case["method"] == "HG" and "err" not in r and len(got) == sum(need) and all(g is not None for g in got):
        it = iter(got)
        for nz, row in zip(need, case["rows"]):
            if not nz:
                hg_out.append(None)
                continue
            sigma, theta, acv0 = next(it)
            v = [Fraction(x) for x in row if not math.isnan(x)]
            m = sum(v) / len(v)
            g0 = float(sum((x - m) ** 2 for x in v) / len(v))      # biased autocovariance at lag 0 of the VALUES
            # fitted model in the units of the series: C(k) = (g0 / acv0) sigma^2 exp(-3k/theta)
            unit = math.sqrt(g0 / acv0) if (acv0 == acv0 and acv0 > 0 and g0 > 0) else 1.0
            hg_out.append([sigma * unit, theta])
    return r


def _run(case, rows):
    from scores.stats.statistical_tests import diebold_mariano
    ts = "".join(["se", "ries"])
    ot = "".join(["ti", "me"])
    hc = "".join(["h", "_"])
    k, n = rows.shape
    coords = {ts: list(range(100, 100 + k)), hc: (ts, case["h"])}
    try:
        tl = time_labels(case, n)
    except Exception as ex:  # noqa: BLE001
        return {"err": "HarnessError", "msg": str(ex)[:200]}
    if tl is not None:
        coords[ot] = tl
    if case["layout"] == "ts-first":
        da = xr.DataArray(rows, dims=[ts, ot], coords=coords)
    else:
        da = xr.DataArray(rows.T.copy(), dims=[ot, ts], coords=coords)
    with warnings.catch_warnings():
        warnings.simplefilter("ignore")
        with np.errstate(all="ignore"):
            try:
                r = diebold_mariano(da, "".join(["se", "ries"]), "".join(["h", "_"]), method=case["method"],
                                    confidence_level=case["cl"], statistic_distribution=case["dist"])
            except Exception as ex:  # noqa: BLE001
                return {"err": core.exc_class(ex), "msg": str(ex)[:200]}
    return {v: [float(x) for x in np.asarray(r[v].values).ravel()] for v in
            ("mean", "dm_test_stat", "timeseries_len", "confidence_gt_0", "ci_upper", "ci_lower")}


def describe(case):
    return dict(case)


def series_ops(case, op):
    return [{"op": op, "args": {"series": [core.fl_str(x) for x in row], "h": h}} for row, h in zip(case["rows"], case["h"])]


def stat_from(mean, vhat, corr):
    """the documented HLN formula with libm sqrt on exact rational ingredients"""
    if isinstance(vhat, float) and math.isnan(vhat):
        return NAN
    if vhat <= 0:
        return NAN
    return math.sqrt(float(corr)) * (float(mean) / math.sqrt(float(vhat)))


def stat_rtol(gamma0, vhat, n, h):
    """relative tolerance for the statistic: 1e-9, widened when V_hat is the result of heavy cancellation
    (|gamma_k| <= gamma_0, so the float error of the numerator is <= ~n*eps*(2h-1)*gamma_0)"""
    num = abs(float(vhat)) * n * n
    if num == 0:
        return 1e-9
    amp = (2 * h - 1) * float(gamma0) / num
    return 1e-9 + 1e-13 * amp


def tag_case(ctx, case, r=None):
    ctx.tag("method:" + case["method"])
    ctx.tag("dist:" + case["dist"])
    ctx.tag("series:%d" % len(case["rows"]))
    ctx.tag("dtype:" + case_dtype(case))
    ctx.tag("tcoord:" + (case["tcoord"]["kind"] if case.get("tcoord") else "ascending-0..n-1"))
    for kd in case.get("kinds", []):
        ctx.tag("hg-series:" + kd)
    if any(h >= 2 for h in case["h"]):
        ctx.tag("h>=2")
    for i, row in enumerate(case["rows"]):
        v = [x for x in row if not math.isnan(x)]
        e = (case.get("exp") or [0] * len(case["rows"]))[i]
        ctx.tag("magnitude:" + ("2^0" if e == 0 else "2^-30..-14" if e <= -14 else "2^-13..-1" if e < 0 else "2^1..13" if e < 14
                                else "2^14..30"))
        if len(v) < len(row):
            ctx.tag("series-with-nan")
        if all(x == 0 for x in v):
            ctx.tag("all-zero-series")
        elif sum(Fraction(x) for x in v) == 0:
            ctx.tag("zero-mean-series")
        elif len(set(v)) == 1:
            ctx.tag("constant-series")


def rounding_sensitive(row, spec_vhat):
    """exact V_hat == 0 on a non-constant series: the implementation's float value is +-1e-17, decided by rounding"""
    v = [x for x in row if not math.isnan(x)]
    return spec_vhat == 0 and len(set(v)) > 1


def gen_scaled_series(rng, n):
    e = gen_exp(rng)
    return [x * 2.0 ** e for x in gen_series(rng, n)], e


def acovf_differs(got, exact, e):
    """acovf output vs exact autocovariances (protocol strings) of a series of magnitude 2^e: compared after exact division
    by 4^e, so the 1e-9 tolerance is relative to the magnitude of the series"""
    q = Fraction(4) ** e
    exp = [float(Fraction(x) / q) for x in exact]
    scale = max(1.0, abs(exp[0]) if exp else 1.0)
    return len(got) != len(exp) or any(not abs(g / float(q) - x) <= 1e-9 * scale for g, x in zip(got, exp))


# ------------------------------------------------------------------------------------------------ correspondence
# ------------------------------------------------------------------------------------------------ tie T validated: regenerated HLN core
def check_gen(ctx, n):
    """the Lean code REGENERATED from _dm_gamma_hat_k / _dm_v_hat / _hln_method_stat (Gen/DieboldMariano.lean) is run on the same
    dyadic series as the real module-level functions: a translator error shows up here, a source change in Props/C19Gen.lean."""
    import importlib
    mod = importlib.import_module("scores.stats.statistical_tests.diebold_mariano_impl")
    rng = ctx.rng
    cases = []
    for _ in range(n):
        ln = rng.randint(2, 12)
        v = [rng.randint(-24, 24) / 4 for _ in range(ln)]
        if rng.random() < 0.2:
            v = [v[0]] * ln if rng.random() < 0.5 else [0.0] * ln          # constant / all-zero series: V_hat <= 0 -> NaN
        h = rng.randint(1, ln - 1)
        cases.append((v, h))
    try:
        res = core.run_driver("C19Gen", [{"op": "c19.gen_hln", "args": {"series": [core.fl_str(x) for x in v], "h": h}} for v, h in cases])
    except Exception as ex:   # the regenerated module does not build / run: an obligation, not a violation by itself
        ctx.fail("gen-vs-impl", "correspondence", "_dm_v_hat", "gen-driver", {"error": str(ex)[-400:]}, observed="driver failed",
                 expected="regenerated code runs", tags={"site": "_dm_v_hat"}, theorem="gen_v_hat_eq_model")
        return
    for (v, h), m in zip(cases, res):
        d = np.array(v, dtype=float)
        dbar = float(np.mean(d))
        desc = {"series": v, "h": h}
        ctx.case("gen-vs-impl", desc)
        with np.errstate(all="ignore"):
            gam = [float(mod._dm_gamma_hat_k(d, dbar, len(d), k)) for k in range(h)]
            vh = float(mod._dm_v_hat(d, dbar, len(d), h))
        ok = len(gam) == len(m["gamma"]) and all(core.close(a, b, rtol=1e-9, atol=1e-9) for a, b in zip(gam, m["gamma"]))
        mv = core.parse_fl(m["v_hat"])
        if core.is_nan(mv):
            # V_hat <= 0 exactly; the float value can be +-1e-17 (rounding): accept NaN or a value within rounding of 0
            okv = math.isnan(vh) or abs(vh) < 1e-12
        else:
            okv = core.close(vh, mv, rtol=1e-9, atol=1e-12) or (abs(float(mv)) < 1e-12 and math.isnan(vh))
        if not (ok and okv):
            ctx.fail("gen-vs-impl", "correspondence", "_dm_v_hat", "gen-value", desc, observed={"gamma": gam, "v_hat": vh},
                     expected={"gamma": m["gamma"], "v_hat": m["v_hat"]}, tags={"site": "_dm_v_hat"}, theorem="gen_v_hat_eq_model")


def correspondence(ctx):
    rng = ctx.rng
    check_gen(ctx, ctx.n(150, 1500))
    cases = [F6_WITNESS] + [gen_case(rng, "HLN", nmax=rng.choice([14, 25, 40])) for _ in range(ctx.n(400, 6000))]
    # the model is a function of the VALUES: integer-typed storage (exact) goes through the same comparison
    cases += [gen_dtype_case(rng, "HLN", rng.choice(INT_DTYPES)) for _ in range(ctx.n(80, 1200))]
    # the model is a function of the values IN STORED ORDER: non-ascending labels along the time axis change nothing
    cases = sprinkle_tcoord(rng, cases, 0.3)
    ops, idx = [], []
    for ci, c in enumerate(cases):
        o = series_ops(c, "c19.hln")
        ops += o
        idx += [ci] * len(o)
    model = core.run_driver("C19", ops)
    ci_ops, ci_meta = [], []
    pos = 0
    for c in cases:
        r = run_impl(c)
        tag_case(ctx, c)
        ms = model[pos:pos + len(c["rows"])]
        pos += len(c["rows"])
        ctx.case("impl-vs-model-hln", describe(c), nontrivial="err" not in r and any(math.isfinite(x) for x in r["dm_test_stat"]))
        if "err" in r:
            ctx.fail("impl-vs-model-hln", "correspondence", "diebold_mariano", "exception", describe(c), observed=r["err"] + r["msg"],
                     expected="a Dataset", tags={"method": c["method"]})
            continue
        for i, (row, m) in enumerate(zip(c["rows"], ms)):
            sc = row_scale(c, i)
            if not core.close(r["mean"][i] / sc, Fraction(m["mean"]) / Fraction(sc)):
                ctx.fail("impl-vs-model-hln", "correspondence", "diebold_mariano", "mean-differs", describe(c), observed=r["mean"][i],
                         expected=m["mean"], tags={"series": i})
            if int(r["timeseries_len"][i]) != m["len"]:
                ctx.fail("impl-vs-model-hln", "correspondence", "diebold_mariano", "timeseries_len-differs", describe(c),
                         observed=r["timeseries_len"][i], expected=m["len"], tags={"series": i})
            vh = core.parse_fl(m["vhat"])
            exp = NAN if m["all_zero"] else stat_from(Fraction(m["mean"]), vh, Fraction(m["corr"]))
            if not core.close_ff(r["dm_test_stat"][i], exp, rtol=stat_rtol(Fraction(m["gamma0"]), Fraction(m["vhat_rat"]), m["len"], c["h"][i])):
                if rounding_sensitive(row, Fraction(m["vhat_rat"])):
                    ctx.tag("rounding-sensitive-skipped")
                else:
                    ctx.fail("impl-vs-model-hln", "correspondence", "_hln_method_stat", "statistic-differs", describe(c),
                             observed=r["dm_test_stat"][i], expected=exp, tags={"series": i})
            # sign / square view of the model agree with the implementation
            st = r["dm_test_stat"][i]
            if math.isfinite(st) and not m["all_zero"] and not math.isnan(exp):
                sq = core.parse_fl(m["stat_sq"])
                if not core.close(st * st, sq, rtol=2 * stat_rtol(Fraction(m["gamma0"]), Fraction(m["vhat_rat"]), m["len"], c["h"][i])) \
                        or (st > 0) - (st < 0) != m["sign"]:
                    ctx.fail("impl-vs-model-hln", "correspondence", "_hln_method_stat", "square-or-sign-differs", describe(c),
                             observed=st, expected=[m["stat_sq"], m["sign"]], tags={"series": i})
            # CI algebra of the model on the implementation's own statistic
            n = m["len"]
            q = quantile_for(c["dist"], c["cl"], n)
            ci_ops.append({"op": "c19.ci", "args": {"mean": core.fl_str(r["mean"][i]), "stat": core.fl_str(st), "q": core.fl_str(q)}})
            ci_meta.append((c, i, r))
    res = core.run_driver("C19", ci_ops)
    for (c, i, r), m in zip(ci_meta, res):
        ctx.case("ci-vs-model", {"case": describe(c), "series": i}, nontrivial=math.isfinite(r["ci_upper"][i]))
        sc = row_scale(c, i)
        for key, mk in (("ci_upper", "upper"), ("ci_lower", "lower")):
            mv = core.parse_fl(m[mk])
            if not core.close(r[key][i] / sc, mv / Fraction(sc) if isinstance(mv, Fraction) else mv, rtol=1e-8, atol=1e-10):
                ctx.fail("ci-vs-model", "correspondence", "diebold_mariano", key + "-differs", {"case": describe(c), "series": i},
                         observed=r[key][i], expected=m[mk], tags={"series": i})
    # acovf (FFT) vs the model's direct estimator
    from scores.stats.statistical_tests.acovf import acovf, _next_regular
    series = [gen_scaled_series(rng, rng.choice([1, 2, 3, 4, 5, 7, 8, 9, 16, 17, 31, 64])) for _ in range(ctx.n(150, 2000))]
    res = core.run_driver("C19", [{"op": "c19.acovf", "args": {"series": [core.fl_str(x) for x in s]}} for s, _ in series])
    for (s, e), m in zip(series, res):
        ctx.case("acovf-vs-model", {"series": s, "exp": e}, nontrivial=len(set(s)) > 1)
        with np.errstate(all="ignore"):
            got = [float(x) for x in acovf(np.array(s, dtype=float))]
        if acovf_differs(got, m, e):
            ctx.fail("acovf-vs-model", "correspondence", "acovf", "autocovariance-differs", {"series": s, "exp": e}, observed=got,
                     expected=m)
    # _next_regular exhaustively
    top = ctx.n(10 ** 4, 10 ** 5)
    m = core.run_driver("C19", [{"op": "c19.next_regular", "args": {"lo": 1, "hi": top}}])[0]
    ctx.exhaustive.append(f"_next_regular vs model for every target in [1, {top}]")
    bad = None
    for t in range(1, top + 1):
        if _next_regular(t) != m[t - 1]:
            bad = t
            break
    b = ctx.batches.setdefault("next_regular-vs-model", {"cases": 0, "failed": 0})
    b["cases"] += top
    ctx.evaluations += top
    if bad is not None:
        ctx.fail("next_regular-vs-model", "correspondence", "_next_regular", "value-differs", {"target": bad},
                 observed=_next_regular(bad), expected=m[bad - 1])


# ------------------------------------------------------------------------------------------------ the property itself
def smooth5(n):
    for p in (2, 3, 5):
        while n % p == 0:
            n //= p
    return n == 1


def rel_close(a, b, rtol):
    """truly relative comparison of two floats (NaN = NaN, inf = inf of the same sign)"""
    a, b = float(a), float(b)
    if math.isnan(a) or math.isnan(b):
        return math.isnan(a) and math.isnan(b)
    if math.isinf(a) or math.isinf(b):
        return a == b
    return abs(a - b) <= rtol * max(abs(a), abs(b))


def f32_rtol(gamma0, vhat, n, h):
    """float32 storage: the library does the HLN arithmetic in float32 (eps = 6e-8), same cancellation amplification"""
    num = abs(float(vhat)) * n * n
    amp = 0.0 if num == 0 else (2 * h - 1) * float(gamma0) / num
    return 1e-5 * (1.0 + amp)


HG_FIT_RTOL = 2e-3       # independent re-fit vs the implementation's fit: scipy's trf stops at ftol = 1e-8 on the cost; the
#                          statistics of two fits on autocovariances differing by 1e-16 (FFT vs exact) agree to 1e-7 typically,
#                          5e-5 at worst over 8 000 measured series (heavy tail: flat cost valleys) - hence the margin


def check_property(case, r, specs, rerun, hgp=None, hgl=None):
    """every clause of C19 on one call; returns list of (site, signature, observed, expected, tags).
    hgp: per series the (sigma, theta) captured from the implementation's own fit during the run that produced r;
    hgl: per series the Lean Spec evaluation (c19.hg) for those parameters (absent: the same formula in Python, fsum)"""
    bad = []
    method, dist, cl = case["method"], case["dist"], case["cl"]
    dt = case_dtype(case)
    f32 = dt == "float32"
    tags0 = {"method": method, "dist": dist}
    if dt != "float64":
        tags0["dtype"] = dt
    if case.get("tcoord"):
        tags0["tcoord"] = case["tcoord"]["kind"]
    if "err" in r:
        return [("diebold_mariano", "exception", r["err"] + ": " + r["msg"], "a Dataset", tags0)]
    k = len(case["rows"])
    rts = []                                  # per series: relative tolerance of the statistic (None = rounding-decided, skip)
    for i, (row, h) in enumerate(zip(case["rows"], case["h"])):
        tags = dict(tags0, series=i)
        v = [x for x in row if not math.isnan(x)]
        n = len(v)
        sc = row_scale(case, i)              # power of two: mean and limits are compared after exact division by it
        mean_exact = sum(Fraction(x) for x in v) / n / Fraction(sc)
        st = r["dm_test_stat"][i]
        # counts and mean
        if int(r["timeseries_len"][i]) != n:
            bad.append(("diebold_mariano", "timeseries_len-wrong", r["timeseries_len"][i], n, tags))
        if not core.close(r["mean"][i] / sc, mean_exact, rtol=1e-6 if f32 else 1e-9):
            bad.append(("diebold_mariano", "mean-wrong", r["mean"][i], float(mean_exact * Fraction(sc)), tags))
        allzero = all(x == 0 for x in v)
        if allzero and not math.isnan(st):
            bad.append(("diebold_mariano", "all-zero-series-not-nan", st, "nan", tags))
        rt = 1e-9
        if specs is not None and not allzero:
            sp = specs[i]
            vh = Fraction(sp["vhat"])
            g0 = Fraction(sp["acov"][0]) * n
            rt = f32_rtol(g0, vh, n, h) if f32 else stat_rtol(g0, vh, n, h)
            if rounding_sensitive(row, vh) or (f32 and rt > 1e-2):
                rt = None
        elif f32:
            rt = 1e-5
        rts.append(rt if method == "HLN" else (1e-3 if f32 else 1e-9))
        # the published HLN estimator, on the VALUES of the series (whatever dtype stores them)
        if method == "HLN" and specs is not None and not allzero and rt is not None:
            exp = stat_from(Fraction(sp["mean"]), vh if vh > 0 else NAN, Fraction(sp["factor"]))
            if not core.close_ff(st, exp, rtol=rt):
                bad.append(("_hln_method_stat", "not-the-published-estimator", st, exp, tags))
        # the Hering-Genton statistic from its definition
        if method == "HG" and not allzero:
            constant = len(set(v)) == 1
            par = hgp[i] if hgp and i < len(hgp) else None
            if par is not None:              # (A) given the implementation's own fitted (sigma, theta): all lags 0..n-1
                lm = hgl[i] if hgl and i < len(hgl) else None
                exp = hg_stat_from_spec(lm) if lm is not None else hg_stat_from_params(v, par[0], par[1])
                if not rel_close(st, exp, 1e-5 if f32 else 1e-9):
                    bad.append(("_hg_method_stat", "hg-statistic-not-the-fitted-model-over-all-lags", st, exp,
                                dict(tags, sigma=par[0], theta=par[1], lags=n)))
            if specs is not None and not constant and not f32 and n >= 4:
                # (B) independent least-squares fit on the exact autocovariances of the VALUES at the documented fitting lags.
                # The least-squares optimum is equivariant (series * c  =>  sigma * c, same theta) and the statistic invariant,
                # so the reference fit is made on the series divided (exactly) by its power-of-two magnitude 2^e.
                e = (case.get("exp") or [0] * k)[i]
                q4 = Fraction(4) ** e
                sg, th = hg_independent_fit([Fraction(x) / q4 for x in specs[i]["acov"]], n, h)
                exp = hg_stat_from_params([x / sc for x in v], sg, th)
                if not core.close_ff(st, exp, rtol=HG_FIT_RTOL, atol=1e-9):
                    if e == 0:
                        bad.append(("_hg_method_stat", "hg-statistic-differs-from-independent-fit", st, exp,
                                    dict(tags, sigma=sg, theta=th, lags=n, impl_params=par)))
                    else:
                        # REAL DEFECT of the unchanged code (notes/C19.md, "HG fit does not converge off unit magnitude"): scipy's
                        # fit from the fixed start (1, 1) stops early (absolute gtol) for small series and does not move at all
                        # (finite-difference Jacobian cancels to 0) for large ones.  Tagged distinctively, never loosened.
                        bad.append(("_hg_method_stat", "hg-fit-not-least-squares-off-unit-magnitude", st, exp,
                                    dict(tags, defect="HG-FIT-SCALE", off_unit_magnitude=True, magnitude="2^%d" % e, sigma_unit=sg, theta=th,
                                         lags=n, impl_params=par)))
        # confidence_gt_0 is the reference cdf at the statistic
        conf = r["confidence_gt_0"][i]
        expc = cdf_for(dist, st, n)
        if not core.close_ff(conf, expc, rtol=1e-7, atol=1e-9):
            bad.append(("diebold_mariano", "confidence-not-cdf-of-statistic", conf, expc, tags))
        # interval
        lo, up, mn = r["ci_lower"][i] / sc, r["ci_upper"][i] / sc, r["mean"][i] / sc
        if math.isfinite(st):
            q = quantile_for(dist, cl, n)
            if math.isnan(lo) or math.isnan(up):
                if st == 0:
                    bad.append(("diebold_mariano", "ci-nan-at-zero-statistic", [lo, up], "ci_lower <= mean <= ci_upper",
                                dict(tags, defect="F6", zero_mean=bool(mn == 0))))
                else:
                    bad.append(("diebold_mariano", "ci-nan-for-finite-statistic", [lo, up], "finite interval", tags))
            else:
                tol = 1e-9 * max(1.0, abs(mn), abs(lo) if math.isfinite(lo) else 1.0)
                if not (lo <= mn + tol and mn <= up + tol):
                    bad.append(("diebold_mariano", "ci-does-not-bracket-mean", [lo, mn, up], "ci_lower <= mean <= ci_upper", tags))
                if st != 0:
                    hw = q * abs(mn / st)
                    for name, got in (("upper", up - mn), ("lower", mn - lo)):
                        if not core.close_ff(got, hw, rtol=1e-7, atol=1e-9 * max(1.0, abs(mn))):
                            bad.append(("diebold_mariano", "ci-half-width-wrong", got, hw, dict(tags, side=name)))
                            break
    if rerun is None:
        return bad

    def same_outputs(ra, j, rb, i, sc, rt, exact):
        """outputs of series j of run ra vs series i of run rb (mean / limits relative to the magnitude sc)"""
        if exact:
            return all(core.close_ff(normed(ra, j, sc)[key], normed(rb, i, sc)[key], rtol=1e-12, atol=0) for key in rb)
        if rt is None:
            return True
        a, b = normed(ra, j, sc), normed(rb, i, sc)
        sa = max(1.0, abs(b["dm_test_stat"])) if math.isfinite(b["dm_test_stat"]) else 1.0
        return (core.close_ff(a["mean"], b["mean"], rtol=1e-6) and a["timeseries_len"] == b["timeseries_len"]
                and core.close_ff(a["dm_test_stat"], b["dm_test_stat"], rtol=10 * rt)
                and core.close_ff(a["confidence_gt_0"], b["confidence_gt_0"], rtol=0, atol=10 * rt * sa + 1e-9)
                and core.close_ff(a["ci_upper"], b["ci_upper"], rtol=1e-5 + 20 * rt * sa, atol=1e-9)
                and core.close_ff(a["ci_lower"], b["ci_lower"], rtol=1e-5 + 20 * rt * sa, atol=1e-9))

    # sign symmetry (both methods): negating every series negates the statistic, complements the confidence
    neg = dict(case, rows=[[(-x if not math.isnan(x) else x) + 0.0 for x in row] for row in case["rows"]])
    rn = rerun(neg) if fits(neg["rows"], dt) else None       # unsigned / bool storage cannot hold the negated VALUES: skipped
    if rn is None:
        pass
    elif "err" in rn:
        bad.append(("diebold_mariano", "exception-on-negated-series", rn["err"], "a Dataset", tags0))
    else:
        for i in range(k):
            a, b = r["dm_test_stat"][i], rn["dm_test_stat"][i]
            if not core.close_ff(b, -a, rtol=1e-9, atol=1e-12):
                bad.append(("diebold_mariano", "statistic-not-negated-by-negation", b, -a, dict(tags0, series=i)))
                break
            ca, cb = r["confidence_gt_0"][i], rn["confidence_gt_0"][i]
            if not core.close_ff(cb, 1 - ca, rtol=1e-9, atol=1e-12):
                bad.append(("diebold_mariano", "confidence-not-complemented-by-negation", cb, 1 - ca, dict(tags0, series=i)))
                break
            sc = row_scale(case, i)
            if not (core.close_ff(rn["ci_lower"][i] / sc, -r["ci_upper"][i] / sc)
                    and core.close_ff(rn["ci_upper"][i] / sc, -r["ci_lower"][i] / sc)
                    and core.close_ff(rn["mean"][i] / sc, -r["mean"][i] / sc)):
                bad.append(("diebold_mariano", "interval-not-mirrored-by-negation", [rn["ci_lower"][i], rn["ci_upper"][i]],
                            [-r["ci_upper"][i], -r["ci_lower"][i]], dict(tags0, series=i)))
                break
    # positive rescaling leaves the HLN statistic unchanged
    if method == "HLN":
        for cfac in RESCALE_FACTORS:
            sc = dict(case, rows=[[x * cfac for x in row] for row in case["rows"]])
            if not fits(sc["rows"], dt):          # the rescaled VALUES do not exist in this storage dtype: factor skipped
                continue
            rs = rerun(sc)
            if "err" in rs:
                bad.append(("diebold_mariano", "exception-on-rescaled-series", rs["err"], "a Dataset", tags0))
                break
            hit = False
            for i in range(k):
                sp = specs[i] if specs else None
                if f32:
                    if rts[i] is None:
                        continue
                    rt = 4 * rts[i]
                else:
                    rt = 1e-9 if sp is None else 2 * stat_rtol(Fraction(sp["acov"][0]) * sp["len"], Fraction(sp["vhat"]), sp["len"], case["h"][i])
                if not core.close_ff(rs["dm_test_stat"][i], r["dm_test_stat"][i], rtol=rt, atol=1e-12):
                    if sp is not None and rounding_sensitive(case["rows"][i], Fraction(sp["vhat"])):
                        continue
                    bad.append(("_hln_method_stat", "statistic-changes-under-positive-rescaling", rs["dm_test_stat"][i],
                                r["dm_test_stat"][i], dict(tags0, series=i, factor=cfac)))
                    hit = True
                    break
            if hit:
                break
    # each series is handled independently (alone, other layout)
    for i in range(k):
        alone = dict(case, rows=[case["rows"][i]], h=[case["h"][i]], exp=[(case.get("exp") or [0] * k)[i]],
                     layout="ts-second" if case["layout"] == "ts-first" else "ts-first")
        ra = rerun(alone)
        sc = row_scale(case, i)
        if "err" in ra or not same_outputs(ra, 0, r, i, sc, rts[i], exact=not f32):
            bad.append(("diebold_mariano", "series-not-independent", {key: ra.get(key) for key in r} if "err" not in ra else ra["err"],
                        {key: r[key][i] for key in r}, dict(tags0, series=i)))
            break
    # the labels along the time axis are immaterial: the same VALUES in the same stored order under the plain labels 0 .. n-1
    # give the same outputs (both methods; the statistics are those of the series in the order supplied)
    if case.get("tcoord"):
        rp = rerun({key: val for key, val in case.items() if key != "tcoord"})
        for i in range(k):
            if "err" in rp or not all(core.close_ff(r[key][i], rp[key][i], rtol=1e-12, atol=0) for key in r):
                bad.append(("diebold_mariano", "outputs-depend-on-time-labels", {key: r[key][i] for key in r},
                            {key: rp[key][i] for key in r} if "err" not in rp else rp["err"], dict(tags0, series=i)))
                break
    # the storage dtype is immaterial: the same VALUES held as float64 give the same outputs
    # (HG on float32 storage is not compared: the float32 autocovariances feed scipy's iterative fit, whose stopping point
    #  moves by percents under 1e-7 perturbations on series of large magnitude — rounding-decided, tagged by the oracle)
    if dt != "float64" and not (f32 and method == "HG"):
        rf = rerun(dict(case, dtype="float64"))
        for i in range(k):
            sc = row_scale(case, i)
            if "err" in rf or not same_outputs(r, i, rf, i, sc, rts[i], exact=not f32):
                bad.append(("diebold_mariano", "outputs-depend-on-storage-dtype", {key: r[key][i] for key in r},
                            {key: rf[key][i] for key in r} if "err" not in rf else rf["err"], dict(tags0, series=i)))
                break
    return bad


def report(ctx, batch, case, bad):
    for site, sig, obs_, exp, tags in bad:
        ctx.fail(batch, "property", site, sig, describe(case), observed=obs_, expected=exp, tags=tags)


def all_h_cases(rng, n):
    s, e = gen_scaled_series(rng, n)
    return [mk_case([s], [h], m, d, 0.9, exps=[e]) for h in range(1, n) for m, d in (("HLN", "normal"), ("HG", "t"))]


DTYPE_WITNESSES = [
    mk_case([[3, 1, 4, 1, 5, 9, 2, 6, 5, 3, 5, 9], [-2, 0, 1, -3, 2, 2, -1, 0, 4, -1, 1, 0]], [3, 2], "HLN", "normal", 0.9, dtype="int64"),
    mk_case([[1, 0, 0, 2, 1, 0, 3, 1, 0, 0, 1, 2], [5, -4, 3, 2, -1, 0, 2, 1, -3, 4, 1, 1]], [4, 2], "HLN", "t", 0.9, dtype="int32"),
    mk_case([[1, 0, 0, 1, 1, 0, 1, 1, 0, 0, 1, 1]], [2], "HLN", "normal", 0.95, dtype="bool"),
    mk_case([[1, 0, 0, 1, 1, 0, 1, 1, 0, 0, 1, 1]], [2], "HG", "normal", 0.95, dtype="int8"),
    mk_case([[0.5, 0.25, 1.5, 0.5, 2, 0.75, 0.5, 1]], [3], "HLN", "normal", 0.95, dtype="float32"),
]


_SMOOTH = [[0.5, 1, 1.75, 2.5, 3, 3, 2.25, 1.5, 1, 0, -0.5, -0.25],
           [2, 1.5, 1, 0.25, -0.5, -1, -1.5, -0.25, 0.5, 1.25, NAN, 2],
           [-1, -1.25, -0.75, 0.25, 0.75, 2, 2.5, 2.5, 1, 0.25, 0, -1]]
_DAY_FIRST = {"kind": "dayfirst-str", "type": "str",
              "labels": ["%02d-01-2021" % d for d in range(26, 32)] + ["%02d-02-2021" % d for d in range(1, 7)]}
_DAY_OF_YEAR = {"kind": "wrap-counter", "type": "int", "labels": list(range(360, 366)) + list(range(1, 7))}
_DESC = {"kind": "desc-int", "type": "int", "labels": list(range(11, -1, -1))}
_DT64 = {"kind": "datetime64-unordered", "type": "datetime64", "labels": ["2021-02-%02d" % d for d in range(12, 0, -1)]}
_DUP = {"kind": "duplicate", "type": "int", "labels": [5, 5, 4, 4, 3, 3, 2, 2, 1, 1, 0, 0]}
# strongly autocorrelated (smooth) series whose time labels are not ascending: the order of the VALUES is what counts
TCOORD_WITNESSES = [dict(mk_case(_SMOOTH, [2, 3, 4], m, "normal", 0.95, lay), tcoord=tc)
                    for tc in (_DAY_FIRST, _DAY_OF_YEAR, _DESC, _DT64, _DUP, {"kind": "none", "type": "none", "labels": []})
                    for m, lay in (("HLN", "ts-first"), ("HG", "ts-second"))]


def oracle(ctx, boost):
    rng = ctx.rng
    mult = 5 if boost else 1
    cases = [F6_WITNESS, mk_case([[1, -1, 2, -2, 0.5, -0.5]], [2], "HG", "t", 0.9),
             mk_case([[0, 0, 0, 0]], [1], "HLN"), mk_case([[2, 2, 2]], [1], "HLN")]
    cases += [gen_case(rng, "HLN", nmax=rng.choice([14, 30])) for _ in range(ctx.n(250, 4000) * mult)]
    cases += [gen_case(rng, "HG") for _ in range(ctx.n(70, 1200) * (2 if boost else 1))]
    for n in ((5, 8) if not ctx.thorough else (4, 6, 9, 13)):          # every h < length
        cases += all_h_cases(rng, n)
    # storage dtypes: integer-valued score differences held as int64 / int32 / int16 / int8 / uint8 / bool, dyadics as float32
    cases += DTYPE_WITNESSES
    cases += [gen_dtype_case(rng) for _ in range(ctx.n(130, 2000) * (2 if boost else 1))]
    for dt in ("int64", "int8"):                                          # every h < length on an integer-typed series
        lo, hi = DTYPE_RANGE[dt]
        n = 7 if not ctx.thorough else 11
        s = gen_int_series(rng, n, lo, hi)
        cases += [mk_case([s], [h], m, "normal", 0.9, dtype=dt) for h in range(1, n) for m in ("HLN", "HG")]
    # strongly autocorrelated / trending / long-memory series (HG definition over all lags)
    cases += [gen_long_case(rng) for _ in range(ctx.n(90, 1500) * (2 if boost else 1))]
    # the coordinate along the time axis: labels that are not ascending (descending, day-first date strings, wrapping counters,
    # duplicates, datetime64 out of order, no coordinate) on 40 % of the cases of every stream above, and on fixed smooth series
    cases = sprinkle_tcoord(rng, cases, 0.4) + TCOORD_WITNESSES
    ops = []
    for c in cases:
        ops += series_ops(c, "c19.spec")
    specs = core.run_driver("C19", ops)
    pos = 0
    runs, ops2, where = [], [], []
    for c in cases:
        sp = specs[pos:pos + len(c["rows"])]
        pos += len(c["rows"])
        hg = [] if c["method"] == "HG" else None
        r = run_impl(c, hg)
        runs.append((c, sp, r, hg, [None] * len(c["rows"])))
        o, idx = hg_ops(c, hg)
        ops2 += o
        where += [(len(runs) - 1, i) for i in idx]
    # the HG density over all lags for the implementation's own fitted parameters, evaluated by the Lean Spec (exact)
    for (ri, i), m in zip(where, core.run_driver("C19", ops2) if ops2 else []):
        runs[ri][4][i] = m
    for c, sp, r, hg, hgl in runs:
        tag_case(ctx, c)
        if hg is not None and "err" not in r:
            ctx.tag("hg-params:" + ("captured" if hg else "not-captured"))
            if case_dtype(c) == "float32":
                ctx.tag("rounding-sensitive-skipped:hg-float32-vs-float64")
        batch = "property-" + c["method"] + ("-dtype" if case_dtype(c) != "float64" else "-long-memory" if "kinds" in c else "")
        ctx.case(batch, describe(c), nontrivial="err" not in r and any(math.isfinite(x) for x in r["dm_test_stat"]))
        report(ctx, batch, c, check_property(c, r, sp, run_impl, hg, hgl))
    # acovf = direct biased estimator at every lag (Spec), FFT length is sound
    from scores.stats.statistical_tests.acovf import acovf, _next_regular
    series = [gen_scaled_series(rng, rng.choice([1, 2, 3, 5, 6, 8, 13, 32, 33, 50])) for _ in range(ctx.n(120, 1500) * mult)]
    res = core.run_driver("C19", [{"op": "c19.spec", "args": {"series": [core.fl_str(x) for x in s], "h": 1}} for s, _ in series])
    for (s, e), m in zip(series, res):
        ctx.case("acovf-vs-direct-estimator", {"series": s, "exp": e}, nontrivial=len(set(s)) > 1)
        with np.errstate(all="ignore"):
            got = [float(x) for x in acovf(np.array(s, dtype=float))]
        if acovf_differs(got, m["acov"], e):
            ctx.fail("acovf-vs-direct-estimator", "property", "acovf", "not-the-biased-estimator", {"series": s, "exp": e},
                     observed=got, expected=[float(Fraction(x)) for x in m["acov"]])
    top = ctx.n(10 ** 4, 10 ** 5)
    b = ctx.batches.setdefault("next_regular-is-regular-and-large-enough", {"cases": 0, "failed": 0})
    prev_reg = None
    regs = [t for t in range(1, 2 * top) if smooth5(t)]
    import bisect
    for t in range(1, top + 1):
        b["cases"] += 1
        v = _next_regular(t)
        exp = regs[bisect.bisect_left(regs, t)] if t > 6 else t
        if v != exp:
            ctx.fail("next_regular-is-regular-and-large-enough", "property", "_next_regular", "not-the-next-regular-number",
                     {"target": t}, observed=v, expected=exp)
            break
    ctx.evaluations += top


def replay(ctx, payload):
    case = payload["case"]
    if "target" in case:
        from scores.stats.statistical_tests.acovf import _next_regular
        t = case["target"]
        v = _next_regular(t)
        return v < t or not smooth5(v) if t > 6 else v != t
    if "rows" not in case:
        from scores.stats.statistical_tests.acovf import acovf
        s = case["series"]
        m = core.run_driver("C19", [{"op": "c19.spec", "args": {"series": [core.fl_str(x) for x in s], "h": 1}}])[0]
        with np.errstate(all="ignore"):
            got = [float(x) for x in acovf(np.array(s, dtype=float))]
        return acovf_differs(got, m["acov"], int(case.get("exp", 0)))
    case = dict(case, rows=[[float(x) for x in row] for row in case["rows"]])      # the stored form writes NaN as "nan"
    specs = core.run_driver("C19", series_ops(case, "c19.spec"))
    hg = [] if case["method"] == "HG" else None
    r = run_impl(case, hg)
    bad = check_property(case, r, specs, run_impl, hg, hg_spec_results(case, hg) if hg else None)
    sig = payload.get("signature")
    return any(b[1] == sig for b in bad) if sig else bool(bad)
