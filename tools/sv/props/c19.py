"""C19 — Diebold–Mariano statistics follow the published estimators and sign symmetry."""
from __future__ import annotations

import math
import statistics
import warnings
from fractions import Fraction

import numpy as np
import xarray as xr

from sv import core

PROPERTY = "C19"
GEN = []
PROPS = ["ScoresVerif/Props/C19.lean", "ScoresVerif/Props/C19NextRegular.lean"]
DRIVER_DEPS = ["ScoresVerif.Driver.C19"]
AUDIT_FILES = ["ScoresVerif/Model/DieboldMariano.lean", "ScoresVerif/Spec/DieboldMariano.lean",
               "ScoresVerif/Lemmas/DieboldMariano.lean", "ScoresVerif/Lemmas/C19NextRegular.lean",
               "ScoresVerif/Driver/C19.lean"]
LEVEL = "proof"
TRUSTED = ["sqrt is uninterpreted in the rational model (harness applies libm sqrt to the exact V_hat and factor)",
           "np.fft (acovf) is not modelled: acovf is compared with the direct biased estimator at every lag",
           "scipy.optimize.least_squares (HG fit) and scipy.stats.norm/t are not modelled: HG is checked through relations "
           "between implementation runs only; cdf/quantiles are recomputed with independent formulas (erfc, stdlib inv_cdf, "
           "regularised incomplete beta + bisection)"]
ASSUMPTIONS = ["series values are small dyadic rationals times a per-series power of two 2^e, -30 <= e <= 30 (exact in float64, so the "
               "exact-rational model applies at every magnitude), or NaN; quotients compared to 1e-9; mean and interval limits are "
               "compared after exact division by 2^e, i.e. relative to the magnitude of the series",
               "exact V_hat = 0 on a non-constant series is decided by float rounding in the implementation: skipped and tagged",
               "float rounding is not modelled"]
MANIFEST = dict(
    level="proof",
    text="Kernel-checked Lean theorems about a hand model of the HLN route of diebold_mariano_impl.py (NaN removal, mean, "
         "autocovariance sums, V_hat = (g0 + 2 sum_{k<h} g_k)/n^2 with <= 0 -> NaN, factor (n+1-2h+h(h-1)/n)/n, statistic through "
         "its square and sign, CI arithmetic mean*(1 -/+ q/statistic) in IEEE-like Fl, _next_regular): the model's mean / V_hat / "
         "autocovariances / factor equal the published Harvey-Leybourne-Newbold estimators written as index sums (Spec); negating a "
         "series keeps V_hat and statistic^2 and flips the sign; rescaling by c>0 keeps statistic^2 and sign (also stated over R with "
         "Real.sqrt: hlnReal(-d) = -hlnReal d, hlnReal(c d) = hlnReal d); the factor is positive for h<n; all-zero or V_hat<=0 gives "
         "NaN; for a finite non-zero statistic with the sign of the mean and q>=0 both limits are finite, ci_lower <= mean <= ci_upper "
         "and the half-width is q*|mean/statistic| (partial: known finding F6 excluded by statistic != 0, with a kernel-decided "
         "counterexample on the witness series); for every target >= 1 (no size bound) next_regular(target) is THE least number "
         "2^a 3^b 5^c that is >= target (smooth, >=, minimal; fixed points, idempotent, monotone, < 2*target), hence the FFT length "
         "next_regular(2n+1) is a regular number >= 2n-1 and no smaller regular length >= 2n+1 exists. Tied to the code by "
         "differential correspondence (HLN statistic, mean, length, CI on the implementation's own statistic, acovf vs the direct "
         "estimator at every lag, _next_regular exhaustively up to 1e4/1e5). The oracle checks the real diebold_mariano against the "
         "Spec, sign symmetry and series independence for both methods, scale invariance (HLN; factors down to 2^-30 and up to 2^30, "
         "series of magnitude 2^-30..2^30 throughout, mean / limits compared relative to that magnitude), confidence_gt_0 and the interval "
         "against independent cdf/quantile implementations, and _next_regular against the true next 5-smooth number.",
    note="Trusted: Lean kernel; propext/Classical.choice/Quot.sound; the hand model and harness; libm sqrt (uninterpreted in the "
         "rational model). NOT modelled / not proved: the HG method (scipy least_squares fit of the exponential covariance model) — "
         "only sign symmetry, series independence and the cdf / CI algebra given its returned statistic are checked as relations "
         "between implementation runs; np.fft (acovf is compared numerically with the direct biased estimator); scipy.stats norm/t "
         "cdf and ppf (recomputed with erfc, stdlib inv_cdf, incomplete beta + bisection). Known finding F6 (notes/C19.md): a series "
         "with exactly zero mean has statistic 0 but NaN limits. Exact V_hat = 0 on a non-constant series is rounding-decided in the "
         "implementation and skipped (tagged). Error handling of malformed h / dims belongs to C20.",
    technique="Lean 4 theorems over a hand-written executable model + differential correspondence + relational oracle",
    design="6/C19")
RULE = ("1-4 series per call (rows of a 2-D DataArray, either dim order, fresh str dim names), length 2-40, dyadic values with ties, "
        "exact zero-mean / constant / all-zero series forced regularly, about half of the series multiplied by 2^e with e in [-30, 30] "
        "(extremes and |e| >= 14 favoured: V_hat from ~1e-18 to ~1e+20), NaN per slot, h uniform in [1, valid length); "
        "rescaling relation with factors 2, 3, 1/8, 2^-30, 2^30; acovf series likewise scaled; "
        "both methods, both reference distributions, 6 confidence levels; distinct = distinct canonical call; "
        "non-trivial = some series has a finite statistic")

NAN = float("nan")
CLS = [0.95, 0.9, 0.5, 0.99, 0.8, 0.6827]


# ------------------------------------------------------------------------------------------------ independent cdf / quantiles
def norm_cdf(x):
    return 0.5 * math.erfc(-x / math.sqrt(2.0))


def t_cdf(x, df):
    from scipy.special import betainc
    if math.isnan(x):
        return NAN
    if math.isinf(x):
        return 1.0 if x > 0 else 0.0
    tail = 0.5 * float(betainc(df / 2.0, 0.5, df / (df + x * x)))
    return 1.0 - tail if x >= 0 else tail


def t_ppf(p, df):
    lo, hi = 0.0, 1.0
    while t_cdf(hi, df) < p:
        hi *= 2.0
        if hi > 1e300:
            return math.inf
    for _ in range(200):
        mid = (lo + hi) / 2
        if t_cdf(mid, df) < p:
            lo = mid
        else:
            hi = mid
    return (lo + hi) / 2


def quantile_for(dist, cl, n):
    p = 1 - (1 - cl) / 2
    if dist == "normal":
        return statistics.NormalDist().inv_cdf(p)
    return t_ppf(p, n - 1)


def cdf_for(dist, x, n):
    if math.isnan(x):
        return NAN
    return norm_cdf(x) if dist == "normal" else t_cdf(x, n - 1)


# ------------------------------------------------------------------------------------------------ cases
def mk_case(rows, hs, method="HLN", dist="normal", cl=0.95, layout="ts-first", exps=None):
    """exps[i] = e: row i has already been multiplied by 2^e (exact); used only to compare mean / interval relative to the
    magnitude of the series"""
    return {"rows": [[float(x) for x in r] for r in rows], "h": [int(h) for h in hs], "method": method, "dist": dist,
            "cl": float(cl), "layout": layout, "exp": [int(e) for e in (exps if exps is not None else [0] * len(rows))]}


SCALE_EXPS = [-30, -30, -29, -27, -24, -20, -17, -14, -13, -10, -7, -3, 3, 8, 14, 21, 27, 30, 30]
RESCALE_FACTORS = (2.0, 3.0, 0.125, 2.0 ** -30, 2.0 ** 30)


def gen_exp(rng):
    """power-of-two magnitude of a series: 2^e * dyadic is exact in float64 and so are all sums / products of the HLN route"""
    u = rng.random()
    if u < 0.5:
        return 0
    if u < 0.85:
        return rng.choice(SCALE_EXPS)
    return rng.randint(-30, 30)


def row_scale(case, i):
    e = case.get("exp")
    return 2.0 ** (e[i] if e else 0)


def normed(r, i, s):
    """outputs of series i with mean / limits divided (exactly) by the power-of-two magnitude s of the series"""
    return {key: (r[key][i] / s if key in ("mean", "ci_upper", "ci_lower") else r[key][i]) for key in r}


F6_WITNESS = mk_case([[1, -1, 2, -2]], [1], "HLN", "normal", 0.95)


def gen_series(rng, n):
    kind = rng.random()
    den = rng.choice([1, 1, 2, 4])
    if kind < 0.08:
        s = [0.0] * n
    elif kind < 0.16:
        c = rng.randint(-8, 8) / den
        s = [c] * n
    elif kind < 0.36:                       # exact zero mean: symmetric multiset, shuffled
        half = [rng.randint(1, 12) / den for _ in range(n // 2)]
        s = half + [-x for x in half] + ([0.0] if n % 2 else [])
        rng.shuffle(s)
    else:
        pool = [rng.randint(-12, 12) / den for _ in range(rng.randint(2, 6))]
        s = [rng.choice(pool) if rng.random() < 0.5 else rng.randint(-16, 16) / den for _ in range(n)]
    return s


def gen_case(rng, method=None, nmax=14):
    k = rng.choice([1, 1, 2, 3, 4])
    n = rng.choice([2, 3, 3, 4, 5, 6, 7, 8, 10, 12, nmax])
    rows, hs, exps = [], [], []
    for _ in range(k):
        s = gen_series(rng, n)
        e = gen_exp(rng)
        exps.append(e)
        s = [x * 2.0 ** e for x in s]
        pn = rng.choice([0, 0, 0.15, 0.3])
        valid = n
        for i in range(n):
            if rng.random() < pn and valid > 2:
                s[i] = NAN
                valid -= 1
        rows.append(s)
        hs.append(rng.randint(1, valid - 1))
    return mk_case(rows, hs, method or rng.choice(["HLN", "HLN", "HG"]), rng.choice(["normal", "t"]), rng.choice(CLS),
                   rng.choice(["ts-first", "ts-second"]), exps)


def run_impl(case):
    from scores.stats.statistical_tests import diebold_mariano
    rows = np.array(case["rows"], dtype=float)
    ts = "".join(["se", "ries"])
    ot = "".join(["ti", "me"])
    hc = "".join(["h", "_"])
    k, n = rows.shape
    if case["layout"] == "ts-first":
        da = xr.DataArray(rows, dims=[ts, ot], coords={ts: list(range(100, 100 + k)), ot: list(range(n)), hc: (ts, case["h"])})
    else:
        da = xr.DataArray(rows.T.copy(), dims=[ot, ts], coords={ts: list(range(100, 100 + k)), ot: list(range(n)), hc: (ts, case["h"])})
    with warnings.catch_warnings():
        warnings.simplefilter("ignore")
        with np.errstate(all="ignore"):
            try:
                r = diebold_mariano(da, "".join(["se", "ries"]), "".join(["h", "_"]), method=case["method"],
                                    confidence_level=case["cl"], statistic_distribution=case["dist"])
            except Exception as ex:  # noqa: BLE001
                return {"err": core.exc_class(ex), "msg": str(ex)[:200]}
    return {v: [float(x) for x in np.asarray(r[v].values).ravel()] for v in
            ("mean", "dm_test_stat", "timeseries_len", "confidence_gt_0", "ci_upper", "ci_lower")}


def describe(case):
    return dict(case)


def series_ops(case, op):
    return [{"op": op, "args": {"series": [core.fl_str(x) for x in row], "h": h}} for row, h in zip(case["rows"], case["h"])]


def stat_from(mean, vhat, corr):
    """the documented HLN formula with libm sqrt on exact rational ingredients"""
    if isinstance(vhat, float) and math.isnan(vhat):
        return NAN
    if vhat <= 0:
        return NAN
    return math.sqrt(float(corr)) * (float(mean) / math.sqrt(float(vhat)))


def stat_rtol(gamma0, vhat, n, h):
    """relative tolerance for the statistic: 1e-9, widened when V_hat is the result of heavy cancellation
    (|gamma_k| <= gamma_0, so the float error of the numerator is <= ~n*eps*(2h-1)*gamma_0)"""
    num = abs(float(vhat)) * n * n
    if num == 0:
        return 1e-9
    amp = (2 * h - 1) * float(gamma0) / num
    return 1e-9 + 1e-13 * amp


def tag_case(ctx, case, r=None):
    ctx.tag("method:" + case["method"])
    ctx.tag("dist:" + case["dist"])
    ctx.tag("series:%d" % len(case["rows"]))
    for i, row in enumerate(case["rows"]):
        v = [x for x in row if not math.isnan(x)]
        e = (case.get("exp") or [0] * len(case["rows"]))[i]
        ctx.tag("magnitude:" + ("2^0" if e == 0 else "2^-30..-14" if e <= -14 else "2^-13..-1" if e < 0 else "2^1..13" if e < 14
                                else "2^14..30"))
        if len(v) < len(row):
            ctx.tag("series-with-nan")
        if all(x == 0 for x in v):
            ctx.tag("all-zero-series")
        elif sum(Fraction(x) for x in v) == 0:
            ctx.tag("zero-mean-series")
        elif len(set(v)) == 1:
            ctx.tag("constant-series")


def rounding_sensitive(row, spec_vhat):
    """exact V_hat == 0 on a non-constant series: the implementation's float value is +-1e-17, decided by rounding"""
    v = [x for x in row if not math.isnan(x)]
    return spec_vhat == 0 and len(set(v)) > 1


def gen_scaled_series(rng, n):
    e = gen_exp(rng)
    return [x * 2.0 ** e for x in gen_series(rng, n)], e


def acovf_differs(got, exact, e):
    """acovf output vs exact autocovariances (protocol strings) of a series of magnitude 2^e: compared after exact division
    by 4^e, so the 1e-9 tolerance is relative to the magnitude of the series"""
    q = Fraction(4) ** e
    exp = [float(Fraction(x) / q) for x in exact]
    scale = max(1.0, abs(exp[0]) if exp else 1.0)
    return len(got) != len(exp) or any(not abs(g / float(q) - x) <= 1e-9 * scale for g, x in zip(got, exp))


# ------------------------------------------------------------------------------------------------ correspondence
def correspondence(ctx):
    rng = ctx.rng
    cases = [F6_WITNESS] + [gen_case(rng, "HLN", nmax=rng.choice([14, 25, 40])) for _ in range(ctx.n(400, 6000))]
    ops, idx = [], []
    for ci, c in enumerate(cases):
        o = series_ops(c, "c19.hln")
        ops += o
        idx += [ci] * len(o)
    model = core.run_driver("C19", ops)
    ci_ops, ci_meta = [], []
    pos = 0
    for c in cases:
        r = run_impl(c)
        tag_case(ctx, c)
        ms = model[pos:pos + len(c["rows"])]
        pos += len(c["rows"])
        ctx.case("impl-vs-model-hln", describe(c), nontrivial="err" not in r and any(math.isfinite(x) for x in r["dm_test_stat"]))
        if "err" in r:
            ctx.fail("impl-vs-model-hln", "correspondence", "diebold_mariano", "exception", describe(c), observed=r["err"] + r["msg"],
                     expected="a Dataset", tags={"method": c["method"]})
            continue
        for i, (row, m) in enumerate(zip(c["rows"], ms)):
            sc = row_scale(c, i)
            if not core.close(r["mean"][i] / sc, Fraction(m["mean"]) / Fraction(sc)):
                ctx.fail("impl-vs-model-hln", "correspondence", "diebold_mariano", "mean-differs", describe(c), observed=r["mean"][i],
                         expected=m["mean"], tags={"series": i})
            if int(r["timeseries_len"][i]) != m["len"]:
                ctx.fail("impl-vs-model-hln", "correspondence", "diebold_mariano", "timeseries_len-differs", describe(c),
                         observed=r["timeseries_len"][i], expected=m["len"], tags={"series": i})
            vh = core.parse_fl(m["vhat"])
            exp = NAN if m["all_zero"] else stat_from(Fraction(m["mean"]), vh, Fraction(m["corr"]))
            if not core.close_ff(r["dm_test_stat"][i], exp, rtol=stat_rtol(Fraction(m["gamma0"]), Fraction(m["vhat_rat"]), m["len"], c["h"][i])):
                if rounding_sensitive(row, Fraction(m["vhat_rat"])):
                    ctx.tag("rounding-sensitive-skipped")
                else:
                    ctx.fail("impl-vs-model-hln", "correspondence", "_hln_method_stat", "statistic-differs", describe(c),
                             observed=r["dm_test_stat"][i], expected=exp, tags={"series": i})
            # sign / square view of the model agree with the implementation
            st = r["dm_test_stat"][i]
            if math.isfinite(st) and not m["all_zero"] and not math.isnan(exp):
                sq = core.parse_fl(m["stat_sq"])
                if not core.close(st * st, sq, rtol=2 * stat_rtol(Fraction(m["gamma0"]), Fraction(m["vhat_rat"]), m["len"], c["h"][i])) \
                        or (st > 0) - (st < 0) != m["sign"]:
                    ctx.fail("impl-vs-model-hln", "correspondence", "_hln_method_stat", "square-or-sign-differs", describe(c),
                             observed=st, expected=[m["stat_sq"], m["sign"]], tags={"series": i})
            # CI algebra of the model on the implementation's own statistic
            n = m["len"]
            q = quantile_for(c["dist"], c["cl"], n)
            ci_ops.append({"op": "c19.ci", "args": {"mean": core.fl_str(r["mean"][i]), "stat": core.fl_str(st), "q": core.fl_str(q)}})
            ci_meta.append((c, i, r))
    res = core.run_driver("C19", ci_ops)
    for (c, i, r), m in zip(ci_meta, res):
        ctx.case("ci-vs-model", {"case": describe(c), "series": i}, nontrivial=math.isfinite(r["ci_upper"][i]))
        sc = row_scale(c, i)
        for key, mk in (("ci_upper", "upper"), ("ci_lower", "lower")):
            mv = core.parse_fl(m[mk])
            if not core.close(r[key][i] / sc, mv / Fraction(sc) if isinstance(mv, Fraction) else mv, rtol=1e-8, atol=1e-10):
                ctx.fail("ci-vs-model", "correspondence", "diebold_mariano", key + "-differs", {"case": describe(c), "series": i},
                         observed=r[key][i], expected=m[mk], tags={"series": i})
    # acovf (FFT) vs the model's direct estimator
    from scores.stats.statistical_tests.acovf import acovf, _next_regular
    series = [gen_scaled_series(rng, rng.choice([1, 2, 3, 4, 5, 7, 8, 9, 16, 17, 31, 64])) for _ in range(ctx.n(150, 2000))]
    res = core.run_driver("C19", [{"op": "c19.acovf", "args": {"series": [core.fl_str(x) for x in s]}} for s, _ in series])
    for (s, e), m in zip(series, res):
        ctx.case("acovf-vs-model", {"series": s, "exp": e}, nontrivial=len(set(s)) > 1)
        with np.errstate(all="ignore"):
            got = [float(x) for x in acovf(np.array(s, dtype=float))]
        if acovf_differs(got, m, e):
            ctx.fail("acovf-vs-model", "correspondence", "acovf", "autocovariance-differs", {"series": s, "exp": e}, observed=got,
                     expected=m)
    # _next_regular exhaustively
    top = ctx.n(10 ** 4, 10 ** 5)
    m = core.run_driver("C19", [{"op": "c19.next_regular", "args": {"lo": 1, "hi": top}}])[0]
    ctx.exhaustive.append(f"_next_regular vs model for every target in [1, {top}]")
    bad = None
    for t in range(1, top + 1):
        if _next_regular(t) != m[t - 1]:
            bad = t
            break
    b = ctx.batches.setdefault("next_regular-vs-model", {"cases": 0, "failed": 0})
    b["cases"] += top
    ctx.evaluations += top
    if bad is not None:
        ctx.fail("next_regular-vs-model", "correspondence", "_next_regular", "value-differs", {"target": bad},
                 observed=_next_regular(bad), expected=m[bad - 1])


# ------------------------------------------------------------------------------------------------ the property itself
def smooth5(n):
    for p in (2, 3, 5):
        while n % p == 0:
            n //= p
    return n == 1


def check_property(case, r, specs, rerun):
    """every clause of C19 on one call; returns list of (site, signature, observed, expected, tags)"""
    bad = []
    method, dist, cl = case["method"], case["dist"], case["cl"]
    tags0 = {"method": method, "dist": dist}
    if "err" in r:
        return [("diebold_mariano", "exception", r["err"] + ": " + r["msg"], "a Dataset", tags0)]
    k = len(case["rows"])
    for i, (row, h) in enumerate(zip(case["rows"], case["h"])):
        tags = dict(tags0, series=i)
        v = [x for x in row if not math.isnan(x)]
        n = len(v)
        sc = row_scale(case, i)              # power of two: mean and limits are compared after exact division by it
        mean_exact = sum(Fraction(x) for x in v) / n / Fraction(sc)
        st = r["dm_test_stat"][i]
        # counts and mean
        if int(r["timeseries_len"][i]) != n:
            bad.append(("diebold_mariano", "timeseries_len-wrong", r["timeseries_len"][i], n, tags))
        if not core.close(r["mean"][i] / sc, mean_exact):
            bad.append(("diebold_mariano", "mean-wrong", r["mean"][i], float(mean_exact * Fraction(sc)), tags))
        allzero = all(x == 0 for x in v)
        if allzero and not math.isnan(st):
            bad.append(("diebold_mariano", "all-zero-series-not-nan", st, "nan", tags))
        # the published HLN estimator
        if method == "HLN" and specs is not None and not allzero:
            sp = specs[i]
            vh = Fraction(sp["vhat"])
            exp = stat_from(Fraction(sp["mean"]), vh if vh > 0 else NAN, Fraction(sp["factor"]))
            rt = stat_rtol(Fraction(sp["acov"][0]) * n, vh, n, h)
            if not core.close_ff(st, exp, rtol=rt) and not rounding_sensitive(row, vh):
                bad.append(("_hln_method_stat", "not-the-published-estimator", st, exp, tags))
        # confidence_gt_0 is the reference cdf at the statistic
        conf = r["confidence_gt_0"][i]
        expc = cdf_for(dist, st, n)
        if not core.close_ff(conf, expc, rtol=1e-7, atol=1e-9):
            bad.append(("diebold_mariano", "confidence-not-cdf-of-statistic", conf, expc, tags))
        # interval
        lo, up, mn = r["ci_lower"][i] / sc, r["ci_upper"][i] / sc, r["mean"][i] / sc
        if math.isfinite(st):
            q = quantile_for(dist, cl, n)
            if math.isnan(lo) or math.isnan(up):
                if st == 0:
                    bad.append(("diebold_mariano", "ci-nan-at-zero-statistic", [lo, up], "ci_lower <= mean <= ci_upper",
                                dict(tags, defect="F6", zero_mean=bool(mn == 0))))
                else:
                    bad.append(("diebold_mariano", "ci-nan-for-finite-statistic", [lo, up], "finite interval", tags))
            else:
                tol = 1e-9 * max(1.0, abs(mn), abs(lo) if math.isfinite(lo) else 1.0)
                if not (lo <= mn + tol and mn <= up + tol):
                    bad.append(("diebold_mariano", "ci-does-not-bracket-mean", [lo, mn, up], "ci_lower <= mean <= ci_upper", tags))
                if st != 0:
                    hw = q * abs(mn / st)
                    for name, got in (("upper", up - mn), ("lower", mn - lo)):
                        if not core.close_ff(got, hw, rtol=1e-7, atol=1e-9 * max(1.0, abs(mn))):
                            bad.append(("diebold_mariano", "ci-half-width-wrong", got, hw, dict(tags, side=name)))
                            break
    if rerun is None:
        return bad
    # sign symmetry (both methods): negating every series negates the statistic, complements the confidence
    neg = dict(case, rows=[[(-x if not math.isnan(x) else x) + 0.0 for x in row] for row in case["rows"]])
    rn = rerun(neg)
    if "err" in rn:
        bad.append(("diebold_mariano", "exception-on-negated-series", rn["err"], "a Dataset", tags0))
    else:
        for i in range(k):
            a, b = r["dm_test_stat"][i], rn["dm_test_stat"][i]
            if not core.close_ff(b, -a, rtol=1e-9, atol=1e-12):
                bad.append(("diebold_mariano", "statistic-not-negated-by-negation", b, -a, dict(tags0, series=i)))
                break
            ca, cb = r["confidence_gt_0"][i], rn["confidence_gt_0"][i]
            if not core.close_ff(cb, 1 - ca, rtol=1e-9, atol=1e-12):
                bad.append(("diebold_mariano", "confidence-not-complemented-by-negation", cb, 1 - ca, dict(tags0, series=i)))
                break
            sc = row_scale(case, i)
            if not (core.close_ff(rn["ci_lower"][i] / sc, -r["ci_upper"][i] / sc)
                    and core.close_ff(rn["ci_upper"][i] / sc, -r["ci_lower"][i] / sc)
                    and core.close_ff(rn["mean"][i] / sc, -r["mean"][i] / sc)):
                bad.append(("diebold_mariano", "interval-not-mirrored-by-negation", [rn["ci_lower"][i], rn["ci_upper"][i]],
                            [-r["ci_upper"][i], -r["ci_lower"][i]], dict(tags0, series=i)))
                break
    # positive rescaling leaves the HLN statistic unchanged
    if method == "HLN":
        for cfac in RESCALE_FACTORS:
            sc = dict(case, rows=[[x * cfac for x in row] for row in case["rows"]])
            rs = rerun(sc)
            if "err" in rs:
                bad.append(("diebold_mariano", "exception-on-rescaled-series", rs["err"], "a Dataset", tags0))
                break
            hit = False
            for i in range(k):
                sp = specs[i] if specs else None
                rt = 1e-9 if sp is None else 2 * stat_rtol(Fraction(sp["acov"][0]) * sp["len"], Fraction(sp["vhat"]), sp["len"], case["h"][i])
                if not core.close_ff(rs["dm_test_stat"][i], r["dm_test_stat"][i], rtol=rt, atol=1e-12):
                    if sp is not None and rounding_sensitive(case["rows"][i], Fraction(sp["vhat"])):
                        continue
                    bad.append(("_hln_method_stat", "statistic-changes-under-positive-rescaling", rs["dm_test_stat"][i],
                                r["dm_test_stat"][i], dict(tags0, series=i, factor=cfac)))
                    hit = True
                    break
            if hit:
                break
    # each series is handled independently (alone, other layout)
    if k > 1 or True:
        for i in range(k):
            alone = dict(case, rows=[case["rows"][i]], h=[case["h"][i]], exp=[(case.get("exp") or [0] * k)[i]],
                         layout="ts-second" if case["layout"] == "ts-first" else "ts-first")
            ra = rerun(alone)
            sc = row_scale(case, i)
            if "err" in ra or not all(core.close_ff(normed(ra, 0, sc)[key], normed(r, i, sc)[key], rtol=1e-12, atol=0) for key in r):
                bad.append(("diebold_mariano", "series-not-independent", {key: ra.get(key) for key in r} if "err" not in ra else ra["err"],
                            {key: r[key][i] for key in r}, dict(tags0, series=i)))
                break
    return bad


def report(ctx, batch, case, bad):
    for site, sig, obs_, exp, tags in bad:
        ctx.fail(batch, "property", site, sig, describe(case), observed=obs_, expected=exp, tags=tags)


def all_h_cases(rng, n):
    s, e = gen_scaled_series(rng, n)
    return [mk_case([s], [h], m, d, 0.9, exps=[e]) for h in range(1, n) for m, d in (("HLN", "normal"), ("HG", "t"))]


def oracle(ctx, boost):
    rng = ctx.rng
    mult = 5 if boost else 1
    cases = [F6_WITNESS, mk_case([[1, -1, 2, -2, 0.5, -0.5]], [2], "HG", "t", 0.9),
             mk_case([[0, 0, 0, 0]], [1], "HLN"), mk_case([[2, 2, 2]], [1], "HLN")]
    cases += [gen_case(rng, "HLN", nmax=rng.choice([14, 30])) for _ in range(ctx.n(250, 4000) * mult)]
    cases += [gen_case(rng, "HG") for _ in range(ctx.n(70, 1200) * (2 if boost else 1))]
    for n in ((5, 8) if not ctx.thorough else (4, 6, 9, 13)):          # every h < length
        cases += all_h_cases(rng, n)
    ops = []
    for c in cases:
        ops += series_ops(c, "c19.spec")
    specs = core.run_driver("C19", ops)
    pos = 0
    for c in cases:
        sp = specs[pos:pos + len(c["rows"])]
        pos += len(c["rows"])
        r = run_impl(c)
        tag_case(ctx, c)
        ctx.case("property-" + c["method"], describe(c), nontrivial="err" not in r and any(math.isfinite(x) for x in r["dm_test_stat"]))
        report(ctx, "property-" + c["method"], c, check_property(c, r, sp, run_impl))
    # acovf = direct biased estimator at every lag (Spec), FFT length is sound
    from scores.stats.statistical_tests.acovf import acovf, _next_regular
    series = [gen_scaled_series(rng, rng.choice([1, 2, 3, 5, 6, 8, 13, 32, 33, 50])) for _ in range(ctx.n(120, 1500) * mult)]
    res = core.run_driver("C19", [{"op": "c19.spec", "args": {"series": [core.fl_str(x) for x in s], "h": 1}} for s, _ in series])
    for (s, e), m in zip(series, res):
        ctx.case("acovf-vs-direct-estimator", {"series": s, "exp": e}, nontrivial=len(set(s)) > 1)
        with np.errstate(all="ignore"):
            got = [float(x) for x in acovf(np.array(s, dtype=float))]
        if acovf_differs(got, m["acov"], e):
            ctx.fail("acovf-vs-direct-estimator", "property", "acovf", "not-the-biased-estimator", {"series": s, "exp": e},
                     observed=got, expected=[float(Fraction(x)) for x in m["acov"]])
    top = ctx.n(10 ** 4, 10 ** 5)
    b = ctx.batches.setdefault("next_regular-is-regular-and-large-enough", {"cases": 0, "failed": 0})
    prev_reg = None
    regs = [t for t in range(1, 2 * top) if smooth5(t)]
    import bisect
    for t in range(1, top + 1):
        b["cases"] += 1
        v = _next_regular(t)
        exp = regs[bisect.bisect_left(regs, t)] if t > 6 else t
        if v != exp:
            ctx.fail("next_regular-is-regular-and-large-enough", "property", "_next_regular", "not-the-next-regular-number",
                     {"target": t}, observed=v, expected=exp)
            break
    ctx.evaluations += top


def replay(ctx, payload):
    case = payload["case"]
    if "target" in case:
        from scores.stats.statistical_tests.acovf import _next_regular
        t = case["target"]
        v = _next_regular(t)
        return v < t or not smooth5(v) if t > 6 else v != t
    if "rows" not in case:
        from scores.stats.statistical_tests.acovf import acovf
        s = case["series"]
        m = core.run_driver("C19", [{"op": "c19.spec", "args": {"series": [core.fl_str(x) for x in s], "h": 1}}])[0]
        with np.errstate(all="ignore"):
            got = [float(x) for x in acovf(np.array(s, dtype=float))]
        return acovf_differs(got, m["acov"], int(case.get("exp", 0)))
    specs = core.run_driver("C19", series_ops(case, "c19.spec"))
    bad = check_property(case, run_impl(case), specs, run_impl)
    sig = payload.get("signature")
    return any(b[1] == sig for b in bad) if sig else bool(bad)
