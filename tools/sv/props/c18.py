"""C18 — flip-flop index is total variation minus range: non-negative, shift-invariant."""
from __future__ import annotations

import itertools
import math
import warnings
from fractions import Fraction

import numpy as np
import xarray as xr

from sv import core

PROPERTY = "C18"
GEN = ["FlipFlop"]
PROPS = ["ScoresVerif/Props/C18.lean", "ScoresVerif/Props/C18Sector.lean", "ScoresVerif/Props/C18Inf.lean"]
AUDIT_FILES = ["ScoresVerif/Lemmas/FlipFlop.lean", "ScoresVerif/Lemmas/FlipFlopC18Base.lean", "ScoresVerif/Lemmas/FlipFlopC18Defs.lean",
               "ScoresVerif/Lemmas/FlipFlopC18Core.lean", "ScoresVerif/Lemmas/FlipFlopC18Model.lean",
               "ScoresVerif/Lemmas/FlipFlopC18Gap.lean", "ScoresVerif/Lemmas/FlipFlopC18Nan.lean", "ScoresVerif/Lemmas/FlipFlopC18Skipna.lean",
               "ScoresVerif/Lemmas/FlipFlopC18Mixed.lean", "ScoresVerif/Lemmas/FlipFlopC18Rotate.lean",
               "ScoresVerif/Lemmas/FlipFlopC18SkipnaNan.lean", "ScoresVerif/Lemmas/FlipFlopC18Inf.lean", "ScoresVerif/Model/FlipFlop.lean",
               "ScoresVerif/Spec/FlipFlop.lean", "ScoresVerif/Spec/FlipFlopC18Inf.lean"]
DRIVER_DEPS = ["ScoresVerif.Driver.C18"]
LEVEL = "proof"
TRUSTED = ["numpy sort / roll / argmax / mod and xarray shift / sum(skipna) / max(skipna=False) / sel / mean behave as modelled in "
           "Model/FlipFlop.lean — compared on every run (tie X)",
           "the model of `_encompassing_sector_size_np` equals the smallest covering arc = 360 - largest gap of the (non-NaN) directions, "
           "both skipna modes, NaN handling included: PROVED (Props/C18Sector.lean); model vs implementation still compared on every case"]
ASSUMPTIONS = ["sequence values are small dyadic numbers, angles lie on a 5 degree lattice (possibly rotated by a dyadic amount), so "
               "differences, % 360 and comparisons are exact in float64; quotients by N-2 are compared to 1e-9",
               "threshold ties in proportion-exceeding are only generated for N-2 a power of two (exact quotient)",
               "float rounding, overflow, signed zero and infinite DATA values are not modelled; infinite THRESHOLDS (-inf / +inf as "
               "open-ended bounds of proportion exceeding) are: model, spec (Spec.proportionExt) and theorems (Props/C18Inf.lean)",
               "storage dtypes (uint8-64, int8-64, float32) are compared by value: the model / spec are evaluated on the same numbers as "
               "exact rationals (they do not depend on the dtype); magnitudes <= 2**40; results computed in float32 (float32 and <= 16-bit "
               "integer storage) are compared to 1e-6; three dtype classes fail on the unchanged code and are known findings "
               "C18-INT1/2/3 (notes/C18.md)"]
MANIFEST = dict(
    level="proof",
    text="Kernel-checked Lean theorems, for sequences of any length >= 3, about a model of _flip_flop_index whose pointwise pieces "
         "(angular_difference, successive change, range, cap at 180, normalisation by N-2) are regenerated from the source on every "
         "run: on finite data the index equals (sum|x_{i+1}-x_i| - (max-min))/(N-2); it is >= 0; it is 0 exactly for monotone sequences "
         "(both directions of the equivalence); it is invariant under adding a constant, negation and reversal and scales with |c|; it is NaN iff the "
         "sequence contains a NaN; a selection gives the index of the selected sub-sequence normalised by its own length; "
         "proportion-exceeding is the fraction of valid indices >= t, also for the open-ended bounds t = -inf (1) and t = +inf (0), "
         "NaN only without a valid index; for directional data successive changes are circular "
         "differences, the range is the sector value capped at 180; the model of _encompassing_sector_size_np (sort, roll, folded "
         "differences, argmax, rotation, n_unique <= 2 branch) returns, for NaN-free directions of any length >= 1, the smallest covering "
         "arc = 360 - largest cyclic gap between distinct directions mod 360 (skipna=False: NaN as soon as one direction is NaN/inf; "
         "skipna=True: NaN directions ignored, all-NaN gives NaN), so the MODEL of the directional index equals the closed "
         "formula and is invariant under rotating all directions by any rational angle.  Tied to the code by the translator plus exhaustive/random correspondence "
         "(flip_flop_index, encompassing_sector_size with both skipna modes, selections, proportion exceeding with extra dims and "
         "reductions) and an exact-rational oracle incl. rotation by arbitrary dyadic angles.",
    note="'sector model = smallest covering arc = 360 - largest gap' is proved for both skipna modes incl. NaN handling (infinite inputs "
         "only for skipna=False); model, implementation and both spec definitions are additionally compared on all generated angle "
         "sets.  Trusted: Lean "
         "kernel; propext/Classical.choice/Quot.sound; py2lean + tools/gen/FlipFlop.py; SV.Fl; the hand model of numpy "
         "sort/roll/argmax/% and xarray shift/sum/max/sel/mean; tolerance 1e-9 on dyadic / 5-degree-lattice inputs.  Not modelled: "
         "infinite data values, float rounding, Dataset inputs of iter_selections.",
    technique="Lean 4 theorems over a hand model + translator-regenerated pointwise pieces; exhaustive small-pool differential "
              "correspondence; exact-rational oracle with relational laws",
    design="6/C18")
RULE = ("all sequences of length 3-5 over a 3-value pool, all angle tuples of size <= 3 (quick) / <= 4 (thorough) on a 45 degree "
        "lattice, random sequences of length 3-6 over small pools with ties / NaN / extra dims, angle sets on a 5 degree lattice "
        "beyond [0,360) with antipodal pairs, duplicates, equal and exactly-180 gaps, dyadic rotations; the same kinds of sequences "
        "stored as uint8/16/32/64, int8/16/32/64 (values at the dtype limits) and float32, 1-D and in arrays with selections / "
        "proportion exceeding; thresholds of proportion exceeding include -inf / +inf (40 % of the threshold lists, plus fixed "
        "cases around the documented example), and the discretisation stage alone (comparative_discretise all six modes / "
        "proportion_exceeding on finite-or-NaN values against thresholds with -inf / +inf); distinct = distinct "
        "canonical case; non-trivial = a finite result")


# ----------------------------------------------------------------------------- implementation calls
def impl_ffi(xs, angular, dtype="float64"):
    from scores.continuous import flip_flop_index
    with np.errstate(all="ignore"), warnings.catch_warnings():
        warnings.simplefilter("ignore")
        return float(flip_flop_index(xr.DataArray(np.array(xs, dtype=dtype), dims=["".join(["le", "ad"])]), "".join(["lea", "d"]),
                                     is_angular=angular))


def impl_sector(xs, skipna):
    from scores.continuous.flip_flop_impl import encompassing_sector_size
    da = xr.DataArray(np.array([xs, xs], dtype=float).T, dims=["s", "k"])
    with np.errstate(all="ignore"), warnings.catch_warnings():
        warnings.simplefilter("ignore")
        r = encompassing_sector_size(da, ["".join(["k"])], skipna=skipna)
    a = np.asarray(r.values, dtype=float)
    return float(a[0]), float(a[1])


def fls(xs):
    return [core.fl_str(float(x)) for x in xs]


def finite(xs):
    return all(math.isfinite(float(x)) for x in xs)


# ----------------------------------------------------------------------------- generators
LIN_POOLS = [[0.0, 1.0, 2.0], [-1.0, 0.0, 0.5, 2.0], [0.25, 0.5, 0.75, 3.0, -2.0], [-3.0, -1.5, 0.0, 1.5, 3.0, 4.0]]


def gen_linear(rng):
    n = rng.randint(3, 6)
    r = rng.random()
    pool = rng.choice(LIN_POOLS)
    if r < 0.15:
        xs = sorted(rng.choice(pool) for _ in range(n))
        if rng.random() < 0.5:
            xs = xs[::-1]
    elif r < 0.25:
        xs = [rng.choice(pool)] * n
    else:
        xs = [rng.choice(pool) for _ in range(n)]
    if rng.random() < 0.2:
        for _ in range(rng.randint(1, 2)):
            xs[rng.randrange(n)] = float("nan")
    return xs


def gen_angles(rng):
    n = rng.randint(3, 6)
    r = rng.random()
    base = 5.0 * rng.randint(-80, 150)
    if r < 0.15:        # antipodal pairs
        xs = [base, base + 180.0] + [rng.choice([base, base + 180.0, base + 5.0 * rng.randint(0, 71)]) for _ in range(n - 2)]
    elif r < 0.30:      # equal gaps
        k = rng.choice([2, 3, 4, 6])
        xs = [base + (360.0 / k) * rng.randrange(k) + 360.0 * rng.randint(-1, 1) for _ in range(n)]
    elif r < 0.40:      # exactly-180 span
        xs = [base + rng.choice([0.0, 180.0, 5.0 * rng.randint(0, 36)]) for _ in range(n)]
    elif r < 0.50:      # duplicates, one or two distinct
        a, b = base, base + 5.0 * rng.randint(0, 71)
        xs = [rng.choice([a, b, a + 360.0]) for _ in range(n)]
    elif r < 0.60:      # narrow cluster across the 0/360 seam
        xs = [355.0 + 5.0 * rng.randint(0, 4) + 360.0 * rng.randint(-1, 1) for _ in range(n)]
    else:
        xs = [5.0 * rng.randint(-80, 150) for _ in range(n)]
    rng.shuffle(xs)
    if rng.random() < 0.3:  # an arbitrary dyadic rotation
        c = rng.randint(-2000, 2000) / 8
        xs = [x + c for x in xs]
    if rng.random() < 0.15:
        xs[rng.randrange(n)] = float("nan")
    return xs


def exhaustive_linear(ctx):
    out = []
    for n in (3, 4, 5):
        for t in itertools.product([0.0, 1.0, 3.0], repeat=n):
            out.append(list(t))
    ctx.exhaustive.append(f"all sequences of length 3-5 over the pool (0, 1, 3): {len(out)}")
    return out


def exhaustive_angles(ctx):
    lat = [45.0 * k for k in range(8)]
    out = []
    for n in ((3, 4) if ctx.thorough else (3,)):
        for t in itertools.product(lat, repeat=n):
            out.append(list(t))
    ctx.exhaustive.append(f"all angle tuples of size {'3-4' if ctx.thorough else '3'} on the 45 degree lattice: {len(out)}")
    return out


# ----------------------------------------------------------------------------- storage dtypes
# The statement is about the NUMBERS of the sequence, whatever dtype they are stored in: the expected value of a typed case
# is the model / spec value of the same numbers as exact rationals.  Values sit at the limits of the dtype (0, 3, 250, 255
# for uint8) so that arithmetic carried out in the storage dtype (wrap-around of unsigned differences, overflow of a signed
# range) becomes visible.  Everything is kept below 2**40 in magnitude so sums stay exact in float64.
INT_DTYPES = ["uint8", "uint16", "uint32", "uint64", "int8", "int16", "int32", "int64"]
F32_RTOL = 1e-6      # float32 arithmetic: the final quotient by N-2 is rounded to float32
CAP = 2 ** 40


def dtype_pool(dt):
    ii = np.iinfo(dt)
    lo, hi = max(int(ii.min), -CAP), min(int(ii.max), CAP)
    mid = (lo + hi) // 2
    vals = {lo, lo + 1, lo + 3, lo + 6, hi, hi - 1, hi - 5, hi - 55, mid, mid + 1, mid - 2, 0, 1, 2, 3, 50, 100, 127}
    if lo < 0:
        vals |= {-1, -2, -100, -128}
    return sorted(v for v in vals if lo <= v <= hi)


def gen_typed_linear(rng):
    """(xs, dtype): integer sequences at the limits of an integer dtype, or dyadic / NaN sequences stored as float32"""
    if rng.random() < 0.12:
        return gen_linear(rng), "float32"
    dt = rng.choice(INT_DTYPES)
    full = dtype_pool(dt)
    if dt.startswith("int") and rng.random() < 0.8:
        # the spread stays within the dtype (the other 20 %: spread beyond the signed maximum, see notes/C18.md)
        c = rng.choice(full)
        half = int(np.iinfo(dt).max) // 2
        full = [v for v in full if abs(v - c) <= half] or [c]
    pool = rng.sample(full, min(len(full), rng.randint(2, 4)))
    n = rng.randint(3, 6)
    r = rng.random()
    if r < 0.15:
        xs = sorted(rng.choice(pool) for _ in range(n))
        if rng.random() < 0.5:
            xs = xs[::-1]
    elif r < 0.2:
        xs = [rng.choice(pool)] * n
    else:
        xs = [rng.choice(pool) for _ in range(n)]
    return xs, dt


def gen_typed_angles(rng):
    """(xs, dtype): whole-degree directions stored in an integer dtype, or lattice directions stored as float32"""
    if rng.random() < 0.2:
        return gen_angles(rng), "float32"
    r = rng.random()
    dt = rng.choice(["int16", "int32", "int64"]) if r < 0.8 else rng.choice(["uint16", "uint32", "uint64"]) if r < 0.92 \
        else rng.choice(["uint8", "int8"])
    xs = [x for x in gen_angles(rng) if not math.isnan(x)]
    xs = [int(math.floor(x)) for x in (xs + xs[:1])[: max(3, len(xs))]]
    if dt.startswith("uint"):
        xs = [x % 360 + 360 * rng.randint(0, 1) for x in xs]
    if dt == "uint8":
        xs = [x % 256 for x in xs]
    if dt == "int8":
        xs = [x % 256 - 128 for x in xs]
    return xs, dt


def wrap_signed(v, dt):
    b = 8 * np.dtype(dt).itemsize
    return (v + 2 ** (b - 1)) % 2 ** b - 2 ** (b - 1)


def dtype_finding(xs, dt, angular):
    """input classes on which the UNCHANGED code computes in the storage dtype and goes wrong (notes/C18.md); None otherwise"""
    # C18-INT1/2/3 are REPAIRED in /repo (fix: 5b88b8d, data promoted to float): nothing is excused any more, a
    # regression on integer storage is a plain VIOLATION.  (The classification below is kept for the record.)
    return None
    d = np.dtype(dt)
    if d.kind not in "iu":
        return None
    if angular:
        if d.itemsize == 1:
            return "C18-INT2"      # data % 360 raises OverflowError for 8-bit data
        return "C18-INT3" if d.kind == "u" else None      # unsigned differences wrap inside the sector routine
    if d.kind == "i" and max(xs) - min(xs) > int(np.iinfo(dt).max):
        return "C18-INT1"          # max - min overflows the signed dtype
    return None


def typed_tol(dt):
    # xarray's shift promotes integers of <= 16 bits to float32 (exact on these values; only the final quotient is rounded)
    return F32_RTOL if dt == "float32" or np.dtype(dt).itemsize <= 2 else 1e-9


def typed_case(xs, dt, angular):
    return {"xs": [core.fl_str(x) for x in xs], "angular": angular, "dtype": dt}


def typed_stream(ctx, k=1):
    rng = ctx.rng
    out = [([250, 3, 200], "uint8", False), ([50, 20, 40, 80], "uint16", False), ([0, 255, 0, 255], "uint8", False)]
    for _ in range(ctx.n(300, 3000) * k):
        out.append(gen_typed_linear(rng) + (False,))
    for _ in range(ctx.n(150, 1500) * k):
        out.append(gen_typed_angles(rng) + (True,))
    return out


def check_typed(ctx, cases, kind, batch):
    """kind='correspondence': implementation on typed storage vs the model of the same numbers;
    kind='property': vs the closed formula (spec), non-negativity, zero iff monotone, reversal, shift within the dtype."""
    fin = [(xs, dt, ang) for xs, dt, ang in cases if finite(xs)]
    if kind == "correspondence":
        res = core.run_driver("C18", [{"op": "c18.ffi", "args": {"xs": [core.fl_str(x) for x in xs], "angular": ang}} for xs, dt, ang in cases])
        exp = {(tuple(xs), ang): r for (xs, dt, ang), r in zip(cases, res) if finite(xs)}
    else:
        res = core.run_driver("C18", [{"op": "c18.spec", "args": {"xs": [core.fl_str(x) for x in xs]}} for xs, dt, ang in fin])
        exp = {(tuple(xs), ang): r["ffi_ang" if ang else "ffi"] for (xs, dt, ang), r in zip(fin, res)}
    for xs, dt, ang in cases:
        case = typed_case(xs, dt, ang)
        find = dtype_finding(xs, dt, ang) if finite(xs) else None
        tags = {"dtype": dt, "angular": ang}
        ctx.tag("typed-" + dt + ("-ang" if ang else "-lin") + ("-finding" if find else ""))
        try:
            v = impl_ffi(xs, ang, dt)
        except Exception as ex:
            ctx.case(batch, case, nontrivial=False)
            cls = core.exc_class(ex)
            if find == "C18-INT2" and cls == "Other:OverflowError":
                tags["defect"] = find
            ctx.fail(batch, kind, "flip_flop_index", "exception", case, observed=cls + ": " + str(ex)[:120], expected="a value", tags=tags)
            continue
        ctx.case(batch, case, nontrivial=math.isfinite(v))
        if not finite(xs):
            if not math.isnan(v):
                ctx.fail(batch, kind, "flip_flop_index", "nan-not-propagated", case, observed=v, expected="nan", tags=tags,
                         theorem="ffi_nan_iff")
            continue
        e = exp[(tuple(xs), ang)]
        tol = typed_tol(dt)
        if not core.close(v, e, rtol=tol):
            if find == "C18-INT3":
                tags["defect"] = find
            elif find == "C18-INT1":
                # exactly the value obtained when max - min is evaluated in the signed storage dtype
                tv = sum(abs(b - a) for a, b in zip(xs, xs[1:]))
                w = Fraction(tv - wrap_signed(max(xs) - min(xs), dt), len(xs) - 2)
                if core.close(v, w, rtol=tol):
                    tags["defect"] = find
            ctx.fail(batch, kind, "flip_flop_index", "value-differs-from-formula" if kind == "property" else "value", case,
                     observed=v, expected=e, tags=tags, theorem="ffi_angular_formula" if ang else "ffi_formula")
            continue
        if kind != "property" or find:
            continue
        if v < 0:
            ctx.fail(batch, kind, "flip_flop_index", "negative", case, observed=v, expected=">= 0", tags=tags, theorem="ffi_nonneg")
        if not ang and is_monotone(xs) != (v == 0.0):
            ctx.fail(batch, kind, "flip_flop_index", "zero-iff-monotone", case, observed=v,
                     expected="0" if is_monotone(xs) else "> 0", tags=tags, theorem="ffi_monotone_zero")
        rel = [("reverse", xs[::-1])]
        if np.dtype(dt).kind in "iu":
            ii = np.iinfo(dt)
            room = [s for s in (int(ii.min) - min(xs), int(ii.max) - max(xs), 1, -1, 7) if s and int(ii.min) <= min(xs) + s
                    and max(xs) + s <= int(ii.max) and abs(max(xs) + s) <= CAP and abs(min(xs) + s) <= CAP]
            if room:
                s = ctx.rng.choice(room)
                rel.append(("rotation" if ang else "shift", [x + s for x in xs]))
        for how, ys in rel:
            if dtype_finding(ys, dt, ang):
                continue
            v2 = impl_ffi(ys, ang, dt)
            if not core.close_ff(v2, v, rtol=tol):
                ctx.fail(batch, kind, "flip_flop_index", "not-invariant-under-" + how, case, observed={"value": v, how: v2, "ys": ys},
                         expected=v, tags=tags, theorem="ffiAng_rotation" if how == "rotation" else "ffi_" + how)


# ----------------------------------------------------------------------------- correspondence
def correspondence(ctx):
    rng = ctx.rng
    seqs = [(xs, False) for xs in exhaustive_linear(ctx)] + [(xs, True) for xs in exhaustive_angles(ctx)]
    for _ in range(ctx.n(400, 4000)):
        seqs.append((gen_linear(rng), False))
        seqs.append((gen_angles(rng), True))
    for n in (1, 2):       # degenerate lengths: division by N-2 <= 0 is IEEE arithmetic in the model as in the code
        for _ in range(6):
            seqs.append(([rng.choice([0.0, 1.0, 2.5]) for _ in range(n)], rng.random() < 0.5))
    ops = [{"op": "c18.ffi", "args": {"xs": fls(xs), "angular": ang}} for xs, ang in seqs]
    res = core.run_driver("C18", ops)
    for (xs, ang), m in zip(seqs, res):
        batch = "impl-vs-model-ffi"
        case = {"xs": fls(xs), "angular": ang}
        try:
            v = impl_ffi(xs, ang)
        except Exception as ex:
            ctx.case(batch, case, nontrivial=False)
            ctx.fail(batch, "correspondence", "flip_flop_index", "exception", case, observed=core.exc_class(ex), expected=m)
            continue
        ctx.case(batch, case, nontrivial=math.isfinite(v))
        ctx.tag(("angular" if ang else "linear") + ("-nan" if not finite(xs) else ""))
        if not core.close(v, m):
            ctx.fail(batch, "correspondence", "flip_flop_index", "value", case, observed=v, expected=m, tags={"angular": ang})
    # the sector routine, both skipna modes, through the public wrapper (2-D input, the column is duplicated)
    sec = [(xs, sk) for xs in exhaustive_angles(ctx)[:: (1 if ctx.thorough else 2)] for sk in (False,)]
    for _ in range(ctx.n(400, 4000)):
        xs = gen_angles(rng)
        if rng.random() < 0.3:
            for _ in range(rng.randint(1, 2)):
                xs[rng.randrange(len(xs))] = float("nan")
        if rng.random() < 0.05:
            xs = [float("nan")] * len(xs)
        if rng.random() < 0.1:
            xs = xs[: rng.randint(1, 2)]
        sec.append((xs, rng.random() < 0.5))
    res = core.run_driver("C18", [{"op": "c18.sector", "args": {"xs": fls(xs), "skipna": sk}} for xs, sk in sec])
    for (xs, sk), m in zip(sec, res):
        batch = "impl-vs-model-sector"
        case = {"xs": fls(xs), "skipna": sk}
        try:
            v, v2 = impl_sector(xs, sk)
        except Exception as ex:
            ctx.case(batch, case, nontrivial=False)
            ctx.fail(batch, "correspondence", "encompassing_sector_size", "exception", case, observed=core.exc_class(ex), expected=m)
            continue
        ctx.case(batch, case, nontrivial=math.isfinite(v))
        ctx.tag("sector-skipna" if sk else "sector-strict")
        if not core.close(v, m) or not core.close(v2, m):
            ctx.fail(batch, "correspondence", "encompassing_sector_size", "value", case, observed=[v, v2], expected=m, tags={"skipna": sk})
    # the same numbers stored in integer / float32 dtypes
    # (the input classes of the dtype findings of notes/C18.md are left to the property oracle: a correspondence failure
    # would only switch the oracle to its boosted budget on every run)
    check_typed(ctx, [t for t in typed_stream(ctx) if not (finite(t[0]) and dtype_finding(*t))], "correspondence", "impl-vs-model-dtypes")
    # arrays with extra dims, selections, proportion exceeding
    arr_cases = fixed_array_cases() + [gen_array_case(rng) for _ in range(ctx.n(120, 1200))]
    run_arrays(ctx, arr_cases, "impl-vs-model-arrays", "correspondence")
    # malformed: the sampling dim among the dims to preserve / reduce must raise (DimensionError is a ValueError)
    from scores.continuous import flip_flop_index_proportion_exceeding
    for kw in ({"preserve_dims": ["lead"]}, {"reduce_dims": ["lead"]}, {"preserve_dims": ["lead", "stn"]}):
        da = xr.DataArray(np.zeros((2, 3)), dims=["stn", "lead"], coords={"stn": [1, 2], "lead": [1, 2, 3]})
        ctx.case("malformed", {"kw": kw}, nontrivial=False)
        try:
            flip_flop_index_proportion_exceeding(da, "lead", [0.0], **kw)
            got = "value"
        except Exception as ex:
            got = core.exc_class(ex)
        if got != "ValueError":
            ctx.fail("malformed", "correspondence", "flip_flop_index_proportion_exceeding", "guard", {"kw": kw}, observed=got,
                     expected="ValueError")


# ----------------------------------------------------------------------------- arrays: extra dims, selections, proportion
INF = float("inf")


def with_infinite_bounds(rng, thresholds):
    """a sorted threshold list with -inf and / or +inf as open-ended bounds (sometimes nothing but the bounds)"""
    r = rng.random()
    lo, hi = r < 0.75, r < 0.5 or r >= 0.75      # both 50 %, only -inf 25 %, only +inf 25 %
    ts = ([-INF] if lo else []) + (list(thresholds) if rng.random() < 0.85 else []) + ([INF] if hi else [])
    return ts


def fixed_array_cases():
    """the documented example (indices 15, 40, 10), a NaN row and a monotone row (index 0), with the open-ended bounds
    -inf / +inf among the thresholds: no selections, selections, reductions over an extra dimension"""
    rows = [[50.0, 20.0, 40.0, 80.0], [10.0, 50.0, 10.0, 100.0], [0.0, 30.0, 20.0, 50.0], [5.0, float("nan"), 7.0, 9.0],
            [1.0, 2.0, 3.0, 4.0]]
    base = dict(angular=False, n=4, coords=[1, 2, 3, 4], dtype="float64")
    ts = [-INF, 0.0, 10.0, 15.0, 45.0, INF]
    out = [dict(base, extras=["stn"], sizes={"stn": 5}, order=["stn", "lead"], data=rows, kind="prop", sels={}, thresholds=ts, req=None),
           dict(base, extras=["stn"], sizes={"stn": 5}, order=["stn", "lead"], data=rows, kind="propsel",
                sels={"first3": [1, 2, 3], "all_days": [1, 2, 3, 4]}, thresholds=ts, req=None),
           dict(base, extras=["stn"], sizes={"stn": 5}, order=["stn", "lead"], data=rows, kind="prop", sels={}, thresholds=[-INF, INF],
                req=["preserve", ["stn"]]),
           dict(base, extras=["stn"], sizes={"stn": 5}, order=["lead", "stn"], data=np.array(rows).T.tolist(), kind="propsel",
                sels={"rev": [4, 3, 2, 1]}, thresholds=[-INF], req=["reduce", "all"]),
           dict(base, extras=[], sizes={}, order=["lead"], data=rows[0], kind="prop", sels={}, thresholds=[15.0, INF], req=None),
           dict(base, extras=[], sizes={}, order=["lead"], data=rows[3], kind="prop", sels={}, thresholds=[-INF, 0.0, INF], req=None),
           dict(base, extras=["stn"], sizes={"stn": 5}, order=["stn", "lead"], data=[[int(x) for x in r] for r in rows[:3] + rows[4:] + rows[:1]],
                kind="prop", sels={}, thresholds=ts, req=None, dtype="int64"),
           dict(base, angular=True, extras=["stn"], sizes={"stn": 3}, order=["stn", "lead"],
                data=[[350.0, 10.0, 350.0, 10.0], [0.0, 90.0, 180.0, 270.0], [10.0, 20.0, 30.0, 40.0]], kind="prop", sels={},
                thresholds=[-INF, 0.0, 10.0, 20.0, INF], req=None)]
    return out


def gen_array_case(rng):
    ang = rng.random() < 0.4
    n = rng.choice([3, 4, 4, 6, 5])
    extras = rng.sample(["stn", "run"], rng.randint(0, 2))
    sizes = {d: rng.randint(1, 3) for d in extras}
    nrows = int(np.prod([sizes[d] for d in extras])) if extras else 1
    rows = []
    for _ in range(nrows):
        xs = (gen_angles(rng) if ang else gen_linear(rng))
        xs = (xs + xs)[:n] if len(xs) < n else xs[:n]
        rows.append(xs)
    coords = rng.sample(range(1, 12), n)
    if rng.random() < 0.5:
        coords = sorted(coords)
    dims = extras + ["lead"]
    dtype = "float64"
    if rng.random() < 0.3:
        # typed storage; only classes free of the dtype findings of notes/C18.md (those are exercised by the 1-D typed stream)
        if ang:
            dtype = rng.choice(["int16", "int32", "int64", "float32"])
        else:
            dtype = rng.choice(["uint8", "uint8", "uint16", "uint32", "uint64", "int8", "int16", "int32", "int64", "float32"])
        if dtype != "float32":
            if ang:
                rows = [[int(math.floor(x)) for x in (([y for y in xs if not math.isnan(y)] or [0.0]) * n)[:n]] for xs in rows]
            else:
                full = dtype_pool(dtype)
                if dtype.startswith("int"):
                    c0 = rng.choice(full)
                    full = [v for v in full if abs(v - c0) <= int(np.iinfo(dtype).max) // 2]
                rows = [[rng.choice(pool) for _ in range(n)] for pool in
                        (rng.sample(full, min(len(full), rng.randint(2, 4))) for _ in range(nrows))]
    data = np.array(rows, dtype=dtype).reshape([sizes[d] for d in extras] + [n])
    order = dims[:]
    rng.shuffle(order)
    data = np.transpose(data, [dims.index(d) for d in order])
    kind = rng.choice(["plain", "sel", "sel", "prop", "prop", "propsel"])
    sels = {}
    if kind in ("sel", "propsel"):
        for name in rng.sample(["first3", "alt", "all_days", "rev"], rng.randint(1, 3)):
            k = rng.randint(3, n)
            vals = rng.sample(coords, k)
            if name == "all_days":
                vals = list(coords)
            if name == "rev":
                vals = list(reversed(coords))
            sels[name] = vals
        if rng.random() < 0.08:
            sels["missing"] = [coords[0], 99, coords[1]]
    thresholds = None
    req = None
    if kind in ("prop", "propsel"):
        pool = [0.0, 0.25, 0.5, 1.0, 2.0, 5.0, 45.0, 90.0] if (n - 2) in (1, 2, 4) else [0.1, 0.3, 0.7, 1.1, 2.3, 44.9]
        if dtype not in ("float64", "float32") and not ang:
            pool = pool + [100.1, 250.3, 65000.7, 1e9 + 0.3]
        thresholds = sorted(rng.sample(pool, rng.randint(1, 3)))
        if rng.random() < 0.4:
            # open-ended bounds: every valid index is >= -inf (proportion 1), none is >= +inf (proportion 0); NaN only
            # where there is no valid index at all
            thresholds = with_infinite_bounds(rng, thresholds)
        mode = rng.choice(["none", "reduce", "preserve", "reduce_all", "preserve_all"])
        if mode == "reduce":
            req = ["reduce", rng.sample(extras, rng.randint(0, len(extras)))]
        elif mode == "preserve":
            req = ["preserve", rng.sample(extras, rng.randint(0, len(extras)))]
        elif mode == "reduce_all":
            req = ["reduce", "all"]
        elif mode == "preserve_all":
            req = ["preserve", "all"]
    return dict(angular=ang, n=n, extras=extras, sizes=sizes, order=order, data=data.tolist(), coords=coords, kind=kind, sels=sels,
                thresholds=thresholds, req=req, dtype=dtype)


def _da(c):
    shape = [c["sizes"].get(d, c["n"]) for d in c["order"]]
    a = np.array(c["data"], dtype=c.get("dtype", "float64")).reshape(shape)
    return xr.DataArray(a, dims=list(c["order"]), coords={"lead": list(c["coords"])})


def rows_of(c):
    """{index over the extra dims (in c['extras'] order) -> sequence along the sampling dim}"""
    da = _da(c)
    out = {}
    for idx in itertools.product(*[range(c["sizes"][d]) for d in c["extras"]]):
        out[idx] = [float(x) for x in da.isel(dict(zip(c["extras"], idx))).values]
    return out


def reduce_set(c):
    ex = list(c["extras"])
    if c["req"] is None:
        return ex
    how, what = c["req"]
    if how == "reduce":
        return ex if what == "all" else [d for d in ex if d in what]
    return [] if what == "all" else [d for d in ex if d not in what]


def sub_sequence(coords, xs, vals):
    if any(v not in coords for v in vals):
        return None
    return [xs[coords.index(v)] for v in vals]


def run_arrays(ctx, cases, batch, kind):
    """kind='correspondence': compare with the model; kind='property': compare with the spec / relations"""
    from scores.continuous import flip_flop_index, flip_flop_index_proportion_exceeding
    ops = []
    plans = []
    for c in cases:
        rows = rows_of(c)
        variants = {"": None}
        if c["sels"]:
            variants = dict(c["sels"])
        plan = {"c": c, "rows": rows, "variants": {}}
        for name, vals in variants.items():
            vplan = {}
            for idx, xs in rows.items():
                sub = xs if vals is None else sub_sequence(c["coords"], xs, vals)
                if kind == "correspondence":
                    a = {"xs": fls(xs), "angular": c["angular"]}
                    if vals is not None:
                        a.update(coords=list(c["coords"]), sel=list(vals))
                    vplan[idx] = ("model", len(ops))
                    ops.append({"op": "c18.ffi", "args": a})
                else:
                    if sub is None:
                        vplan[idx] = ("keyerror", None)
                    elif finite(sub):
                        vplan[idx] = ("spec", len(ops))
                        ops.append({"op": "c18.spec", "args": {"xs": fls(sub)}})
                    else:
                        vplan[idx] = ("nan", None)
            plan["variants"][name] = vplan
        plans.append(plan)
    res = core.run_driver("C18", ops)
    # second pass for proportions (needs the per-row expected values)
    pops = []
    for plan in plans:
        c = plan["c"]
        plan["exp"] = {}
        for name, vplan in plan["variants"].items():
            e = {}
            for idx, (how, k) in vplan.items():
                if how == "model":
                    e[idx] = res[k]
                elif how == "spec":
                    e[idx] = res[k]["ffi_ang" if c["angular"] else "ffi"]
                elif how == "nan":
                    e[idx] = "nan"
                else:
                    e[idx] = {"err": "KeyError"}
            plan["exp"][name] = e
        if c["thresholds"] is not None:
            red = reduce_set(c)
            keep = [d for d in c["extras"] if d not in red]
            plan["keep"] = keep
            plan["pidx"] = {}
            for name, e in plan["exp"].items():
                if any(isinstance(v, dict) for v in e.values()):
                    continue
                for kidx in itertools.product(*[range(c["sizes"][d]) for d in keep]):
                    grp = [v for idx, v in e.items() if all(idx[c["extras"].index(d)] == i for d, i in zip(keep, kidx))]
                    plan["pidx"][(name, kidx)] = len(pops)
                    pops.append({"op": "c18.prop" if kind == "correspondence" else "c18.specprop",
                                 "args": {"ffis": grp, "thresholds": fls(c["thresholds"])}})
    pres = core.run_driver("C18", pops) if pops else []
    for plan in plans:
        c = plan["c"]
        cj = dict(c)
        ctx.case(batch, cj, nontrivial=True)
        ctx.tag("arr-" + c["kind"] + ("-ang" if c["angular"] else "-lin"))
        if c.get("dtype", "float64") != "float64":
            ctx.tag("arr-dtype-" + c["dtype"])
        if c["thresholds"] is not None and any(math.isinf(t) for t in c["thresholds"]):
            ctx.tag("arr-threshold-" + "".join(sorted({"-inf" if t < 0 else "+inf" for t in c["thresholds"] if math.isinf(t)})))
        da = _da(c)
        site = "flip_flop_index_proportion_exceeding" if c["thresholds"] is not None else "flip_flop_index"
        sels = {k: list(v) for k, v in c["sels"].items()}
        expect_err = any(isinstance(v, dict) for e in plan["exp"].values() for v in e.values())
        try:
            with np.errstate(all="ignore"), warnings.catch_warnings():
                warnings.simplefilter("ignore")
                if c["thresholds"] is None:
                    r = flip_flop_index(da, "".join(["le", "ad"]), is_angular=c["angular"], **sels)
                else:
                    kw = {}
                    if c["req"] is not None:
                        kw["reduce_dims" if c["req"][0] == "reduce" else "preserve_dims"] = c["req"][1]
                    r = flip_flop_index_proportion_exceeding(da, "".join(["le", "ad"]), list(c["thresholds"]), is_angular=c["angular"],
                                                             **kw, **sels)
        except Exception as ex:
            if not (expect_err and core.exc_class(ex) == "KeyError"):
                ctx.fail(batch, kind, site, "exception", cj, observed=core.exc_class(ex) + ": " + str(ex)[:200],
                         expected="KeyError" if expect_err else "a value")
            continue
        if expect_err:
            ctx.fail(batch, kind, site, "missing-selection-accepted", cj, observed="a value", expected="KeyError")
            continue
        bad = None
        for name in plan["exp"]:
            rv = r if name == "" else (r[name] if name in r else None)
            if rv is None:
                bad = (name, "missing variable", None, None)
                break
            if c["thresholds"] is None:
                if set(rv.dims) != set(c["extras"]):
                    bad = (name, "dims", list(rv.dims), c["extras"])
                    break
                rv = rv.transpose(*c["extras"])
                for idx, e in plan["exp"][name].items():
                    v = float(rv.values[idx]) if c["extras"] else float(rv.values)
                    if not core.close(v, e, rtol=typed_tol(c.get("dtype", "float64"))):
                        bad = (name, list(idx), v, e)
                        break
            else:
                keep = plan["keep"]
                if set(rv.dims) != set(keep) | {"threshold"}:
                    bad = (name, "dims", list(rv.dims), keep + ["threshold"])
                    break
                rv = rv.transpose(*keep, "threshold")
                for kidx in itertools.product(*[range(c["sizes"][d]) for d in keep]):
                    e = pres[plan["pidx"][(name, kidx)]]
                    v = np.asarray(rv.values[kidx], dtype=float).ravel()
                    if len(v) != len(e) or not all(core.close(a, b) for a, b in zip(v, e)):
                        bad = (name, list(kidx), v.tolist(), e)
                        break
            if bad:
                break
        if bad:
            ctx.fail(batch, kind, site, "value" if bad[1] != "dims" else "dims", cj, observed={"selection": bad[0], "at": bad[1], "value": bad[2]},
                     expected=bad[3], tags={"angular": c["angular"], "kind": c["kind"], "dtype": c.get("dtype", "float64")})


# ----------------------------------------------------------------------------- the property oracle
def is_monotone(xs):
    return all(a <= b for a, b in zip(xs, xs[1:])) or all(a >= b for a, b in zip(xs, xs[1:]))


def check_linear(ctx, seqs, batch="linear-vs-formula"):
    rng = ctx.rng
    fin = [xs for xs in seqs if finite(xs)]
    res = core.run_driver("C18", [{"op": "c18.spec", "args": {"xs": fls(xs)}} for xs in fin])
    spec = {tuple(xs): r for xs, r in zip(fin, res)}
    for xs in seqs:
        case = {"xs": fls(xs), "angular": False}
        try:
            v = impl_ffi(xs, False)
        except Exception as ex:
            ctx.case(batch, case, nontrivial=False)
            ctx.fail(batch, "property", "flip_flop_index", "exception", case, observed=core.exc_class(ex), expected="a value")
            continue
        ctx.case(batch, case, nontrivial=math.isfinite(v))
        if not finite(xs):
            ctx.tag("oracle-linear-nan")
            if not math.isnan(v):
                ctx.fail(batch, "property", "flip_flop_index", "nan-not-propagated", case, observed=v, expected="nan", theorem="ffi_nan_iff")
            continue
        ctx.tag("oracle-linear")
        e = spec[tuple(xs)]["ffi"]
        if not core.close(v, e):
            ctx.fail(batch, "property", "flip_flop_index", "value-differs-from-formula", case, observed=v, expected=e, theorem="ffi_formula")
            continue
        if v < 0:
            ctx.fail(batch, "property", "flip_flop_index", "negative", case, observed=v, expected=">= 0", theorem="ffi_nonneg")
        if is_monotone(xs) != (v == 0.0):
            ctx.fail(batch, "property", "flip_flop_index", "zero-iff-monotone", case, observed=v,
                     expected="0" if is_monotone(xs) else "> 0", theorem="ffi_monotone_zero")
        c = rng.choice([-2.0, -1.0, 0.5, 2.0, 3.0, 0.0, -0.25])
        s = rng.randint(-40, 40) / 4
        rel = [("shift", [x + s for x in xs], v), ("negate", [-x for x in xs], v), ("reverse", xs[::-1], v),
               ("scale", [c * x for x in xs], abs(c) * v)]
        for how, ys, exp in rel:
            v2 = impl_ffi(ys, False)
            if not core.close_ff(v2, exp):
                ctx.fail(batch, "property", "flip_flop_index", "not-invariant-under-" + how, case,
                         observed={"value": v, how: v2, "c": c, "s": s}, expected=exp, theorem="ffi_" + how)


def check_angular(ctx, seqs, batch="angular-vs-spec"):
    rng = ctx.rng
    fin = [xs for xs in seqs if finite(xs)]
    res = core.run_driver("C18", [{"op": "c18.spec", "args": {"xs": fls(xs)}} for xs in fin])
    spec = {tuple(xs): r for xs, r in zip(fin, res)}
    for xs in seqs:
        case = {"xs": fls(xs), "angular": True}
        try:
            v = impl_ffi(xs, True)
            sec, _ = impl_sector(xs, False)
        except Exception as ex:
            ctx.case(batch, case, nontrivial=False)
            ctx.fail(batch, "property", "flip_flop_index", "exception", case, observed=core.exc_class(ex), expected="a value")
            continue
        ctx.case(batch, case, nontrivial=math.isfinite(v))
        if not finite(xs):
            ctx.tag("oracle-angular-nan")
            if not (math.isnan(v) and math.isnan(sec)):
                ctx.fail(batch, "property", "flip_flop_index", "nan-not-propagated", case, observed=[v, sec], expected="nan")
            continue
        ctx.tag("oracle-angular")
        sp = spec[tuple(xs)]
        if sp["sector"] != sp["sector_gap"]:
            ctx.fail(batch, "property", "spec", "spec-definitions-disagree", case, observed=sp["sector"], expected=sp["sector_gap"])
            continue
        if not core.close(sec, sp["sector"]):
            ctx.fail(batch, "property", "encompassing_sector_size", "sector-differs-from-360-minus-max-gap", case, observed=sec,
                     expected=sp["sector"], theorem="sector_model_eq_spec_stmt")
            continue
        if not core.close(v, sp["ffi_ang"]):
            ctx.fail(batch, "property", "flip_flop_index", "value-differs-from-formula", case, observed=v, expected=sp["ffi_ang"],
                     theorem="ffi_angular_formula")
            continue
        c = rng.choice([rng.randint(-3000, 3000) / 8, 360.0, -720.0, 5.0 * rng.randint(-72, 72), 0.125])
        ys = [x + c for x in xs]
        v2 = impl_ffi(ys, True)
        s2, _ = impl_sector(ys, False)
        if not core.close_ff(v2, v) or not core.close_ff(s2, sec):
            ctx.fail(batch, "property", "flip_flop_index", "not-invariant-under-rotation", case,
                     observed={"value": v, "rotated": v2, "sector": sec, "sector_rotated": s2, "c": c}, expected="equal",
                     theorem="ffiAng_rotation")
        # skipna sector: NaNs ignored = the sector of the remaining directions
        if rng.random() < 0.3:
            k = rng.randrange(len(xs) + 1)
            zs = xs[:k] + [float("nan")] + xs[k:]
            s3, _ = impl_sector(zs, True)
            if not core.close(s3, sp["sector"]):
                ctx.fail(batch, "property", "encompassing_sector_size", "skipna-sector-differs", {"xs": fls(zs), "skipna": True},
                         observed=s3, expected=sp["sector"])


# the discretisation stage of proportion exceeding on its own: finite (or NaN) index values against thresholds that include the
# open-ended bounds -inf / +inf.  Expected values come from the exact numbers: NaN where the value is NaN, else 1 / 0 by the
# comparison in the extended reals (v >= -inf, v < +inf for every finite v); the proportion is the mean of the non-NaN flags.
DISC_MODES = {">=": lambda v, t: v >= t, ">": lambda v, t: v > t, "<=": lambda v, t: v <= t, "<": lambda v, t: v < t,
              "==": lambda v, t: v == t, "!=": lambda v, t: v != t}


def gen_disc_case(rng):
    n = rng.randint(1, 6)
    pool = rng.choice(LIN_POOLS) + [0.0, 15.0, 40.0]
    vals = [rng.choice(pool) for _ in range(n)]
    for i in range(n):
        if rng.random() < 0.2:
            vals[i] = float("nan")
    ts = with_infinite_bounds(rng, sorted(set(rng.choice(pool) for _ in range(rng.randint(0, 2)))))
    return {"disc": vals, "thresholds": ts, "mode": rng.choice([">=", ">=", ">=", ">", "<=", "<", "==", "!="]),
            "dtype": rng.choice(["float64", "float64", "float32"])}


def fixed_disc_cases():
    return [{"disc": [15.0, 40.0, 10.0, float("nan"), 0.0], "thresholds": [-INF, 0.0, 10.0, 15.0, 45.0, INF], "mode": m, "dtype": "float64"}
            for m in DISC_MODES] + [{"disc": [float("nan")], "thresholds": [-INF, INF], "mode": ">=", "dtype": "float64"},
                                    {"disc": [2.0], "thresholds": [INF], "mode": ">=", "dtype": "float32"}]


def check_discretise(ctx, cases, batch="discretise-infinite-thresholds"):
    from scores.processing import comparative_discretise, proportion_exceeding
    for c in cases:
        vals = [float(v) for v in c["disc"]]
        ts = [float(t) for t in c["thresholds"]]
        mode = c["mode"]
        ctx.case(batch, c, nontrivial=any(not math.isnan(v) for v in vals))
        ctx.tag("disc-" + mode)
        exp = [[float("nan") if math.isnan(v) else float(DISC_MODES[mode](v, t)) for t in ts] for v in vals]
        da = xr.DataArray(np.array(vals, dtype=c["dtype"]), dims=["stn"])
        thr = xr.DataArray(np.array(ts, dtype=float), dims=["threshold"], coords={"threshold": ts})
        try:
            with np.errstate(all="ignore"), warnings.catch_warnings():
                warnings.simplefilter("ignore")
                got = comparative_discretise(da, thr, mode).transpose("stn", "threshold").values.astype(float).tolist()
                prop = proportion_exceeding(da, list(ts)).values.astype(float).tolist() if mode == ">=" else None
        except Exception as ex:
            ctx.fail(batch, "property", "comparative_discretise", "exception", c, observed=core.exc_class(ex) + ": " + str(ex)[:160],
                     expected="a value")
            continue
        if not all(core.close_ff(a, b) for ra, rb in zip(got, exp) for a, b in zip(ra, rb)):
            ctx.fail(batch, "property", "comparative_discretise", "flag-differs-from-comparison", c, observed=fls2(got), expected=fls2(exp),
                     tags={"mode": mode})
            continue
        if prop is not None:
            valid = [v for v in vals if not math.isnan(v)]
            pe = [Fraction(sum(1 for v in valid if v >= t), len(valid)) if valid else "nan" for t in ts]
            if len(prop) != len(pe) or not all(core.close(a, b) for a, b in zip(prop, pe)):
                ctx.fail(batch, "property", "proportion_exceeding", "not-the-fraction-of-valid-values", c, observed=fls(prop),
                         expected=[str(x) for x in pe], tags={"mode": mode})


def fls2(rows):
    return [fls(r) for r in rows]


def oracle(ctx, boost):
    rng = ctx.rng
    k = 5 if boost else 1
    lin = exhaustive_linear(ctx) + [gen_linear(rng) for _ in range(ctx.n(500, 5000) * k)]
    check_linear(ctx, lin)
    ang = exhaustive_angles(ctx)
    if not ctx.thorough:
        ang = ang[::2]
    ang += [gen_angles(rng) for _ in range(ctx.n(500, 5000) * k)]
    check_angular(ctx, ang)
    check_typed(ctx, typed_stream(ctx, k), "property", "dtypes-vs-spec")
    run_arrays(ctx, fixed_array_cases() + [gen_array_case(rng) for _ in range(ctx.n(120, 1200) * k)], "arrays-vs-spec", "property")
    check_discretise(ctx, fixed_disc_cases() + [gen_disc_case(rng) for _ in range(ctx.n(150, 1500) * k)])


def replay(ctx, payload):
    case = payload["case"]
    sub = core.Ctx("C18", "quick", payload.get("seed", 0))
    if "disc" in case:
        check_discretise(sub, [case], "replay")
    elif "order" in case:
        if case.get("thresholds") is not None:      # the replay file stores non-finite numbers as strings ("-inf", "inf")
            case = dict(case, thresholds=[float(t) for t in case["thresholds"]])
        run_arrays(sub, [case], "replay", "property")
    elif "dtype" in case:
        dt = case["dtype"]
        xs = [float(core.parse_fl(x)) if isinstance(x, str) else x for x in case["xs"]]
        if np.dtype(dt).kind in "iu":
            xs = [int(x) for x in xs]
        for seed in range(6):
            sub.rng.seed(seed)
            check_typed(sub, [(xs, dt, bool(case.get("angular")))], "property", "replay")
    elif "xs" in case:
        xs = [float(core.parse_fl(x)) if isinstance(x, str) else float(x) for x in case["xs"]]
        for seed in range(6):
            sub.rng.seed(seed)
            if case.get("angular") or "skipna" in case:
                check_angular(sub, [[x for x in xs if not math.isnan(x)] if "skipna" in case else xs])
            else:
                check_linear(sub, [xs])
    fails = [f for f in sub.failures if f["kind"] == "property"]
    sig = payload.get("signature")
    return any(f["signature"] == sig for f in fails) if sig else bool(fails)
