"""C11 — Murphy scores match the elementary definition; murphy_thetas cover every kink."""
from __future__ import annotations

import math
import os
from fractions import Fraction

import numpy as np
import xarray as xr

from sv import core

PROPERTY = "C11"
GEN = ["Murphy"]
PROPS = ["ScoresVerif/Props/C11.lean", "ScoresVerif/Props/C11Bridge.lean", "ScoresVerif/Props/C11Taggart.lean"]
DRIVER_DEPS = ["ScoresVerif.Driver.C11"]
AUDIT_FILES = ["ScoresVerif/Lemmas/Bridge.lean", "ScoresVerif/Lemmas/Murphy.lean", "ScoresVerif/Spec/Murphy.lean", "ScoresVerif/Model/Murphy.lean"]
LEVEL = "proof"
TRUSTED = ["hand model of broadcast_and_match_nan / mean(skipna) / np.unique / np.concatenate in Model/Murphy.lean "
           "(tied by correspondence only)",
           "(no longer trusted) step sum / midpoint rule on a kink-complete grid = Mathlib's Lebesgue interval integral: proved in "
           "Lemmas/Bridge.lean and Props/C11Bridge.lean (integral_*_lebesgue, integral_over_thetas_*_lebesgue)"]
ASSUMPTIONS = ["finite forecasts and observations (an infinite forecast makes fcst*0.0 NaN: see notes/C11.md)",
               "murphy_thetas sources: any shapes / dims / coordinate label sets (labelled stream: stations a, lead times b, "
               "a member dim only a source has); every dim of obs that a source also has is matched by label",
               "dyadic inputs so float + - * and comparisons are exact; means compared to 1e-9 (2e-6 when an input is "
               "stored as float32: the implementation then averages in float32)",
               "stored dtype of fcst / obs / thetas is float64, float32, int64 or int32 (signed; no unsigned integers); an "
               "integer-dtype array holds whole numbers and no NaN; the model and the Spec see the same numbers (exact in SV.Fl)",
               "state stream: the caller changes its own numpy-backed arrays / lists between the calls; every call is checked "
               "against the kink set / Lean Spec scores and loss of the values at the time of THAT call (never an earlier result), "
               "and the calls must leave the caller's objects unchanged",
               "murphy_score value batches: equal coordinate label sets on fcst and obs (any stored order); differing label "
               "sets only through the labelled murphy_thetas stream (curve shape and integral = loss over the shared labels)"]
MANIFEST = dict(
    level="proof",
    text="Kernel-checked Lean theorems about the three elementary-score kernels and the combine block of murphy_score, "
         "regenerated from murphy_impl.py on every run: for all finite forecasts, observations, thetas, alpha and Huber "
         "parameter the total/underforecast/overforecast outputs equal the Ehm et al. / Taggart elementary scores (over-forecast "
         "part exactly on obs <= theta < fcst, under-forecast part on fcst <= theta < obs, never both, total = sum, zero outside "
         "the data range, NaN in any input gives NaN); the curve is constant (quantile) / affine (expectile, Huber) between "
         "kinks for single cases and sums over any number of cases; the model of murphy_thetas returns exactly the sorted kink "
         "set (forecast values of every source, left-limit points, obs, obs +- a) so the values at the thetas determine the "
         "curve; the mean over cases (skipna) is the mean elementary score over the cases with forecast and observation present; "
         "the integral over theta (step integral, and midpoint rule on any kink-complete grid, in particular on the thetas "
         "returned by murphy_thetas) is the pinball / half asymmetric squared / Huber loss.",
    note="Trusted: Lean kernel; py2lean translator; SV.Fl (IEEE minus rounding/overflow/signed zero); hand model of "
         "broadcast_and_match_nan, mean(skipna), np.unique/concatenate and the functional dispatch (tied by differential "
         "correspondence only); the step / midpoint-rule calculus is proved equal to Mathlib's Lebesgue interval integral (Props/C11Bridge.lean). "
         "Not proved in Lean: Taggart's closed form taggartH = elemH. Not generated: infinite forecasts (fcst*0.0 is NaN: the "
         "quantile/Huber score of an infinite forecast is 0, notes/C11.md N1). Sources of murphy_thetas with differing "
         "coordinate label sets / dims are generated (labelled stream): the Lean theorems kinks_subset_thetas_* / "
         "integral_over_thetas_* already quantify over ANY pairing of a value of a source with a value of obs, so they cover "
         "every label matching; which pairs murphy_score forms (shared labels, broadcast dims) is checked by the oracle only "
         "(integral of each source's curve = Spec loss over the pairs at the labels that source shares with obs).",
    technique="Lean 4 theorems over translator-regenerated kernels + hand model of the frame; differential correspondence; "
              "exact-rational Spec oracle and relational oracles (constancy/affinity between thetas, midpoint integral = loss)",
    design="6/C11")
RULE = ("2-D (a x b) forecast/obs arrays of dyadic values from a small pool (40-60 % of obs copied from fcst), NaN per slot, "
        "thetas drawn from the fcst/obs values, obs +- a, midpoints and NaN, as list / 1-D / 2-D DataArray, obs coordinates "
        "shuffled; ~55 % of cases store fcst / obs / sources / DataArray-thetas as int64, int32 or float32 (whole-number pool "
        "for integer dtypes), plus a per-functional stratum of all-integer / all-float32 sources with left_limit_delta > 0 for "
        "murphy_thetas, plus a labelled stream: 2-3 sources on stations x lead times (x member) whose label sets / dims "
        "differ (strict subset of obs or of another source, extra labels nobody else has, no label shared with obs, sources "
        "partitioning the stations, missing / extra / transposed dims, shuffled stored order), values mostly unique to their "
        "point, 30 % of obs copied from a source at the same labels; plus a STATE stream: sequences of 3-6 murphy_thetas / "
        "murphy_score calls in one process on the SAME list / DataArray / thetas objects with one caller action between two "
        "calls (sources.append / insert / pop / item assignment, obs.values[i, j] = v, da.loc[...] = v, da[dict(...)] = v, "
        "thetas[i] = v, thetas.append, other left_limit_delta / functional on the same objects, new objects of equal content, "
        "a new list holding the same arrays, an unrelated data set in between, no change), values mostly unique so a change "
        "moves the kink set; distinct = canonical input hash; non-trivial = some finite output and at least one theta inside a "
        "data range (state stream: an in-place change that changes the kink set)")

FUNCS = ["quantile", "huber", "expectile"]
FINDINGS = os.environ.get("C11_FINDINGS", "") == "1"


# ------------------------------------------------------------------------------------------ generators
INT_DT = ["int64", "int32"]
DTYPES = ["float64", "int64", "int32", "float32"]


def _draw_dtypes(rng, n):
    """stored dtypes of n arrays: all float64 (45 %), one other dtype for all of them (30 %), independent (25 %).
    The numbers are the same whatever the storage, so every check below is dtype-blind on the expected side."""
    r = rng.random()
    if r < 0.45:
        return ["float64"] * n
    if r < 0.75:
        return [rng.choice(["int64", "int32", "float32", "int64"])] * n
    return [rng.choice(DTYPES) for _ in range(n)]


def _is_int(dt):
    return dt in INT_DT


def _tol(*dtypes):
    """float32 storage makes the implementation average in float32 (relative error ~1e-7 per operation)"""
    if any(d == "float32" for d in dtypes):
        return dict(rtol=2e-6, atol=1e-9)
    return dict(rtol=1e-9, atol=1e-12)


def case_tol(case):
    return _tol(case.get("fdtype"), case.get("odtype"), case.get("tdtype"))


def _pool(rng, whole=False):
    k = rng.randint(2, 5)
    if rng.random() < 0.12:
        # NUMERIC SCALE class: the same small differences on a large offset (pressure in Pa, heights in m):
        # exact in float64 / float32 / int32; a relative tolerance slipped into a comparison with theta shows only here
        base = rng.choice([101325.0, -65536.0])   # float32 still resolves 2^-7 here (the left-limit probes need 2^-4)
        return [base + (float(rng.randint(-8, 8)) if whole else rng.randint(-16, 16) / 4) for _ in range(k)]
    if whole:
        # whole numbers (degrees, mm ...): the only values an integer-dtype array can hold
        return [float(rng.randint(-8, 8)) for _ in range(k)]
    if rng.random() < 0.25:
        # fine dyadic values (10+ decimals, still exact in float64): a rounding or tolerance slipped into the
        # theta / kink computation shows up only on such data
        return [rng.randint(-40, 40) / rng.choice([1024, 4096]) for _ in range(k)]
    return [rng.randint(-8, 8) / rng.choice([1, 2, 4]) for _ in range(k)]


def gen_case(rng, fn=None, nan_rate=None):
    fn = fn or rng.choice(FUNCS)
    na, nb = rng.choice([1, 1, 2, 3]), rng.choice([1, 2, 3, 4])
    fdt, odt = _draw_dtypes(rng, 2)
    pool = _pool(rng, whole=_is_int(fdt) or _is_int(odt))
    nanf = rng.choice([0, 0, 0.15, 0.4]) if nan_rate is None else nan_rate
    nano = rng.choice([0, 0, 0.15, 0.4]) if nan_rate is None else nan_rate
    if _is_int(fdt):
        nanf = 0
    if _is_int(odt):
        nano = 0
    fc = [[rng.choice(pool) for _ in range(nb)] for _ in range(na)]
    ob = [[(fc[i][j] if rng.random() < 0.3 else rng.choice(pool)) for j in range(nb)] for i in range(na)]
    for i in range(na):
        for j in range(nb):
            if rng.random() < nanf:
                fc[i][j] = core.NAN
            if rng.random() < nano:
                ob[i][j] = core.NAN
    if rng.random() < 0.04 and not _is_int(odt):
        ob = [[core.NAN] * nb for _ in range(na)]
    alpha = rng.choice([0.25, 0.5, 0.75, 0.125, 0.875])
    a = rng.choice([0.25, 0.5, 1.0, 2.0, 0.75]) if fn == "huber" else rng.choice([None, None, 0.5])
    vals = [v for row in fc + ob for v in row if not math.isnan(v)] or [0.0]
    cand = list(vals)
    if fn == "huber":
        cand += [v + a for v in vals] + [v - a for v in vals]
    nth = rng.randint(1, 5)
    kind = rng.choice(["list", "list", "da", "da2d"])
    tdt = "float64" if kind == "list" else rng.choice(["float64", "float64", "float32", "int64", "int32"])

    def draw():
        t = draw_any()
        if _is_int(tdt):
            # an integer-dtype theta array: whole numbers, no NaN
            t = float(math.floor(rng.choice(cand) if math.isnan(t) else t))
        return t

    def draw_any():
        r = rng.random()
        if r < 0.5:
            return rng.choice(cand)
        if r < 0.8:
            x, y = rng.choice(cand), rng.choice(cand)
            return (x + y) / 2
        if r < 0.9:
            return rng.choice(cand) + rng.choice([-0.125, 0.125, -4, 4])
        return core.NAN if rng.random() < 0.4 else core.dyadic(rng, -10, 10)

    if kind == "da2d":
        thetas = [[draw() for _ in range(nth)] for _ in range(na)]
    else:
        thetas = [draw() for _ in range(nth)]
    perm_a = list(range(na)); rng.shuffle(perm_a)
    perm_b = list(range(nb)); rng.shuffle(perm_b)
    return dict(fn=fn, alpha=alpha, a=a, fcst=fc, obs=ob, thetas=thetas, theta_kind=kind,
                perm_a=perm_a, perm_b=perm_b, obs_transposed=rng.random() < 0.3,
                reduce=rng.choice(["everything", "a", "b"]), upper=rng.random() < 0.2,
                fdtype=fdt, odtype=odt, tdtype=tdt)


def fresh(s):
    return "".join(list(s))


def _stored(values, dtype):
    """the numbers `values` stored as `dtype` (None = float64).  Integer storage is only ever asked for whole, non-NaN
    numbers (generator invariant); anything else stays float64 so that a hand-edited replay cannot cast NaN to int."""
    arr = np.array(values, dtype=float)
    dtype = dtype or "float64"
    if _is_int(dtype) and not (np.all(np.isfinite(arr)) and np.all(arr == np.floor(arr))):
        return arr
    return arr.astype(dtype)


def build_inputs(case):
    na, nb = len(case["fcst"]), len(case["fcst"][0])
    f = xr.DataArray(_stored(case["fcst"], case.get("fdtype")), dims=[fresh("a"), fresh("b")],
                     coords={"a": list(range(na)), "b": [10 + j for j in range(nb)]})
    o = xr.DataArray(_stored(case["obs"], case.get("odtype")), dims=["a", "b"],
                     coords={"a": list(range(na)), "b": [10 + j for j in range(nb)]})
    # same labelled values, different stored order
    o = o.isel(a=case["perm_a"], b=case["perm_b"])
    if case.get("obs_transposed"):
        o = o.transpose("b", "a")
    th = case["thetas"]
    if case["theta_kind"] == "list":
        tarr = [float(x) for x in th]
    elif case["theta_kind"] == "da":
        tarr = xr.DataArray(_stored(th, case.get("tdtype")), dims=["theta"], coords={"theta": list(range(len(th)))})
    else:
        tarr = xr.DataArray(_stored(th, case.get("tdtype")), dims=["a", "theta"],
                            coords={"a": list(range(na)), "theta": list(range(len(th[0])))})
    return f, o, tarr


def call_murphy(case, preserve, decomposition=True):
    from scores.continuous import murphy_score
    f, o, tarr = build_inputs(case)
    fn = case["fn"].upper() if case.get("upper") else case["fn"]
    kw = dict(functional=fn, alpha=case["alpha"], huber_a=case["a"], decomposition=decomposition)
    if preserve == "all":
        kw["preserve_dims"] = fresh("all")
    elif preserve == "a":
        kw["preserve_dims"] = [fresh("a")]
    elif preserve == "b":
        kw["reduce_dims"] = [fresh("a")]
    with np.errstate(all="ignore"):
        r = murphy_score(f, o, tarr, **kw)
    # results are compared by coordinate label, not by stored position
    return r.sortby([d for d in ("a", "b") if d in r.dims and d in r.coords])


def rows_thetas(case):
    """thetas seen by row i of the `a` dimension"""
    na = len(case["fcst"])
    if case["theta_kind"] == "da2d":
        return [list(case["thetas"][i]) for i in range(na)]
    return [list(case["thetas"]) for _ in range(na)]


def ops_for(case, op):
    """one op per row of `a` (cells + mean over b); plus, for 1-D thetas, one per column and one for all cases"""
    out = []
    rt = rows_thetas(case)
    na, nb = len(case["fcst"]), len(case["fcst"][0])
    base = {"fn": case["fn"], "alpha": core.fl_str(case["alpha"]),
            "a": core.fl_str(case["a"]) if case["a"] is not None else ("nan" if op == "c11.model" else None)}

    def mk(cases, thetas):
        return {"op": op, "args": dict(base, cases=[[core.fl_str(f), core.fl_str(o)] for f, o in cases],
                                        thetas=[core.fl_str(t) for t in thetas])}
    for i in range(na):
        out.append(mk([(case["fcst"][i][j], case["obs"][i][j]) for j in range(nb)], rt[i]))
    if case["theta_kind"] != "da2d":
        for j in range(nb):
            out.append(mk([(case["fcst"][i][j], case["obs"][i][j]) for i in range(na)], case["thetas"]))
        out.append(mk([(case["fcst"][i][j], case["obs"][i][j]) for i in range(na) for j in range(nb)], case["thetas"]))
    return out


VARS = [("total", 0), ("underforecast", 1), ("overforecast", 2)]


class _Unexpected(Exception):
    """a result of the implementation that does not have the structure the property promises; args = failure tuple"""


def _vals(ds, name, dims, shape, tags):
    """values of variable `name` as a float array with exactly the dims `dims` (in that order) and shape `shape`;
    anything else is a finding about the implementation (raised as _Unexpected), never a harness crash"""
    site = "murphy_score." + name
    if name not in getattr(ds, "data_vars", {}):
        raise _Unexpected(site, "missing-variable", sorted(map(str, getattr(ds, "data_vars", {}))), name, tags)
    da = ds[name]
    if sorted(map(str, da.dims)) != sorted(dims):
        raise _Unexpected(site, "result-dims", sorted(map(str, da.dims)), sorted(dims), tags)
    v = np.asarray(da.transpose(*dims).values)
    if v.shape != tuple(shape):
        raise _Unexpected(site, "result-shape", list(v.shape), list(shape), tags)
    try:
        return v.astype(float)
    except (TypeError, ValueError):
        raise _Unexpected(site, "result-dtype", str(v.dtype), "numeric", tags) from None


def compare_case(case, res, kind, source):
    """implementation vs driver results `res` (as produced for ops_for(case, ...)); returns failure tuples.
    Never raises because of what the implementation returned: exceptions and results of unexpected dims / shape /
    variables are failures of the case."""
    fails = []
    try:
        r_all = call_murphy(case, "all")
        r_red = call_murphy(case, case["reduce"])
        r_tot = call_murphy(case, "all", decomposition=False)
    except Exception as ex:  # noqa: BLE001
        return [("murphy_score", "exception", core.exc_class(ex) + ": " + str(ex)[:200], "a Dataset", {})]
    tags = {"fn": case["fn"], "source": source, "dtypes": "/".join(str(case.get(k) or "float64")
                                                                    for k in ("fdtype", "odtype", "tdtype"))}
    try:
        _compare_values(case, res, r_all, r_red, r_tot, tags, fails)
    except _Unexpected as u:
        fails.append(u.args)
    except Exception as ex:  # noqa: BLE001
        fails.append(("murphy_score", "unexpected-result-structure", core.exc_class(ex) + ": " + str(ex)[:200],
                      "Dataset with theta + preserved dims", tags))
    return fails


def _compare_values(case, res, r_all, r_red, r_tot, tags, fails):
    na, nb = len(case["fcst"]), len(case["fcst"][0])
    nth = len(rows_thetas(case)[0])
    tol = case_tol(case)
    dv_tot = set(map(str, getattr(r_tot, "data_vars", {})))
    dv_all = set(map(str, getattr(r_all, "data_vars", {})))
    if dv_tot != {"total"} or dv_all != {"total", "underforecast", "overforecast"}:
        fails.append(("murphy_score", "variables", sorted(dv_all), ["overforecast", "total", "underforecast"], {}))
        return
    full = {}
    for name, k in VARS:
        got = full[name] = _vals(r_all, name, ("theta", "a", "b"), (nth, na, nb), tags)
        for t in range(nth):
            for i in range(na):
                for j in range(nb):
                    exp = res[i]["cells"][t][j][k]
                    if not core.close(got[t, i, j], exp, **tol):
                        fails.append(("murphy_score." + name, "cell-value",
                                      float(got[t, i, j]), exp, dict(tags, theta_index=t, a=i, b=j)))
        if name == "total":
            g2 = _vals(r_tot, "total", ("theta", "a", "b"), (nth, na, nb), tags)
            if not all(core.close_ff(x, y, 0, 0) for x, y in zip(g2.ravel(), got.ravel())):
                fails.append(("murphy_score.total", "decomposition-flag-changes-total", g2.tolist(), got.tolist(), tags))
    red = case["reduce"]
    if red == "a":
        for name, k in VARS:
            got = _vals(r_red, name, ("theta", "a"), (nth, na), dict(tags, reduce="b"))
            for t in range(nth):
                for i in range(na):
                    if not core.close(got[t, i], res[i]["mean"][t][k], **tol):
                        fails.append(("murphy_score." + name, "mean-value", float(got[t, i]), res[i]["mean"][t][k],
                                      dict(tags, theta_index=t, a=i, reduce="b")))
    elif case["theta_kind"] != "da2d":
        if red == "b":
            for name, k in VARS:
                got = _vals(r_red, name, ("theta", "b"), (nth, nb), dict(tags, reduce="a"))
                for t in range(nth):
                    for j in range(nb):
                        if not core.close(got[t, j], res[na + j]["mean"][t][k], **tol):
                            fails.append(("murphy_score." + name, "mean-value", float(got[t, j]),
                                          res[na + j]["mean"][t][k], dict(tags, theta_index=t, b=j, reduce="a")))
        else:
            for name, k in VARS:
                got = _vals(r_red, name, ("theta",), (nth,), dict(tags, reduce="everything"))
                for t in range(nth):
                    if not core.close(got[t], res[na + nb]["mean"][t][k], **tol):
                        fails.append(("murphy_score." + name, "mean-value", float(got[t]), res[na + nb]["mean"][t][k],
                                      dict(tags, theta_index=t, reduce="everything")))
    # relation on the implementation alone: total = under + over, wherever defined
    tot, un, ov = full["total"], full["underforecast"], full["overforecast"]
    for idx in np.ndindex(tot.shape):
        if not core.close_ff(tot[idx], un[idx] + ov[idx], **tol):
            fails.append(("murphy_score.total", "total!=under+over", float(tot[idx]), float(un[idx] + ov[idx]),
                          dict(tags, index=list(idx))))
            break
        if not (math.isnan(un[idx]) or un[idx] == 0 or ov[idx] == 0):
            fails.append(("murphy_score", "both-penalties-nonzero", [float(un[idx]), float(ov[idx])], "one of them 0",
                          dict(tags, index=list(idx))))
            break


def nontrivial(case):
    fin = [(f, o) for rf, ro in zip(case["fcst"], case["obs"]) for f, o in zip(rf, ro)
           if not (math.isnan(f) or math.isnan(o))]
    ths = [t for row in rows_thetas(case) for t in row if not math.isnan(t)]
    return any(min(f, o) <= t < max(f, o) for f, o in fin for t in ths)


def tag_case(ctx, case):
    ctx.tag("fn=" + case["fn"])
    ctx.tag("theta_kind=" + case["theta_kind"])
    fin = [(f, o) for rf, ro in zip(case["fcst"], case["obs"]) for f, o in zip(rf, ro)]
    ths = [t for row in rows_thetas(case) for t in row]
    if any(math.isnan(f) or math.isnan(o) for f, o in fin):
        ctx.tag("nan-in-data")
    if any(math.isnan(t) for t in ths):
        ctx.tag("nan-theta")
    if any(t == f for f, _ in fin for t in ths):
        ctx.tag("theta==fcst")
    if any(t == o for _, o in fin for t in ths):
        ctx.tag("theta==obs")
    if any(f == o for f, o in fin):
        ctx.tag("fcst==obs")
    if len(fin) == 1:
        ctx.tag("single-case")
    ctx.tag("dtype:fcst=" + str(case.get("fdtype") or "float64"))
    ctx.tag("dtype:obs=" + str(case.get("odtype") or "float64"))
    if case["theta_kind"] != "list":
        ctx.tag("dtype:thetas=" + str(case.get("tdtype") or "float64"))


def run_value_batch(ctx, batch, kind, op, n, source, fn=None):
    cases = [gen_case(ctx.rng, fn=fn) for _ in range(n)]
    ops, spans = [], []
    for c in cases:
        o = ops_for(c, op)
        spans.append((len(ops), len(ops) + len(o)))
        ops += o
    res = core.run_driver("C11", ops)
    for c, (lo, hi) in zip(cases, spans):
        ctx.case(batch, c, nontrivial=nontrivial(c))
        tag_case(ctx, c)
        for site, sig, obs_, exp, tags in compare_case(c, res[lo:hi], kind, source):
            ctx.fail(batch, kind, site, sig, dict(c, check="value"), observed=obs_, expected=exp, tags=tags,
                     theorem="cell_eq_spec" if kind == "property" else None)


# ------------------------------------------------------------------------------------------ thetas
def gen_thetas_case(rng, fn=None, dclass=None):
    """dclass: None (any storage), "int" (every source an integer dtype), "float32" (every source float32)"""
    fn = fn or rng.choice(FUNCS)
    ns = rng.choice([1, 2, 2, 3])
    shape = (rng.choice([1, 2, 3]), rng.choice([1, 2, 3]))
    if dclass == "int":
        sdt = [rng.choice(INT_DT) for _ in range(ns)]
    elif dclass == "float32":
        sdt = ["float32"] * ns
    else:
        sdt = _draw_dtypes(rng, ns)
    odt = rng.choice(["float64", "float64"] + DTYPES)
    pool = _pool(rng, whole=any(_is_int(d) for d in sdt + [odt]))
    nanr = rng.choice([0, 0, 0.2])

    def arr(dt):
        r = 0 if _is_int(dt) else nanr
        return [[(core.NAN if rng.random() < r else rng.choice(pool)) for _ in range(shape[1])] for _ in range(shape[0])]
    srcs = [arr(dt) for dt in sdt]
    obs = arr(odt)
    a = rng.choice([0.25, 0.5, 1.0, 2.0]) if fn == "huber" else None
    delta = rng.choice([None, 0, 0.125, 0.0625, 0.25, 1.0])
    if dclass is not None and rng.random() < 0.7:
        delta = rng.choice([0.125, 0.0625, 0.25, 1.0, 0.5])
    alpha = rng.choice([0.25, 0.5, 0.75, 0.125])
    return dict(fn=fn, sources=srcs, obs=obs, a=a, delta=delta, alpha=alpha, sdtypes=sdt, odtype=odt)


def _sdtype(tc, k):
    return (tc.get("sdtypes") or ["float64"] * len(tc["sources"]))[k]


def thetas_tol(tc):
    return _tol(tc.get("odtype"), *(tc.get("sdtypes") or []))


def call_thetas(tc):
    from scores.continuous import murphy_thetas
    fs = [xr.DataArray(_stored(s, _sdtype(tc, k)), dims=["a", "b"]) for k, s in enumerate(tc["sources"])]
    o = xr.DataArray(_stored(tc["obs"], tc.get("odtype")), dims=["a", "b"])
    return [float(x) for x in murphy_thetas(fs, o, tc["fn"], huber_a=tc["a"], left_limit_delta=tc["delta"])]


def thetas_op(tc):
    return {"op": "c11.thetas", "args": {
        "fn": tc["fn"], "forecasts": [[core.fl_str(v) for row in s for v in row] for s in tc["sources"]],
        "obs": [core.fl_str(v) for row in tc["obs"] for v in row],
        "a": core.fl_str(tc["a"]) if tc["a"] is not None else "nan",
        "delta": core.fl_str(tc["delta"]) if tc["delta"] is not None else None}}


def kink_spec(tc):
    """the property's own statement of the theta set: every kink of every source's curve, plus left-limit points"""
    fv = {v for s in tc["sources"] for row in s for v in row if not math.isnan(v)}
    ov = {v for row in tc["obs"] for v in row if not math.isnan(v)}
    out = set(fv) | set(ov)
    if tc["fn"] in ("huber", "expectile"):
        d = tc["delta"] or 0
        out |= {v - d for v in fv}
    if tc["fn"] == "huber":
        out |= {v - tc["a"] for v in ov} | {v + tc["a"] for v in ov}
    return sorted(out)


def curve(tc, src, pts):
    """mean Murphy score of source `src` at the points `pts` (implementation)"""
    from scores.continuous import murphy_score
    f = xr.DataArray(_stored(tc["sources"][src], _sdtype(tc, src)), dims=["a", "b"])
    o = xr.DataArray(_stored(tc["obs"], tc.get("odtype")), dims=["a", "b"])
    with np.errstate(all="ignore"):
        r = murphy_score(f, o, [float(p) for p in pts], functional=tc["fn"], alpha=tc["alpha"], huber_a=tc["a"])
    v = np.asarray(r["total"].values)
    if v.shape != (len(pts),):
        raise _Unexpected("murphy_score.total", "result-shape", list(v.shape), [len(pts)], {"fn": tc["fn"], "source": src})
    return [float(x) for x in v]


def thetas_property(tc, loss_by_src):
    """completeness of the returned thetas, on the implementation: between consecutive thetas each source's curve is
    constant (quantile) / affine (others), it vanishes outside, the midpoint sum over the cells is the mean loss, and
    (left_limit_delta > 0) every jump of the expectile / Huber curve is preceded by a theta at most delta below it, so
    linear interpolation between the thetas is the curve outside those gaps"""
    fails = []
    dt = "/".join(tc.get("sdtypes") or ["float64"]) + "|" + str(tc.get("odtype") or "float64")
    try:
        th = call_thetas(tc)
    except Exception as ex:  # noqa: BLE001
        return [("murphy_thetas", "exception", core.exc_class(ex) + ": " + str(ex)[:200], "a list", {"dtypes": dt})]
    spec = kink_spec(tc)
    if th != spec:
        fails.append(("murphy_thetas", "theta-set", th, spec, {"fn": tc["fn"], "dtypes": dt}))
    if len(th) == 0:
        return fails
    tol = thetas_tol(tc)
    for s in range(len(tc["sources"])):
        tags = {"fn": tc["fn"], "source": s, "dtypes": dt}
        fails += _source_curve_fails(tc, th, tol, tags, lambda pts, s=s: curve(tc, s, pts), loss_by_src[s])
    return fails


def _source_curve_fails(tc, th, tol, tags, get_curve, exp_loss):
    """the curve of ONE source on the grid `th` (strictly increasing, non-empty): constant / affine inside every cell,
    zero outside, no jump at the end of a cell wider than delta, midpoint sum = `exp_loss`.  `get_curve(pts)` evaluates
    the implementation's mean Murphy score of that source at the points `pts`."""
    fails = []
    d = tc.get("delta") or 0
    pts = []
    for lo, hi in zip(th, th[1:]):
        w = hi - lo
        pts += [lo, lo + w / 4, lo + w / 2, lo + 3 * w / 4]
    pts += [th[-1], th[-1] + 1, th[0] - 1]
    try:
        c = get_curve(pts)
    except _Unexpected as u:
        return [u.args]
    except Exception as ex:  # noqa: BLE001
        return [("murphy_score", "exception", core.exc_class(ex) + ": " + str(ex)[:200], "a Dataset", tags)]
    if all(math.isnan(x) for x in c):
        return fails
    if not (core.close_ff(c[-1], 0, **tol) and core.close_ff(c[-2], 0, **tol) and core.close_ff(c[-3], 0, **tol)):
        fails.append(("murphy_score", "nonzero-outside-data-range", c[-3:], [0, 0, 0], tags))
    integral = 0.0
    for k, (lo, hi) in enumerate(zip(th, th[1:])):
        p0, p1, p2, p3 = c[4 * k: 4 * k + 4]
        if tc["fn"] == "quantile":
            ok = core.close_ff(p0, p1, **tol) and core.close_ff(p0, p2, **tol) and core.close_ff(p0, p3, **tol)
        else:
            ok = core.close_ff(p2 - p0, 2 * (p1 - p0), **tol) and core.close_ff(p3 - p0, 3 * (p1 - p0), **tol)
        if not ok:
            fails.append(("murphy_thetas", "kink-inside-cell", [p0, p1, p2, p3],
                          "constant" if tc["fn"] == "quantile" else "affine", dict(tags, cell=[lo, hi])))
            break
        if tc["fn"] != "quantile" and d > 0 and hi - lo > d:
            # a cell wider than delta must end without a jump: the curve continued affinely to `hi` is the value
            # there (a jump sits at every forecast value; its left-limit theta f - delta makes the cell narrow)
            c_hi = c[4 * (k + 1)]
            if not core.close_ff(p0 + 4 * (p1 - p0), c_hi, **tol):
                fails.append(("murphy_thetas", "jump-without-left-limit", [p0 + 4 * (p1 - p0), c_hi],
                              "a theta in [hi - delta, hi)", dict(tags, cell=[lo, hi], delta=d)))
                break
        integral += (hi - lo) * p2
    else:
        if not core.close(integral, exp_loss, **tol):
            fails.append(("murphy_score", "integral!=loss", integral, exp_loss, tags))
    return fails


def loss_ops(tc):
    out = []
    for s in tc["sources"]:
        cases = [[core.fl_str(f), core.fl_str(o)] for rf, ro in zip(s, tc["obs"]) for f, o in zip(rf, ro)]
        out.append({"op": "c11.spec", "args": {"fn": tc["fn"], "alpha": core.fl_str(tc["alpha"]),
                                               "a": core.fl_str(tc["a"]) if tc["a"] is not None else None,
                                               "cases": cases, "thetas": []}})
    return out


# ------------------------------------------------------------------------------------------ thetas, labelled sources
# Forecast sources whose coordinate label sets / dims DIFFER (a source covers a subset of another's stations or lead
# times, has extra labels nobody else has, lacks a dim or has one more).  murphy_score pairs a source with the obs at the
# labels THAT source shares with obs (dims only one of them has are broadcast), so every kink of those pairs must be a
# returned theta, whatever the other sources cover.
LAB_A = [101, 102, 103, 104, 105, 106]      # stations
LAB_B = [0, 6, 12, 18]                      # lead times
LAB_M = [1, 2]                              # a dim only a forecast source has (member)
LAB_UNIVERSE = {"a": LAB_A, "b": LAB_B, "m": LAB_M}


def _nested(shape, draw):
    if not shape:
        return draw()
    return [_nested(shape[1:], draw) for _ in range(shape[0])]


def _lab_get(spec, point):
    """value of the labelled array `spec` at `point` ({dim: label}); None if a label is not there"""
    v = spec["values"]
    for d, labs in zip(spec["dims"], spec["labels"]):
        if point.get(d) not in labs:
            return None
        v = v[labs.index(point[d])]
    return v


def _lab_flat(spec):
    out = []

    def rec(v):
        if isinstance(v, list):
            for x in v:
                rec(x)
        else:
            out.append(v)
    rec(spec["values"])
    return out


def _lab_points(dims, labels):
    pts = [{}]
    for d, labs in zip(dims, labels):
        pts = [dict(p, **{d: l}) for p in pts for l in labs]
    return pts


def lab_pairs(src, obs):
    """the (forecast, obs) pairs murphy_score averages over for this source: shared dims are matched by label (only
    labels both have), a dim that only one of the two has is broadcast"""
    dims, labels = [], []
    for d, labs in zip(src["dims"], src["labels"]):
        dims.append(d)
        labels.append([l for l in labs if l in obs["labels"][obs["dims"].index(d)]] if d in obs["dims"] else list(labs))
    for d, labs in zip(obs["dims"], obs["labels"]):
        if d not in dims:
            dims.append(d)
            labels.append(list(labs))
    return [(_lab_get(src, p), _lab_get(obs, p)) for p in _lab_points(dims, labels)]


def gen_labelled_thetas_case(rng, fn=None):
    fn = fn or rng.choice(FUNCS)
    ns = rng.choice([2, 2, 2, 3])
    sdt = _draw_dtypes(rng, ns)
    odt = rng.choice(["float64", "float64"] + DTYPES)
    whole = any(_is_int(d) for d in sdt + [odt])
    # distinct values: a point that only one source covers mostly carries a value that occurs nowhere else
    uniq = [float(k) for k in range(-12, 13)] if whole else [k / 4 for k in range(-40, 41)]
    rng.shuffle(uniq)
    pool = [uniq.pop() for _ in range(3)]
    obs_dims = rng.choice([["a", "b"], ["a", "b"], ["b", "a"], ["a"]])
    oa = sorted(rng.sample(LAB_A, rng.randint(2, 4)))
    ob = sorted(rng.sample(LAB_B, rng.randint(1, 3)))
    olabs = {"a": oa, "b": ob}

    def sub(labs):
        # a strict non-empty subset when there is one
        if len(labs) < 2:
            return list(labs)
        return sorted(rng.sample(labs, rng.randint(1, len(labs) - 1)))

    def src_labels(kind, d):
        base = olabs.get(d) or sorted(rng.sample(LAB_UNIVERSE[d], rng.randint(1, 2)))
        rest = [l for l in LAB_UNIVERSE[d] if l not in base]
        if kind == "full" or d == "m":
            return list(base)
        if kind == "subset":
            return sub(base)
        if kind == "extra":       # some of the obs labels plus labels nobody asked for
            return sorted((sub(base) if rng.random() < 0.6 else list(base)) + rng.sample(rest, min(len(rest), rng.randint(1, 2))))
        return sorted(rng.sample(rest, min(len(rest), rng.randint(1, 2)))) or list(base)      # "foreign": no obs label

    srcs = []
    partition = rng.random() < 0.2 and len(oa) >= ns       # the sources split the stations between them
    cut = sorted(rng.sample(range(1, len(oa)), ns - 1)) if partition else []
    for k in range(ns):
        r = rng.random()
        dims = (["a", "b"] if r < 0.5 else ["b", "a"] if r < 0.65 else ["a"] if r < 0.8 else ["b"] if r < 0.87
                else rng.choice([["a", "b", "m"], ["m", "a"], ["a", "m", "b"]]))
        labels = []
        for d in dims:
            if partition and d == "a":
                labels.append(oa[([0] + cut)[k]: (cut + [len(oa)])[k]])
                continue
            kind = rng.choice(["full", "full", "subset", "subset", "subset", "extra", "extra", "foreign"]
                              if d == "a" else ["full", "full", "full", "subset", "extra"])
            if k == 0 and rng.random() < 0.5:
                kind = "full"
            labels.append(src_labels(kind, d))
        for labs in labels:
            rng.shuffle(labs)          # stored order is not label order
        srcs.append(dict(dims=dims, labels=labels, dtype=sdt[k]))
    olab = [list(olabs[d]) for d in obs_dims]
    for labs in olab:
        rng.shuffle(labs)
    obs = dict(dims=obs_dims, labels=olab, dtype=odt)
    nanr = rng.choice([0, 0, 0, 0.15])

    def draw_f(dt):
        def f():
            if not _is_int(dt) and rng.random() < nanr:
                return core.NAN
            return uniq.pop() if uniq and rng.random() < 0.6 else rng.choice(pool)
        return f
    for sp in srcs:
        sp["values"] = _nested([len(l) for l in sp["labels"]], draw_f(sp["dtype"]))

    # obs: 30 % copied from a source at the same labels (fcst == obs), else drawn like the forecasts
    def fill_obs(dims, labels, point):
        if not dims:
            cands = [v for v in (_lab_get(sp, point) for sp in srcs) if v is not None and not math.isnan(v)]
            if cands and rng.random() < 0.3:
                return rng.choice(cands)
            return draw_f(odt)()
        return [fill_obs(dims[1:], labels[1:], dict(point, **{dims[0]: l})) for l in labels[0]]
    obs["values"] = fill_obs(obs_dims, olab, {})
    a = rng.choice([0.25, 0.5, 1.0, 2.0]) if fn == "huber" else None
    delta = rng.choice([None, 0, 0.125, 0.0625, 0.25, 1.0, 0.125])
    alpha = rng.choice([0.25, 0.5, 0.75, 0.125])
    return dict(fn=fn, lsources=srcs, lobs=obs, a=a, delta=delta, alpha=alpha, labelled=True)


def _lab_array(spec):
    return xr.DataArray(_stored(spec["values"], spec.get("dtype")), dims=[fresh(d) for d in spec["dims"]],
                        coords={d: list(l) for d, l in zip(spec["dims"], spec["labels"])})


def lab_features(tc):
    """which structural differences between the sources / obs the case realises (for the measured distribution)"""
    out = set()
    obs = tc["lobs"]
    olab = dict(zip(obs["dims"], map(set, obs["labels"])))
    slabs = [dict(zip(sp["dims"], map(set, sp["labels"]))) for sp in tc["lsources"]]
    for sl in slabs:
        if set(sl) != set(olab):
            out.add("dims-differ-from-obs")
        for d, labs in sl.items():
            if d in olab:
                if labs < olab[d]:
                    out.add("source-covers-subset-of-obs")
                if labs - olab[d]:
                    out.add("source-has-labels-obs-lacks")
                if not labs & olab[d]:
                    out.add("source-shares-no-label-with-obs")
    for i, x in enumerate(slabs):
        for y in slabs[i + 1:]:
            if set(x) != set(y):
                out.add("sources-have-different-dims")
            for d in set(x) & set(y):
                if x[d] < y[d] or y[d] < x[d]:
                    out.add("one-source-subset-of-another")
                elif x[d] != y[d]:
                    out.add("sources-disjoint" if not x[d] & y[d] else "sources-overlap-partially")
    return sorted(out) or ["same-labels"]


def lab_dtypes(tc):
    return "/".join(str(sp.get("dtype") or "float64") for sp in tc["lsources"]) + "|" + str(tc["lobs"].get("dtype") or "float64")


def lab_tol(tc):
    return _tol(tc["lobs"].get("dtype"), *(sp.get("dtype") for sp in tc["lsources"]))


def call_thetas_labelled(tc):
    from scores.continuous import murphy_thetas
    fs = [_lab_array(sp) for sp in tc["lsources"]]
    return [float(x) for x in murphy_thetas(fs, _lab_array(tc["lobs"]), tc["fn"], huber_a=tc["a"],
                                            left_limit_delta=tc["delta"])]


def curve_labelled(tc, src, pts):
    from scores.continuous import murphy_score
    with np.errstate(all="ignore"):
        r = murphy_score(_lab_array(tc["lsources"][src]), _lab_array(tc["lobs"]), [float(p) for p in pts],
                         functional=tc["fn"], alpha=tc["alpha"], huber_a=tc["a"])
    v = np.asarray(r["total"].values)
    if v.shape != (len(pts),):
        raise _Unexpected("murphy_score.total", "result-shape", list(v.shape), [len(pts)], {"fn": tc["fn"], "source": src})
    return [float(x) for x in v]


def _kinks_of(tc, fvals, ovals):
    """kinks (and left-limit points) generated by forecast values `fvals` and observations `ovals`"""
    out = set(fvals) | set(ovals)
    if tc["fn"] in ("huber", "expectile"):
        d = tc["delta"] or 0
        out |= {v - d for v in fvals}
    if tc["fn"] == "huber":
        out |= {v - tc["a"] for v in ovals} | {v + tc["a"] for v in ovals}
    return out


def lab_required(tc, src):
    """the thetas source `src` needs: the kinks of its cases, i.e. of its values paired with the obs at the labels it
    shares with obs (both present)"""
    prs = [(f, o) for f, o in lab_pairs(tc["lsources"][src], tc["lobs"]) if not (math.isnan(f) or math.isnan(o))]
    return sorted(_kinks_of(tc, {f for f, _ in prs}, {o for _, o in prs}))


def lab_allowed(tc):
    """every value anywhere in a source or in obs generates thetas at most these (what the model of murphy_thetas,
    which never looks at labels, returns)"""
    fv = {v for sp in tc["lsources"] for v in _lab_flat(sp) if not math.isnan(v)}
    ov = {v for v in _lab_flat(tc["lobs"]) if not math.isnan(v)}
    return sorted(_kinks_of(tc, fv, ov))


def labelled_thetas_op(tc):
    return {"op": "c11.thetas", "args": {
        "fn": tc["fn"], "forecasts": [[core.fl_str(v) for v in _lab_flat(sp)] for sp in tc["lsources"]],
        "obs": [core.fl_str(v) for v in _lab_flat(tc["lobs"])],
        "a": core.fl_str(tc["a"]) if tc["a"] is not None else "nan",
        "delta": core.fl_str(tc["delta"]) if tc["delta"] is not None else None}}


def labelled_loss_ops(tc):
    return [{"op": "c11.spec", "args": {"fn": tc["fn"], "alpha": core.fl_str(tc["alpha"]),
                                        "a": core.fl_str(tc["a"]) if tc["a"] is not None else None,
                                        "cases": [[core.fl_str(f), core.fl_str(o)] for f, o in lab_pairs(sp, tc["lobs"])],
                                        "thetas": []}} for sp in tc["lsources"]]


def labelled_thetas_property(tc, loss_by_src):
    """sources with differing label sets / dims: the returned thetas are strictly increasing, contain every kink of every
    source's own cases (its values paired with obs at the labels IT shares with obs), contain nothing that no value
    generates, and each source's curve is constant / affine between consecutive thetas, zero outside, and integrates
    (midpoint sum) to the mean loss over that source's cases"""
    fails = []
    base = {"fn": tc["fn"], "dtypes": lab_dtypes(tc), "labels": "differ"}
    try:
        th = call_thetas_labelled(tc)
    except Exception as ex:  # noqa: BLE001
        return [("murphy_thetas", "exception", core.exc_class(ex) + ": " + str(ex)[:200], "a list", base)]
    if any(math.isnan(t) or math.isinf(t) for t in th) or any(hi <= lo for lo, hi in zip(th, th[1:])):
        return [("murphy_thetas", "thetas-not-finite-increasing", th, "finite, strictly increasing", base)]
    allowed = set(lab_allowed(tc))
    extra = [t for t in th if t not in allowed]
    if extra:
        fails.append(("murphy_thetas", "theta-no-value-generates", extra, sorted(allowed), base))
    reported = False
    for s in range(len(tc["lsources"])):
        req = lab_required(tc, s)
        missing = [k for k in req if k not in th]
        if missing and not reported:
            reported = True
            fails.append(("murphy_thetas", "kink-of-source-missing", th, req, dict(base, source=s, missing=missing)))
    if len(th) == 0:
        return fails
    tol = lab_tol(tc)
    for s in range(len(tc["lsources"])):
        fails += _source_curve_fails(tc, th, tol, dict(base, source=s),
                                     lambda pts, s=s: curve_labelled(tc, s, pts), loss_by_src[s])
    return fails


def tag_labelled(ctx, tc, prefix):
    for f in lab_features(tc):
        ctx.tag(prefix + f)
    sd = [sp.get("dtype") or "float64" for sp in tc["lsources"]]
    ctx.tag(prefix + "dtype=" + ("all-float64" if all(x == "float64" for x in sd + [tc["lobs"].get("dtype") or "float64"])
                                 else "other"))


# ------------------------------------------------------------------------------------------ state across calls
# murphy_thetas / murphy_score called REPEATEDLY in one process on the SAME list / DataArray objects, which are modified in
# place between the calls (sources.append(...), obs.values[i, j] = v, da[dict(a=i, b=j)] = v, thetas[i] = v ...), on new
# objects of equal content, with other options on the same objects, and with an unrelated data set in between.  Every
# call must be a function of the CURRENT values and options: the expected theta set is the kink set of the current
# values, the expected scores / loss come from the Lean Spec evaluated on the current values - never from an earlier call.
STATE_OPS = [("append", 20), ("set_obs", 14), ("set_src", 14), ("set_obs_da", 6), ("set_src_da", 6), ("replace_src", 6),
             ("pop", 5), ("insert", 4), ("same", 7), ("rebuild", 5), ("relist", 3), ("delta", 5), ("fn", 4),
             ("set_theta", 6), ("append_theta", 4), ("other", 5)]
STATE_INPLACE = ("append", "set_obs", "set_src", "set_obs_da", "set_src_da", "replace_src", "pop", "insert")


def _state_b(j):
    return 10 + j


def gen_state_case(rng, fn=None):
    fn = fn or rng.choice(FUNCS)
    ns = rng.choice([1, 1, 2, 2, 3])
    na, nb = rng.choice([1, 2, 2, 3]), rng.choice([1, 2, 3, 4])
    r = rng.random()
    if r < 0.5:
        dt = lambda: "float64"
    elif r < 0.7:
        one = rng.choice(["int64", "int32", "float32", "float32"])
        dt = lambda: one
    else:
        dt = lambda: rng.choice(DTYPES)
    sdt = [dt() for _ in range(ns)]
    odt = dt() if rng.random() < 0.6 else "float64"
    extra_dt = [dt() for _ in range(8)]           # storage of the sources the steps add
    whole = any(_is_int(d) for d in sdt + [odt] + extra_dt)
    # mostly values that occur nowhere else: an in-place change then really changes the kink set
    uniq = [float(k) for k in range(-20, 21)] if whole else [k / 4 for k in range(-40, 41)] + [k / 1024 for k in range(1, 40, 2)]
    rng.shuffle(uniq)
    pool = [uniq.pop() for _ in range(3)]
    nanr = rng.choice([0, 0, 0, 0.15])

    def val(d, nan_ok=True):
        if nan_ok and not _is_int(d) and rng.random() < nanr:
            return core.NAN
        return uniq.pop() if uniq and rng.random() < 0.65 else rng.choice(pool)

    def arr(d):
        return [[val(d) for _ in range(nb)] for _ in range(na)]
    sources = [arr(d) for d in sdt]
    obs = [[(sources[0][i][j] if rng.random() < 0.25 and not (_is_int(odt) and math.isnan(sources[0][i][j])) else val(odt))
            for j in range(nb)] for i in range(na)]
    a = rng.choice([0.25, 0.5, 1.0, 2.0])
    delta = rng.choice([None, 0, 0.125, 0.0625, 0.25, 1.0])
    alpha = rng.choice([0.25, 0.5, 0.75, 0.125])
    tkind = rng.choice(["list", "list", "da"])
    thetas = [rng.choice(pool + [v for row in obs for v in row if not math.isnan(v)]) + rng.choice([0, 0, 0.125, -0.5, 1])
              for _ in range(rng.randint(1, 3))]
    # steps: simulate the sizes so that every step is applicable
    steps, n_src, cur_dt, n_th = [], ns, list(sdt), len(thetas)
    names = [o for o, w in STATE_OPS for _ in range(w)]
    for _ in range(rng.randint(2, 5)):
        op = rng.choice(names)
        if op == "pop" and n_src < 2:
            op = "append"
        if op == "append_theta" and tkind != "list":
            op = "set_theta"
        if op in ("append", "insert") and n_src >= 4:
            op = "set_src"
        i, j = rng.randrange(na), rng.randrange(nb)
        if op in ("append", "insert"):
            d = extra_dt.pop()
            steps.append(dict(op=op, values=arr(d), dtype=d))
            cur_dt = cur_dt + [d] if op == "append" else [d] + cur_dt
            n_src += 1
        elif op == "pop":
            steps.append(dict(op=op))
            cur_dt.pop()
            n_src -= 1
        elif op == "replace_src":
            k, d = rng.randrange(n_src), extra_dt.pop()
            steps.append(dict(op=op, k=k, values=arr(d), dtype=d))
            cur_dt[k] = d
        elif op in ("set_obs", "set_obs_da"):
            v = core.NAN if (not _is_int(odt) and rng.random() < 0.1) else val(odt, nan_ok=False)
            steps.append(dict(op=op, i=i, j=j, v=v))
        elif op in ("set_src", "set_src_da"):
            k = rng.randrange(n_src)
            v = core.NAN if (not _is_int(cur_dt[k]) and rng.random() < 0.1) else val(cur_dt[k], nan_ok=False)
            steps.append(dict(op=op, k=k, i=i, j=j, v=v))
        elif op == "delta":
            steps.append(dict(op=op, v=rng.choice([None, 0, 0.125, 0.0625, 0.25, 1.0, 0.5])))
        elif op == "fn":
            steps.append(dict(op=op, v=rng.choice(FUNCS)))
        elif op == "set_theta":
            steps.append(dict(op=op, i=rng.randrange(n_th), v=rng.choice(pool) + rng.choice([0, 0.125, -0.5, 2])))
        elif op == "append_theta":
            steps.append(dict(op=op, v=rng.choice(pool) + rng.choice([0, 0.125, -0.5, 2])))
            n_th += 1
        elif op == "other":
            d = rng.choice(["float64", "float64", "int64" if whole else "float32"])
            steps.append(dict(op=op, sources=[[[val(d, nan_ok=False) for _ in range(2)]]], obs=[[val(d, nan_ok=False) for _ in range(2)]],
                              dtype=d))
        else:
            steps.append(dict(op=op))
    return dict(fn=fn, alpha=alpha, a=a, delta=delta, sources=sources, sdtypes=sdt, obs=obs, odtype=odt,
                thetas=thetas, theta_kind=tkind, steps=steps, state=True)


def state_apply(st, step):
    """the values / options after `step` (pure; the expected side of every check is computed from this)"""
    import copy
    st = copy.deepcopy(st)
    op = step["op"]
    if op == "append":
        st["sources"].append(copy.deepcopy(step["values"])); st["sdtypes"].append(step["dtype"])
    elif op == "insert":
        st["sources"].insert(0, copy.deepcopy(step["values"])); st["sdtypes"].insert(0, step["dtype"])
    elif op == "pop":
        st["sources"].pop(); st["sdtypes"].pop()
    elif op == "replace_src":
        st["sources"][step["k"]] = copy.deepcopy(step["values"]); st["sdtypes"][step["k"]] = step["dtype"]
    elif op in ("set_obs", "set_obs_da"):
        st["obs"][step["i"]][step["j"]] = step["v"]
    elif op in ("set_src", "set_src_da"):
        st["sources"][step["k"]][step["i"]][step["j"]] = step["v"]
    elif op == "delta":
        st["delta"] = step["v"]
    elif op == "fn":
        st["fn"] = step["v"]
    elif op == "set_theta":
        st["thetas"][step["i"]] = step["v"]
    elif op == "append_theta":
        st["thetas"].append(step["v"])
    return st


def state_snapshots(case):
    st = {k: case[k] for k in ("fn", "alpha", "a", "delta", "sources", "sdtypes", "obs", "odtype", "thetas")}
    st = state_apply(st, {"op": "same"})
    out = [st]
    for step in case["steps"]:
        st = state_apply(st, step)
        out.append(st)
    return out


def _state_tc(st):
    """the snapshot as a murphy_thetas case of the plain stream (huber_a only for the Huber functional)"""
    return dict(fn=st["fn"], sources=st["sources"], obs=st["obs"], a=st["a"] if st["fn"] == "huber" else None,
                delta=st["delta"], alpha=st["alpha"], sdtypes=st["sdtypes"], odtype=st["odtype"])


def state_ops(case):
    """driver ops of every snapshot: the Spec loss of every source, and the Spec cells / means of source 0 at the thetas"""
    ops, spans = [], []
    for st in state_snapshots(case):
        tc = _state_tc(st)
        o = loss_ops(tc)
        cases = [[core.fl_str(f), core.fl_str(ob)] for rf, ro in zip(st["sources"][0], st["obs"]) for f, ob in zip(rf, ro)]
        o.append({"op": "c11.spec", "args": {"fn": tc["fn"], "alpha": core.fl_str(tc["alpha"]),
                                             "a": core.fl_str(tc["a"]) if tc["a"] is not None else None,
                                             "cases": cases, "thetas": [core.fl_str(t) for t in st["thetas"]]}})
        spans.append((len(ops), len(ops) + len(o)))
        ops += o
    return ops, spans


def _state_da(values, dtype):
    na, nb = len(values), len(values[0])
    return xr.DataArray(_stored(values, dtype), dims=[fresh("a"), fresh("b")],
                        coords={"a": list(range(na)), "b": [_state_b(j) for j in range(nb)]})


def _state_build(st, theta_kind):
    th = [float(t) for t in st["thetas"]]
    if theta_kind == "da":
        th = xr.DataArray(np.array(th, dtype=float), dims=["theta"], coords={"theta": list(range(len(th)))})
    return dict(sources=[_state_da(s, d) for s, d in zip(st["sources"], st["sdtypes"])],
                obs=_state_da(st["obs"], st["odtype"]), thetas=th)


def _state_do(objs, step, st_after, theta_kind):
    """the caller's own action on the live objects"""
    op = step["op"]
    if op == "append":
        objs["sources"].append(_state_da(step["values"], step["dtype"]))
    elif op == "insert":
        objs["sources"].insert(0, _state_da(step["values"], step["dtype"]))
    elif op == "pop":
        objs["sources"].pop()
    elif op == "replace_src":
        objs["sources"][step["k"]] = _state_da(step["values"], step["dtype"])
    elif op == "set_obs":
        objs["obs"].values[step["i"], step["j"]] = step["v"]
    elif op == "set_obs_da":
        objs["obs"].loc[dict(a=step["i"], b=_state_b(step["j"]))] = step["v"]
    elif op == "set_src":
        objs["sources"][step["k"]].values[step["i"], step["j"]] = step["v"]
    elif op == "set_src_da":
        objs["sources"][step["k"]][dict(a=step["i"], b=step["j"])] = step["v"]
    elif op == "set_theta":
        if theta_kind == "da":
            objs["thetas"].values[step["i"]] = step["v"]
        else:
            objs["thetas"][step["i"]] = float(step["v"])
    elif op == "append_theta":
        objs["thetas"].append(float(step["v"]))
    elif op == "rebuild":            # other objects, equal content
        objs.update(_state_build(st_after, theta_kind))
    elif op == "relist":             # another list object holding the same arrays
        objs["sources"] = list(objs["sources"])


def _same_numbers(x, y):
    x, y = np.asarray(x, dtype=float), np.asarray(y, dtype=float)
    return x.shape == y.shape and bool(np.all((x == y) | (np.isnan(x) & np.isnan(y))))


def state_sequence_fails(case, res, spans):
    """run the sequence on the implementation; failure tuples (site, signature, observed, expected, tags, step index)"""
    from scores.continuous import murphy_score, murphy_thetas
    snaps = state_snapshots(case)
    tk = case.get("theta_kind") or "list"
    objs = _state_build(snaps[0], tk)
    dts = set(case["sdtypes"]) | {case["odtype"]} | {s["dtype"] for s in case["steps"] if "dtype" in s}
    tol = _tol(*dts)
    fails = []
    for t, st in enumerate(snaps):
        step = case["steps"][t - 1] if t else {"op": "first-call"}
        tags = {"state": "sequence", "step": t, "op": step["op"], "fn": st["fn"]}
        try:
            if t:
                _state_do(objs, step, st, tk)
                if step["op"] == "other":
                    otc = dict(fn=st["fn"], sources=step["sources"], obs=step["obs"], a=st["a"] if st["fn"] == "huber" else None,
                               delta=st["delta"], sdtypes=[step["dtype"]], odtype=step["dtype"])
                    got = call_thetas(otc)
                    if got != kink_spec(otc):
                        fails.append(("murphy_thetas", "theta-set", got, kink_spec(otc), dict(tags, data="other"), t))
            tc = _state_tc(st)
            spec = kink_spec(tc)
            lo, hi = spans[t]
            losses = [r["loss"] for r in res[lo:hi - 1]]
            vres = res[hi - 1]
            n_before = len(objs["sources"])
            th = [float(x) for x in murphy_thetas(objs["sources"], objs["obs"], fresh(tc["fn"]), huber_a=tc["a"],
                                                  left_limit_delta=tc["delta"])]
            if th != spec:
                missing = [x for x in spec if x not in th]
                fails.append(("murphy_thetas", "theta-set", th, spec, dict(tags, missing=missing[:6]), t))
            # the curve of every CURRENT source on the live objects: constant / affine between the kinks, integral = loss
            if spec:
                for s in range(len(st["sources"])):
                    def get_curve(pts, s=s):
                        with np.errstate(all="ignore"):
                            r = murphy_score(objs["sources"][s], objs["obs"], [float(p) for p in pts], functional=tc["fn"],
                                             alpha=tc["alpha"], huber_a=tc["a"])
                        v = np.asarray(r["total"].values)
                        if v.shape != (len(pts),):
                            raise _Unexpected("murphy_score.total", "result-shape", list(v.shape), [len(pts)], tags)
                        return [float(x) for x in v]
                    for f in _source_curve_fails(tc, spec, tol, dict(tags, source=s), get_curve, losses[s]):
                        fails.append(tuple(f) + (t,))
            # murphy_score at the caller's own (live) thetas object: Spec cells and means of the current values
            na, nb, nth = len(st["obs"]), len(st["obs"][0]), len(st["thetas"])
            with np.errstate(all="ignore"):
                r_all = murphy_score(objs["sources"][0], objs["obs"], objs["thetas"], functional=tc["fn"], alpha=tc["alpha"],
                                     huber_a=tc["a"], decomposition=True, preserve_dims=fresh("all"))
                r_red = murphy_score(objs["sources"][0], objs["obs"], objs["thetas"], functional=tc["fn"], alpha=tc["alpha"],
                                     huber_a=tc["a"], decomposition=True)
            for name, k in VARS:
                got = _vals(r_all, name, ("theta", "a", "b"), (nth, na, nb), tags)
                exp = [[[vres["cells"][x][i * nb + j][k] for j in range(nb)] for i in range(na)] for x in range(nth)]
                if not all(core.close(float(got[x, i, j]), exp[x][i][j], **tol)
                           for x in range(nth) for i in range(na) for j in range(nb)):
                    fails.append(("murphy_score." + name, "cell-value", got.tolist(), exp, tags, t))
                    break
                gm = _vals(r_red, name, ("theta",), (nth,), tags)
                em = [vres["mean"][x][k] for x in range(nth)]
                if not all(core.close(float(gm[x]), em[x], **tol) for x in range(nth)):
                    fails.append(("murphy_score." + name, "mean-value", gm.tolist(), em, tags, t))
                    break
            # the calls leave the caller's objects alone
            ok = (len(objs["sources"]) == n_before == len(st["sources"])
                  and all(_same_numbers(o.values, v) and str(o.dtype) == str(_stored(v, d).dtype)
                          for o, v, d in zip(objs["sources"], st["sources"], st["sdtypes"]))
                  and _same_numbers(objs["obs"].values, st["obs"])
                  and _same_numbers(objs["thetas"].values if tk == "da" else objs["thetas"], st["thetas"]))
            if not ok:
                fails.append(("murphy_thetas", "call-modifies-its-inputs",
                              dict(sources=[o.values.tolist() for o in objs["sources"]], obs=objs["obs"].values.tolist(),
                                   thetas=np.asarray(objs["thetas"], dtype=float).tolist()),
                              dict(sources=st["sources"], obs=st["obs"], thetas=st["thetas"]), tags, t))
        except _Unexpected as u:
            fails.append(tuple(u.args) + (t,))
        except Exception as ex:  # noqa: BLE001
            fails.append(("murphy_thetas/murphy_score", "exception", core.exc_class(ex) + ": " + str(ex)[:200],
                          "thetas and scores of the current values", tags, t))
        if fails:
            break
    return fails


def state_nontrivial(case):
    """some in-place change of the live list / arrays changes the kink set"""
    snaps = state_snapshots(case)
    return any(step["op"] in STATE_INPLACE and kink_spec(_state_tc(a)) != kink_spec(_state_tc(b))
               for step, a, b in zip(case["steps"], snaps, snaps[1:]))


def state_oracle(ctx, n):
    cases = [gen_state_case(ctx.rng) for _ in range(n)]
    cases += [gen_state_case(ctx.rng, fn=fn) for fn in FUNCS for _ in range(max(2, n // 15))]
    allops, where = [], []
    for c in cases:
        ops, spans = state_ops(c)
        where.append((len(allops), spans))
        allops += ops
    res = core.run_driver("C11", allops)
    for c, (off, spans) in zip(cases, where):
        ctx.case("state:repeated-calls-on-live-objects", c, nontrivial=state_nontrivial(c))
        ctx.tag("state:" + c["fn"])
        ctx.tag("state:thetas=" + c["theta_kind"])
        for s in c["steps"]:
            ctx.tag("state-step:" + s["op"])
        sub = res[off: off + spans[-1][1]]
        for site, sig, obs_, exp, tags, t in state_sequence_fails(c, sub, spans):
            # the recorded sequence stops at the failing step
            ctx.fail("state:repeated-calls-on-live-objects", "property", site, sig,
                     dict(c, steps=c["steps"][:t], check="state-sequence"), observed=obs_, expected=exp, tags=tags,
                     theorem={"kink-inside-cell": "kinks_subset_thetas", "integral!=loss": "integral_eq_loss",
                              "theta-set": "kinks_subset_thetas", "jump-without-left-limit": "kinks_subset_thetas",
                              "cell-value": "cell_eq_spec", "mean-value": "cell_eq_spec"}.get(sig))


# ------------------------------------------------------------------------------------------ malformed
def gen_bad(rng):
    fn = rng.choice(FUNCS + ["Huber", "median", "QUANTILE", ""])
    alpha = rng.choice([0, 1, -0.25, 1.5, 0.5, 0.25, 0.999, core.NAN])
    a = rng.choice([None, 0, -1.0, 0.5, 2.0, core.NAN])
    delta = rng.choice([None, 0, -0.125, 0.25, -0.0])
    return dict(fn=fn, alpha=alpha, a=a, delta=delta)


def bad_outcomes(b):
    from scores.continuous import murphy_score, murphy_thetas
    f = xr.DataArray([1.0, 2.0], dims=["a"])
    o = xr.DataArray([2.0, 0.0], dims=["a"])
    try:
        with np.errstate(all="ignore"):
            murphy_score(f, o, [1.0], functional=b["fn"], alpha=b["alpha"], huber_a=b["a"])
        r1 = "ok"
    except Exception as ex:  # noqa: BLE001
        r1 = core.exc_class(ex)
    try:
        murphy_thetas([f], o, b["fn"], huber_a=b["a"], left_limit_delta=b["delta"])
        r2 = "ok"
    except Exception as ex:  # noqa: BLE001
        r2 = core.exc_class(ex)
    return r1, r2


def bad_ops(b):
    s = lambda v: None if v is None else core.fl_str(v)
    return [{"op": "c11.check", "args": {"alpha": s(b["alpha"]), "fn": b["fn"].lower(), "a": s(b["a"]), "delta": None}},
            {"op": "c11.check", "args": {"alpha": None, "fn": b["fn"], "a": s(b["a"]), "delta": s(b["delta"])}}]


# ------------------------------------------------------------------------------------------ interface
def correspondence(ctx):
    run_value_batch(ctx, "impl-vs-model:murphy_score", "correspondence", "c11.model", ctx.n(120, 2500), "model")
    # murphy_thetas vs the hand model
    tcs = [gen_thetas_case(ctx.rng) for _ in range(ctx.n(150, 3000))]
    tcs += strata_thetas_cases(ctx, ctx.n(4, 60))
    res = core.run_driver("C11", [thetas_op(t) for t in tcs])
    for tc, r in zip(tcs, res):
        ctx.case("impl-vs-model:murphy_thetas", tc)
        ctx.tag("thetas:" + tc["fn"] + f":sources={len(tc['sources'])}")
        tag_thetas_dtypes(ctx, tc)
        try:
            th = call_thetas(tc)
        except Exception as ex:  # noqa: BLE001
            ctx.fail("impl-vs-model:murphy_thetas", "correspondence", "murphy_thetas", "exception", dict(tc, check="thetas"),
                     observed=core.exc_class(ex) + ": " + str(ex)[:200], expected=r)
            continue
        exp = [float(core.parse_fl(x)) for x in r]
        if th != exp:
            ctx.fail("impl-vs-model:murphy_thetas", "correspondence", "murphy_thetas", "theta-set", dict(tc, check="thetas"),
                     observed=th, expected=exp, tags={"fn": tc["fn"]})
    # labelled sources with differing label sets / dims: the model never looks at labels (flattened values per source)
    ltcs = [gen_labelled_thetas_case(ctx.rng) for _ in range(ctx.n(60, 1200))]
    res = core.run_driver("C11", [labelled_thetas_op(t) for t in ltcs])
    for tc, r in zip(ltcs, res):
        ctx.case("impl-vs-model:murphy_thetas-labelled", tc)
        tag_labelled(ctx, tc, "thetas-labelled:")
        exp = [float(core.parse_fl(x)) for x in r]
        try:
            th = call_thetas_labelled(tc)
        except Exception as ex:  # noqa: BLE001
            ctx.fail("impl-vs-model:murphy_thetas-labelled", "correspondence", "murphy_thetas", "exception",
                     dict(tc, check="thetas-labelled-model"), observed=core.exc_class(ex) + ": " + str(ex)[:200], expected=exp)
            continue
        if th != exp:
            ctx.fail("impl-vs-model:murphy_thetas-labelled", "correspondence", "murphy_thetas", "theta-set",
                     dict(tc, check="thetas-labelled-model"), observed=th, expected=exp,
                     tags={"fn": tc["fn"], "labels": "differ"})
    # malformed stream: guards
    bads = [gen_bad(ctx.rng) for _ in range(ctx.n(40, 400))]
    res = core.run_driver("C11", [o for b in bads for o in bad_ops(b)])
    for k, b in enumerate(bads):
        ctx.case("impl-vs-model:guards", b, nontrivial=False)
        ctx.tag("malformed")
        r1, r2 = bad_outcomes(b)
        m1, m2 = res[2 * k], res[2 * k + 1]
        for site, got, m in (("murphy_score", r1, m1), ("murphy_thetas", r2, m2)):
            if (got == "ValueError") != bool(m) or got not in ("ok", "ValueError"):
                ctx.fail("impl-vs-model:guards", "correspondence", site, "guard", dict(b, check="guard"),
                         observed=got, expected="ValueError" if m else "ok")
    # infinite forecasts: model vs implementation only (outside the property's domain; see notes/C11.md)
    inf_stream(ctx)


def strata_thetas_cases(ctx, per):
    """`per` murphy_thetas cases for every functional x {all sources integer dtype, all sources float32}: whole-number
    data stored as integers (degrees, mm) and single-precision data, mostly with left_limit_delta > 0"""
    return [gen_thetas_case(ctx.rng, fn=fn, dclass=dc) for fn in FUNCS for dc in ("int", "float32") for _ in range(per)]


def tag_thetas_dtypes(ctx, tc):
    sd = tc.get("sdtypes") or ["float64"]
    cls = ("all-int" if all(_is_int(x) for x in sd) else "all-float32" if all(x == "float32" for x in sd)
           else "all-float64" if all(x == "float64" for x in sd) else "mixed")
    ctx.tag("thetas-dtype:sources=" + cls + ",obs=" + str(tc.get("odtype") or "float64")
            + (",delta>0" if (tc.get("delta") or 0) > 0 else ",delta=0"))


def inf_stream(ctx):
    from scores.continuous import murphy_score
    rng = ctx.rng
    ops, cs = [], []
    for _ in range(ctx.n(20, 200)):
        fn = rng.choice(FUNCS)
        vals = [core.INF, -core.INF, 1.0, 2.0, 0.0]
        c = dict(fn=fn, alpha=0.25, a=0.5 if fn == "huber" else None, f=rng.choice(vals), o=rng.choice(vals),
                 theta=rng.choice([0.5, 1.0, 1.5, 3.0]))
        cs.append(c)
        ops.append({"op": "c11.model", "args": {"fn": fn, "alpha": "1/4", "a": "1/2" if fn == "huber" else "nan",
                                                 "cases": [[core.fl_str(c["f"]), core.fl_str(c["o"])]],
                                                 "thetas": [core.fl_str(c["theta"])]}})
    res = core.run_driver("C11", ops)
    for c, r in zip(cs, res):
        ctx.case("impl-vs-model:infinite-values", c, nontrivial=False)
        exp = r["cells"][0][0]
        try:
            with np.errstate(all="ignore"):
                out = murphy_score(xr.DataArray([c["f"]], dims=["a"]), xr.DataArray([c["o"]], dims=["a"]), [c["theta"]],
                                   functional=c["fn"], alpha=0.25, huber_a=c["a"], decomposition=True, preserve_dims="all")
            got = [float(_vals(out, v, ("theta", "a"), (1, 1), {})[0, 0]) for v, _ in VARS]
        except _Unexpected as u:
            ctx.fail("impl-vs-model:infinite-values", "correspondence", u.args[0], u.args[1], dict(c, check="inf"),
                     observed=u.args[2], expected=u.args[3], tags={"fn": c["fn"], "domain": "infinite"})
            continue
        except Exception as ex:  # noqa: BLE001
            ctx.fail("impl-vs-model:infinite-values", "correspondence", "murphy_score", "exception", dict(c, check="inf"),
                     observed=core.exc_class(ex) + ": " + str(ex)[:200], expected=exp,
                     tags={"fn": c["fn"], "domain": "infinite"})
            continue
        if not all(core.close(g, e) for g, e in zip(got, exp)):
            ctx.fail("impl-vs-model:infinite-values", "correspondence", "murphy_score", "cell-value", dict(c, check="inf"),
                     observed=got, expected=exp, tags={"fn": c["fn"], "domain": "infinite"})
        if c["f"] == core.INF and c["fn"] != "expectile" and not math.isinf(c["o"]) and c["o"] <= c["theta"] and got[0] == 0:
            ctx.tag("finding:inf-forecast-scores-0")
            if FINDINGS:
                ctx.fail("impl-vs-model:infinite-values", "property", "murphy_score", "inf-forecast-not-penalised",
                         dict(c, check="inf"), observed=got, expected="(1-alpha)*...", tags={"finding": "inf-forecast"})


def oracle(ctx, boost):
    m = 5 if boost else 1
    run_value_batch(ctx, "impl-vs-spec:murphy_score", "property", "c11.spec", ctx.n(150, 3000) * m, "spec")
    if boost:
        for fn in FUNCS:
            run_value_batch(ctx, "impl-vs-spec:murphy_score", "property", "c11.spec", 150, "spec", fn=fn)
    tcs = [gen_thetas_case(ctx.rng) for _ in range(ctx.n(60, 1200) * m)]
    tcs += strata_thetas_cases(ctx, ctx.n(5, 60) * m)
    ops, spans = [], []
    for tc in tcs:
        o = loss_ops(tc)
        spans.append((len(ops), len(ops) + len(o)))
        ops += o
    res = core.run_driver("C11", ops)
    for tc, (lo, hi) in zip(tcs, spans):
        ctx.case("thetas-complete+integral", tc)
        ctx.tag("thetas-oracle:" + tc["fn"])
        tag_thetas_dtypes(ctx, tc)
        losses = [r["loss"] for r in res[lo:hi]]
        for site, sig, obs_, exp, tags in thetas_property(tc, losses):
            ctx.fail("thetas-complete+integral", "property", site, sig, dict(tc, check="thetas-property"),
                     observed=obs_, expected=exp, tags=tags,
                     theorem={"kink-inside-cell": "kinks_subset_thetas", "integral!=loss": "integral_eq_loss",
                              "theta-set": "kinks_subset_thetas", "jump-without-left-limit": "kinks_subset_thetas"}.get(sig))
    labelled_oracle(ctx, ctx.n(70, 1500) * m)
    state_oracle(ctx, ctx.n(36, 900) * m)
    mixed_shape_probe(ctx)


def labelled_oracle(ctx, n):
    """murphy_thetas for sources whose label sets / dims differ: per-source kinks, curve shape, integral = loss"""
    tcs = [gen_labelled_thetas_case(ctx.rng) for _ in range(n)]
    tcs += [gen_labelled_thetas_case(ctx.rng, fn=fn) for fn in FUNCS for _ in range(max(2, n // 20))]
    ops, spans = [], []
    for tc in tcs:
        o = labelled_loss_ops(tc)
        spans.append((len(ops), len(ops) + len(o)))
        ops += o
    res = core.run_driver("C11", ops)
    for tc, (lo, hi) in zip(tcs, spans):
        feats = lab_features(tc)
        ctx.case("thetas-labelled-sources", tc, nontrivial=feats != ["same-labels"])
        ctx.tag("thetas-labelled-oracle:" + tc["fn"])
        tag_labelled(ctx, tc, "thetas-labelled-oracle:")
        for site, sig, obs_, exp, tags in labelled_thetas_property(tc, [r["loss"] for r in res[lo:hi]]):
            ctx.fail("thetas-labelled-sources", "property", site, sig, dict(tc, check="thetas-labelled"),
                     observed=obs_, expected=exp, tags=tags,
                     theorem={"kink-inside-cell": "kinks_subset_thetas", "integral!=loss": "integral_eq_loss",
                              "kink-of-source-missing": "kinks_subset_thetas",
                              "jump-without-left-limit": "kinks_subset_thetas"}.get(sig))


def mixed_shape_probe(ctx):
    """sources of different shapes (notes/C11.md): recorded, not failed, unless C11_FINDINGS=1"""
    from scores.continuous import murphy_thetas
    f1 = xr.DataArray([[1.0, 2.0], [0.5, 2.0]], dims=["a", "b"])
    f2 = xr.DataArray([1.0, 5.0], dims=["a"])
    o = xr.DataArray([[2.0, 0.0], [1.0, 3.0]], dims=["a", "b"])
    for fn in ("huber", "expectile"):
        try:
            murphy_thetas([f1, f2], o, fn, huber_a=0.5)
        except Exception as ex:  # noqa: BLE001
            ctx.tag("finding:thetas-mixed-shapes-raise")
            if FINDINGS:
                ctx.fail("thetas-complete+integral", "property", "murphy_thetas", "mixed-shape-sources-raise",
                         {"fn": fn, "check": "mixed"}, observed=core.exc_class(ex), expected="a list",
                         tags={"finding": "thetas-mixed-shapes"})


def replay(ctx, payload):
    case = payload["case"]
    chk = case.get("check")
    fix = lambda v: core.NAN if v in ("nan", None) and v is not None else v

    def unnan(x):
        if isinstance(x, list):
            return [unnan(v) for v in x]
        if isinstance(x, dict):
            return {k: unnan(v) for k, v in x.items()}
        if x == "nan":
            return core.NAN
        if x == "inf":
            return core.INF
        if x == "-inf":
            return -core.INF
        return x
    case = {k: unnan(v) for k, v in case.items()}
    if chk == "value":
        res = core.run_driver("C11", ops_for(case, "c11.spec"))
        return bool(compare_case(case, res, "property", "spec"))
    if chk == "thetas-property":
        res = core.run_driver("C11", loss_ops(case))
        return bool(thetas_property(case, [r["loss"] for r in res]))
    if chk == "thetas-labelled":
        res = core.run_driver("C11", labelled_loss_ops(case))
        return bool(labelled_thetas_property(case, [r["loss"] for r in res]))
    if chk == "state-sequence":
        ops, spans = state_ops(case)
        return bool(state_sequence_fails(case, core.run_driver("C11", ops), spans))
    if chk == "thetas-labelled-model":
        try:
            return call_thetas_labelled(case) != lab_allowed(case)
        except Exception:  # noqa: BLE001
            return True
    if chk == "thetas":
        try:
            return call_thetas(case) != kink_spec(case)
        except Exception:  # noqa: BLE001
            return True
    if chk == "guard":
        r1, r2 = bad_outcomes(case)
        res = core.run_driver("C11", bad_ops(case))
        return (r1 == "ValueError") != bool(res[0]) or (r2 == "ValueError") != bool(res[1])
    return True
